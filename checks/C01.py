"""C01 — core expression semantics, decided fragment: cartesian iteration of for/some/every (DESIGN §4 C01).

Engine M: FeelIterator::add_range / add_list / run (feel-evaluator/src/iterations.rs) are executed from MIR with 1..3
iteration variables whose domains are lists of symbolic length or integer ranges with symbolic ends; the handler is a
logger.  On every path the handler must have been called exactly once per element of the cartesian product, every call
binding ALL variables, in odometer order with the first variable slowest; an empty domain makes the product empty.
"""
import itertools
import re

import z3

from vcommon import *  # noqa
from mcheck import MirCrate, decide, run_parallel, model_value
from mir.sym import Adt, En, FnV, Opaque, Outcome, Ref, Sc, StrV, VecV, UNIT, mk_bool, mk_int, none, some
from mir.models import deref, m_format_stub
from mir.parser import MirUnsupported
import feelvals as fv

ENGINE = "M (MIR -> SMT, z3): FeelIterator over symbolic domains"


def run(check, mirror, tier):
    rb = replay_build(mirror)
    crate = MirCrate(mirror, ["feel-evaluator", "feel"], overflow_checks=True)
    L = 2 if tier == "quick" else 3       # list lengths 0..L
    RB = 2                                # range ends within -RB..RB
    maxvars = 2 if tier == "quick" else 3
    check.bounds += ["1..%d iteration variables; each a list of symbolic length 0..%d or an integer range with both ends in %d..%d "
                     "(ascending, descending, single)" % (maxvars, L, -RB, RB),
                     "loops of FeelIterator::run unrolled up to %d visits per block" % ((L + 2) ** maxvars * 4 + 16)]
    check.assumptions += ["the handler is a logger of the iteration context (what For/Some/Every do with the tuple is not part of this obligation)",
                          "FeelContext = BTreeMap model keyed by the variable names; FeelNumber::from(isize) carries the integer as its order rank"]
    MODELS = [(re.compile(r"^format$|^std::fmt::format$|^alloc::fmt::format$"), m_format_stub)] + fv.VALUE_MODELS
    jobs = []

    def mk(kinds):
        oid = "cartesian/%s" % "".join(kinds)
        nv = len(kinds)

        def setup(ex, st):
            itcell = ex.new_cell(st, Adt("struct", "FeelIterator", (VecV(z3.IntVal(0), (), "FeelIteratorState"),)), "iter")
            doms = []
            inputs = {}
            adds = []
            for i, k in enumerate(kinds):
                name = Opaque("Name", z3.IntVal(i))
                if k == "R":
                    a = ex.fresh_int(st, "isize", "start%d" % i, constrain=False)
                    b = ex.fresh_int(st, "isize", "end%d" % i, constrain=False)
                    ex.assume(st, z3.And(a.e >= -RB, a.e <= RB, b.e >= -RB, b.e <= RB))
                    doms.append(("R", a.e, b.e))
                    inputs["start%d" % i], inputs["end%d" % i] = a.e, b.e
                    adds.append(("FeelIterator::add_range", [Ref(itcell), name, a, b]))
                else:
                    n = ex.fresh_int(st, "usize", "len%d" % i, constrain=False)
                    ex.assume(st, z3.And(n.e >= 0, n.e <= L))
                    items = [En("Value", z3.IntVal(25), {"Number": (Opaque("FeelNumber", z3.IntVal(100 * (i + 1) + j)),)}) for j in range(L)]
                    doms.append(("L", n.e, items))
                    inputs["len%d" % i] = n.e
                    vals = Adt("struct", "Values", (VecV(n.e, items, "Value"),))
                    adds.append(("FeelIterator::add_list", [Ref(itcell), name, vals]))
            inputs["_doms"] = doms

            def handler(ex, st, argv):
                ctx = deref(ex, st, argv[0])
                mp = ctx.fields[0]
                n = ex.concrete(mp.len)
                if n is None:
                    raise MirUnsupported("iteration context of symbolic size")
                snap = []
                for ent in mp.items[:n]:
                    key = ex.concrete(ent.fields[0].e)
                    v = ent.fields[1]
                    rank = v.alts["Number"][0].e if isinstance(v, En) and "Number" in v.alts else None
                    snap.append((key, rank))
                st.log.append(("call", tuple(snap)))
                yield st, UNIT
            h = FnV("@model", (handler,))

            def runner(ex, st):
                def rec(st, i):
                    if i == len(adds):
                        yield from ex.run("FeelIterator::run", [Ref(itcell), h], st)
                        return
                    for o in ex.run(adds[i][0], adds[i][1], st):
                        if o.kind != "return":
                            yield o
                        else:
                            yield from rec(o.st, i + 1)
                yield from rec(st, 0)
            return runner, None, inputs

        def post(ex, o, inputs):
            doms = inputs["_doms"]
            if ex.check() != z3.sat:
                return []
            m = ex.solver.model()
            # per path the loop control has fixed the size of every domain: read it from a model, let the solver confirm it
            sizes, fixed = [], []
            for d in doms:
                if d[0] == "L":
                    n = m.eval(d[1], model_completion=True).as_long()
                    sizes.append(n)
                    fixed.append(d[1] == n)
                else:
                    a, b = m.eval(d[1], model_completion=True).as_long(), m.eval(d[2], model_completion=True).as_long()
                    sizes.append(abs(b - a) + 1)
                    fixed.append(z3.If(d[1] <= d[2], d[2] - d[1], d[1] - d[2]) + 1 == abs(b - a) + 1)
                    fixed.append((d[1] <= d[2]) == (a <= b))
            calls = [e[1] for e in o.st.log if e[0] == "call"]
            expected = list(itertools.product(*[range(n) for n in sizes]))
            props = [("the path fixes the size of every domain", z3.And(fixed)),
                     ("the body is evaluated once per element of the cartesian product (none if a domain is empty)",
                      z3.BoolVal(len(calls) == len(expected)))]
            if len(calls) == len(expected):
                allb, order = [], []
                for snap, tup in zip(calls, expected):
                    allb.append(sorted(k for k, _ in snap) == list(range(len(doms))))
                    if sorted(k for k, _ in snap) == list(range(len(doms))):
                        byk = dict(snap)
                        for i, d in enumerate(doms):
                            if d[0] == "L":
                                want = d[2][tup[i]].alts["Number"][0].e
                            else:
                                want = z3.If(d[1] <= d[2], d[1] + tup[i], d[1] - tup[i])
                            order.append(byk[i] == want)
                props.append(("every evaluation binds all iteration variables", z3.BoolVal(all(allb))))
                props.append(("tuples come in odometer order, first variable slowest, ranges counting towards their end", z3.And(order) if order else z3.BoolVal(True)))
            return props

        def desc(m, inputs):
            return {k: model_value(m, v) for k, v in inputs.items() if not k.startswith("_")}

        unw = (L + 3) ** nv * 4 + 16
        jobs.append(lambda c: decide(c, crate, oid, setup, post, lambda i, rb: replay_for(kinds, i, rb, L), rb, models=MODELS, unwind=unw,
                                     describe=desc, budget_s=1500, min_paths=2, timeout_ms=20000, known_predicates=KNOWN_PRED))

    for nv in range(1, maxvars + 1):
        for kinds in itertools.product("LR", repeat=nv):
            mk(kinds)
    import checks.C01_ops as ops
    from checks.C02 import DecUniverse
    U = fv.Universe(mirror)
    U.dec = DecUniverse(mirror)
    crate_num = MirCrate(mirror, ["feel-evaluator", "feel-number", "feel"], overflow_checks=True)
    ops.jobs_for(check, mirror, rb, crate, crate_num, U, jobs, tier, KNOWN_PRED)
    run_parallel(check, jobs)
    # `=` on contexts and scalars is part of the core fragment (decided by C09)
    run_companion(check, mirror, tier, "C09", ["equality_contexts", "equality_scalars"])


def replay_for(kinds, i, rb, L):
    """for x0 in D0, x1 in D1 ... return [x0, x1, ..] through parse + evaluate, against python's itertools.product"""
    doms, pydoms = [], []
    for k, kind in enumerate(kinds):
        if kind == "L":
            n = i["len%d" % k]
            items = [100 * (k + 1) + j for j in range(n)]
            doms.append("[%s]" % ",".join(map(str, items)))
            pydoms.append(items)
        else:
            a, b = i["start%d" % k], i["end%d" % k]
            doms.append("%s..%s" % (("(%d)" % a) if a < 0 else a, ("(%d)" % b) if b < 0 else b))
            pydoms.append(list(range(a, b + 1)) if a <= b else list(range(a, b - 1, -1)))
    vars_ = ["x%d" % k for k in range(len(kinds))]
    expr = "for %s return [%s]" % (", ".join("%s in %s" % (v, d) for v, d in zip(vars_, doms)), ", ".join(vars_))
    _, out, _ = replay_call(rb, ["feel", expr])
    want = "[" + ", ".join("[" + ", ".join(str(x) for x in t) + "]" for t in itertools.product(*pydoms)) + "]"
    got = out[6:] if out.startswith("VALUE ") else out
    return got.replace(" ", "") != want.replace(" ", ""), "%s -> %s, cartesian product is %s" % (expr, got[:200], want[:200])


def kp_empty_domain(inputs):
    """KNOWN FINDING C01-empty-domain: some list domain is empty while the iteration has other variables"""
    doms = inputs["_doms"]
    if len(doms) < 2:
        return z3.BoolVal(False)
    return z3.Or([d[1] == 0 for d in doms if d[0] == "L"] or [z3.BoolVal(False)])


KNOWN_PRED = {"C01-empty-domain": kp_empty_domain}
