"""C01, results of single evaluator closures (DESIGN §4 C01) — one inductive step over the expression tree: the closure a builder of
feel-evaluator/src/builders.rs returns is executed from MIR with its sub-evaluators replaced by oracles that return arbitrary
symbolic values (what the sub-expressions evaluate to is the induction hypothesis); the result must be the value the FEEL semantics
assigns to the construct, given those sub-results.  Only the clear-cut part of the semantics is asserted:

  if            condition true -> the `then` value, false or null -> the `else` value (other condition kinds: not asserted)
  filter        numeric filter value i on a list of n items: 1..n -> item i, -n..-1 -> item n+i+1, 0 / out of range / non-integral -> null;
                otherwise the items whose filter value was `true`, in order (a single match may come back unwrapped)
  path          context.name -> the entry's value, null when there is no such entry; list of contexts that all have the entry -> the
                list of the entries' values in order
  arithmetic    number (+,-,*,/) number -> the library's result for THOSE operands in THAT order; string + string -> concatenation
                in order; null or a value of another kind on either side -> null
  list          [e1, .., en] -> the n sub-results in order
  for/some/every  for -> the body results in iteration order; some / every over boolean body results -> their disjunction /
                conjunction (bodies yielding null or other kinds: only the cases three-valued logic settles are asserted)
"""
import os
import re

import z3

from vcommon import *  # noqa
from mcheck import decide, model_value
from mir.sym import Adt, En, FnV, Opaque, Outcome, Ref, Sc, StrV, VecV, UNIT, mk_bool, mk_int, none, some
from mir.models import deref, m_format_stub, R
from mir.parser import MirUnsupported
import feelvals as fv
import numvals as nv
import decvals as dv
import charseq as cs
from checks.C09 import run_op, n_runs, const_eval, closure_env
from checks.C13 import SCOPE_MODELS, scope_value, closure_captures


def logging_oracle(U, kinds, key="sub", number=None, mk=None):
    """sub-evaluator returning a fresh symbolic value per call; every returned value is logged in call order"""
    def cb(ex, st, argv):
        k = sum(1 for e in st.log if e[0] == key)
        if mk is not None:
            v = mk(ex, st, k)
        else:
            v = U.fresh(ex, st, 0, "%s%d" % (key, k), kinds=kinds)
            if number is not None and "Number" in v.alts:
                v.alts["Number"] = (number(ex, st, "%s%d" % (key, k)),)
        st.log.append((key, v))
        yield st, v
    return FnV("@model", (cb,))


def jobs_for(check, mirror, rb, crate, crate_num, U, jobs, tier, KNOWN_PRED, select=None):
    L = 3 if tier == "quick" else 4
    NUM, NULL, BOOL, LIST, CTX, STR = (U.idx(k) for k in ("Number", "Null", "Boolean", "List", "Context", "String"))
    check.bounds += ["closure results: lists of 0..%d items, contexts of 0..2 entries, strings of 0..2 symbolic Unicode scalar values; sub-expression results "
                     "arbitrary symbolic values (every scalar kind)" % L]
    check.assumptions += ["induction hypothesis: sub-evaluators return arbitrary values and leave the scope alone (scope balance: C13)",
                          "filter index arithmetic: FeelNumber by its floor/integrality contract (lib/numvals.py; the contract itself is decided in C02 repr/is_integer)",
                          "arithmetic closures: the decimal library by its contract (lib/decvals.py): only operand order / kind dispatch is asserted, no digits"]
    FMT = [(re.compile(r"^format$|^std::fmt::format$|^alloc::fmt::format$"), m_format_stub)]
    MODELS = FMT + SCOPE_MODELS + nv.NUM_MODELS + fv.VALUE_MODELS

    def vdesc(names):
        def d(m, inputs):
            out = {}
            for k in names:
                v = inputs.get(k)
                if isinstance(v, En):
                    out[k] = U.describe(m, v, model_value)
                elif isinstance(v, z3.ExprRef):
                    out[k] = model_value(m, v)
            return out
        return d

    def same_value(a, b):
        """z3: two symbolic Values of scalar kinds are the same value (same kind, same payload)"""
        conj = [a.disc == b.disc]
        for k in set(a.alts) & set(b.alts):
            pa, pb = a.alts[k], b.alts[k]
            if k == "Boolean":
                conj.append(z3.Implies(a.disc == U.idx(k), pa[0].e == pb[0].e))
            elif k in ("Number", "DaysAndTimeDuration", "YearsAndMonthsDuration"):
                if isinstance(pa[0], Adt):
                    conj.append(z3.Implies(a.disc == U.idx(k), dv.num_of(pa[0]).e == dv.num_of(pb[0]).e))
                else:
                    conj.append(z3.Implies(a.disc == U.idx(k), pa[0].e == pb[0].e))
            elif k == "String" and "id" in pa[0].attrs:
                conj.append(z3.Implies(a.disc == U.idx(k), pa[0].attrs["id"] == pb[0].attrs["id"]))
            elif k == "Date":
                conj.append(z3.Implies(a.disc == U.idx(k), z3.And([x.e == y.e for x, y in zip(pa[0].fields, pb[0].fields)])))
            elif k in ("Time", "DateTime"):
                conj.append(z3.Implies(a.disc == U.idx(k), pa[0].e[0] == pb[0].e[0]))
        for k in set(a.alts) - set(b.alts):
            conj.append(a.disc != U.idx(k))
        return z3.And(conj)

    # ------------------------------------------------------------------------------------------------------------------ if
    def if_job():
        names = ["c", "t", "e"]

        def setup(ex, st):
            vals = {"c": U.fresh(ex, st, 0, "c"), "t": U.fresh(ex, st, 0, "t", kinds=["Number", "String", "Null"]),
                    "e": U.fresh(ex, st, 0, "e", kinds=["Number", "String", "Null"])}
            return n_runs([("build_if", [vals["c"], vals["t"], vals["e"]])]), None, vals

        def post(ex, o, v):
            r = o.value[0]
            c = v["c"]
            cb = c.alts["Boolean"][0].e
            return [("a true condition selects the `then` value", z3.Implies(z3.And(c.disc == BOOL, cb), same_value(r, v["t"]))),
                    ("a false condition selects the `else` value", z3.Implies(z3.And(c.disc == BOOL, z3.Not(cb)), same_value(r, v["e"]))),
                    ("a null condition selects the `else` value", z3.Implies(c.disc == NULL, same_value(r, v["e"]))),
                    ("reach:then", z3.And(c.disc == BOOL, cb)), ("reach:else", z3.And(c.disc == BOOL, z3.Not(cb)))]

        def replay(i, rb):
            if not all(fv.replayable(d) for d in i.values()):
                return False, "not expressible"
            t = {k: fv.feel_text(d) for k, d in i.items()}
            expr = "if %s then %s else %s" % (t["c"], t["t"], t["e"])
            _, out, _ = replay_call(rb, ["feel", expr])
            want = None
            if i["c"]["kind"] == "Boolean":
                want = t["t"] if i["c"]["v"] else t["e"]
            elif i["c"]["kind"] == "Null":
                want = t["e"]
            if want is None:
                return False, "%s -> %s" % (expr, out)
            _, wout, _ = replay_call(rb, ["feel", want])
            return out != wout, "%s -> %s, the selected branch alone gives %s" % (expr, out[:100], wout[:100])
        jobs.append(lambda c: decide(c, crate, "ops/if", setup, post, replay, rb, models=MODELS, describe=vdesc(names), need_reach=["reach:then", "reach:else"],
                                     prefer=lambda v: z3.And([U.replayable_pref(v[k]) for k in names]), known_predicates=KNOWN_PRED))
    if select is None or 'if_job' in select:
        if_job()

    # ------------------------------------------------------------------------------------------------------------------ filter
    def filter_job():
        def setup(ex, st):
            sref, ctxs = scope_value(ex, st, 1)
            n = ex.fresh_int(st, "usize", "len", constrain=False)
            ex.assume(st, z3.And(n.e >= 0, n.e <= L))
            items = [En("Value", z3.IntVal(NUM), {"Number": (Opaque("FeelNumber", z3.IntVal(100 + j)),)}) for j in range(L)]
            lst = En("Value", z3.IntVal(LIST), {"List": (Adt("struct", "Values", (VecV(n.e, items, "Value"),)),)})
            caps = closure_captures(crate, "build_filter")
            vals = {"lhe": Ref(ex.new_cell(st, FnV("@const", (lst,)), "box")),
                    "rhe": Ref(ex.new_cell(st, logging_oracle(U, ["Boolean", "Null", "Number"], key="flt", number=nv.fresh_number), "box")),
                    "name_item": Opaque("Name", z3.IntVal(901))}
            if sorted(caps) != sorted(vals):
                raise MirUnsupported("build_filter's closure captures %s, the obligation knows %s" % (caps, sorted(vals)))
            env = Ref(ex.new_cell(st, Adt("closure", "build_filter", [vals[c] for c in caps]), "env"))
            return "build_filter::{closure#0}", [env, sref], dict(len=n.e, _items=items)

        def post(ex, o, v):
            r = o.value
            calls = [e[1] for e in o.st.log if e[0] == "flt"]
            v["_calls"] = calls
            n = v["len"]
            if not calls:
                return [("the filter expression is evaluated", z3.BoolVal(False))]
            last = calls[-1]
            f = last.alts["Number"][0]
            fl, isint = f.e, nv._isint(f)
            rank = r.alts["Number"][0].e if "Number" in r.alts and isinstance(r.alts["Number"][0], Opaque) else None
            is_item = lambda k: z3.And(r.disc == NUM, rank == 100 + k) if rank is not None else z3.BoolVal(False)
            pos = z3.Or([z3.And(fl == k + 1, k < n, is_item(k)) for k in range(L)])
            neg = z3.Or([z3.And(fl == -(k + 1), k < n, z3.Or([z3.And(n == m, is_item(m - 1 - k)) for m in range(k + 1, L + 1)])) for k in range(L)])
            isnum = last.disc == NUM
            props = [("numeric filter i in 1..n yields item i", z3.Implies(z3.And(isnum, isint, fl >= 1, fl <= n), pos)),
                     ("numeric filter -i in -n..-1 yields item n-i+1", z3.Implies(z3.And(isnum, isint, fl <= -1, fl >= -n), neg)),
                     ("numeric filter 0, beyond the list or not integral yields null", z3.Implies(z3.And(isnum, z3.Or(z3.Not(isint), fl == 0, fl > n, fl < -n)), r.disc == NULL)),
                     ("reach:index", z3.And(isnum, isint, fl >= 1, fl <= n)), ("reach:neg", z3.And(isnum, isint, fl <= -1, fl >= -n))]
            # boolean filter: the path has decided which per-item results were `true`
            if ex.check(last.disc != NUM) == z3.sat:
                m = ex.solver.model()
                nn = m.eval(n, model_completion=True).as_long()
                per = calls[:nn]
                truth = []
                for c in per:
                    cond = z3.And(c.disc == BOOL, c.alts["Boolean"][0].e)
                    truth.append(z3.is_true(m.eval(cond, model_completion=True)))
                fixed = z3.And([n == nn] + [z3.And(c.disc == BOOL, c.alts["Boolean"][0].e) == t for c, t in zip(per, truth)])
                sel = [k for k, t in enumerate(truth) if t]
                if isinstance(r, En) and "List" in r.alts and ex.concrete(r.disc) == LIST:
                    vec = r.alts["List"][0].fields[0]
                    ln = ex.concrete(vec.len)
                    okl = ln == len(sel) and all(isinstance(x, En) and "Number" in x.alts for x in vec.items[:len(sel)])
                    shape = z3.And([z3.BoolVal(bool(okl))] + ([vec.items[j].alts["Number"][0].e == 100 + k for j, k in enumerate(sel)] if okl else []))
                elif len(sel) == 1:
                    shape = is_item(sel[0])
                else:
                    shape = z3.BoolVal(False)
                props.append(("a non-numeric filter keeps exactly the items whose filter value was true, in order",
                              z3.Implies(z3.And(last.disc != NUM, len(calls) == nn + 1), z3.And(fixed, shape)) if len(calls) == nn + 1 else z3.BoolVal(False)))
                props.append(("reach:boolean", z3.And(last.disc != NUM, z3.BoolVal(len(sel) >= 2))))
            return props

        def desc(m, v):
            out = {"len": model_value(m, v["len"])}
            out["filter_values"] = []
            for c in v.get("_calls", []):
                d = model_value(m, c.disc)
                if d == NUM:
                    out["filter_values"].append({"kind": "Number", "floor": model_value(m, c.alts["Number"][0].e), "int": model_value(m, nv._isint(c.alts["Number"][0]))})
                elif d == BOOL:
                    out["filter_values"].append({"kind": "Boolean", "v": model_value(m, c.alts["Boolean"][0].e)})
                else:
                    out["filter_values"].append({"kind": "Null"})
            return out

        def replay(i, rb):
            n = i["len"]
            fvs = i["filter_values"]
            if not fvs:
                return False, "no filter values"
            items = [100 + j for j in range(n)]
            last = fvs[-1]
            lst = "[%s]" % ",".join(map(str, items))
            if last["kind"] == "Number":
                if abs(last["floor"]) > 10 ** 6:
                    return False, "index too large for a literal"
                idx = str(last["floor"]) if last["int"] else "%d.5" % last["floor"]
                expr = "%s[%s]" % (lst, idx if last["floor"] >= 0 else "(%s)" % idx)
                f = last["floor"]
                if last["int"] and 1 <= f <= n:
                    want = str(items[f - 1])
                elif last["int"] and -n <= f <= -1:
                    want = str(items[n + f])
                else:
                    want = "null"
            else:
                truth = [(c["kind"] == "Boolean" and c["v"]) for c in fvs[:n]]
                tests = " or ".join("item = %d" % x for x, t in zip(items, truth) if t) or "false"
                expr = "%s[%s]" % (lst, tests)
                sel = [x for x, t in zip(items, truth) if t]
                want = "[" + ", ".join(map(str, sel)) + "]"
            _, out, _ = replay_call(rb, ["feel", expr])
            got = out[6:] if out.startswith("VALUE ") else out
            got_n = "null" if got.startswith("null") else got
            okv = got_n.replace(" ", "") == want.replace(" ", "") or (want.startswith("[") and want.count(",") == 0 and got_n == want.strip("[]"))
            return not okv, "%s -> %s, specified: %s" % (expr, got[:120], want)
        jobs.append(lambda c: decide(c, crate, "ops/filter", setup, post, replay, rb, models=MODELS, unwind=6 * (L + 2), describe=desc, budget_s=900,
                                     need_reach=["reach:index", "reach:neg", "reach:boolean"], max_cex=3, known_predicates=KNOWN_PRED,
                                     prefer=lambda v: z3.And([z3.And(c.alts["Number"][0].e >= -10, c.alts["Number"][0].e <= 10) for c in v.get("_calls", [])] or [z3.BoolVal(True)])))
    if select is None or 'filter_job' in select:
        filter_job()

    # ------------------------------------------------------------------------------------------------------------------ path
    def path_jobs():
        def entry_ctx(ex, st, hint, name_rank, present):
            """context with 0..2 entries; `present` (z3 Bool): it has an entry called name_rank, whose value is returned too"""
            val = U.fresh(ex, st, 0, hint + "_val", kinds=["Number", "String", "Boolean", "Null"])
            other = U.fresh(ex, st, 0, hint + "_other", kinds=["Number", "Null"])
            before = z3.Bool(ex.fresh_name(hint + "_other_first"))
            has_other = z3.Bool(ex.fresh_name(hint + "_has_other"))
            ok_rank = z3.If(before, name_rank - 1, name_rank + 1)
            e_name = Adt("tuple", None, (Opaque("Name", name_rank), val))
            e_other = Adt("tuple", None, (Opaque("Name", ok_rank), other))
            # three shapes: {name}, {other, name} / {name, other}, {other}, {}
            return val, has_other, before, e_name, e_other

        def setup_ctx(ex, st):
            sref, ctxs = scope_value(ex, st, 1)
            name = Opaque("Name", z3.IntVal(50))
            present = ex.fresh_bool("present")
            val = U.fresh(ex, st, 0, "val", kinds=["Number", "String", "Boolean", "Null"])
            other = U.fresh(ex, st, 0, "other", kinds=["Number", "Null"])
            n_other = ex.fresh_int(st, "usize", "n_other", constrain=False)     # 0: none, 1: a smaller key, 2: a larger key
            ex.assume(st, z3.And(n_other.e >= 0, n_other.e <= 2))
            for st2, no in ex.enum_values(st, n_other.e, limit=4):
                for st3 in ex.branch(st2, present.e):
                    ents = [Adt("tuple", None, (Opaque("Name", z3.IntVal(50)), val))]
                    if no == 1:
                        ents = [Adt("tuple", None, (Opaque("Name", z3.IntVal(40)), other))] + ents
                    if no == 2:
                        ents = ents + [Adt("tuple", None, (Opaque("Name", z3.IntVal(60)), other))]
                    yield st3, sref, name, ents, True, val
                for st3 in ex.branch(st2, z3.Not(present.e)):
                    ents = [Adt("tuple", None, (Opaque("Name", z3.IntVal(40 if no == 1 else 60)), other))] if no else []
                    yield st3, sref, name, ents, False, val

        def ctx_job():
            def setup(ex, st):
                inputs = {}

                def runner(ex, st):
                    for st2, sref, name, ents, present, val in setup_ctx(ex, st):
                        inputs["_val"], inputs["_shape"] = val, (present, [ex.concrete(e.fields[0].e) for e in ents])
                        cv = En("Value", z3.IntVal(CTX), {"Context": (Adt("struct", "FeelContext", (fv.MapV(z3.IntVal(len(ents)), ents, "kv"),)),)})
                        env = Ref(ex.new_cell(st2, Adt("closure", "build_path", path_env(ex, st2, cv, name)), "env"))
                        for o in ex.run_body(st2, ex.bodies["build_path::{closure#0}"], [env, sref]):
                            if o.kind == "return":
                                o.value = (o.value, present, val)
                            yield o
                return runner, None, inputs

            def post(ex, o, v):
                r, present, val = o.value
                if present:
                    return [("context.name is the value of that entry", same_value(r, val)), ("reach:present", z3.BoolVal(True))]
                return [("context.name without such an entry is null", r.disc == NULL), ("reach:absent", z3.BoolVal(True))]
            def desc(m, i):
                return {"present": i["_shape"][0], "keys": i["_shape"][1], "value": U.describe(m, i["_val"], model_value)}

            def replay(i, rb):
                if not fv.replayable(i["value"]):
                    return False, "not expressible"
                names = {40: "a", 50: "k", 60: "z"}
                t = fv.feel_text(i["value"])
                ctx = "{" + ", ".join("%s: %s" % (names[k], t if k == 50 else "7") for k in i["keys"]) + "}"
                got = _native_value(rb, ctx + ".k")
                want = _native_value(rb, t) if i["present"] else "null"
                norm = lambda x: re.sub(r"null\([^)]*\)", "null", x).replace(" ", "")
                return norm(got) != norm(want), "%s.k -> %s, specified %s" % (ctx, got[:100], want[:100])
            jobs.append(lambda c: decide(c, crate, "ops/path_context", setup, post, replay, rb, models=MODELS, need_reach=["reach:present", "reach:absent"],
                                         describe=desc, known_predicates=KNOWN_PRED, prefer=lambda v: U.replayable_pref(v["_val"]) if "_val" in v else z3.BoolVal(True)))

        def path_env(ex, st, lhv, name):
            caps = closure_captures(crate, "build_path")
            vals = {"lhe": Ref(ex.new_cell(st, FnV("@const", (lhv,)), "box")), "name": name}
            if sorted(caps) != sorted(vals):
                raise MirUnsupported("build_path's closure captures %s, the obligation knows %s" % (caps, sorted(vals)))
            return [vals[c] for c in caps]

        def list_job():
            def setup(ex, st):
                sref, ctxs = scope_value(ex, st, 1)
                n = ex.fresh_int(st, "usize", "len", constrain=False)
                ex.assume(st, z3.And(n.e >= 0, n.e <= L))
                vals, items, firsts = [], [], []
                for j in range(L):
                    val = U.fresh(ex, st, 0, "val%d" % j, kinds=["Number", "Boolean", "Null"])
                    first = z3.Bool(ex.fresh_name("other_first%d" % j))
                    firsts.append(first)
                    other = En("Value", z3.IntVal(NULL), {"Null": (none(),)})
                    # {name: val, other} with the other key before or after (map order = key order)
                    k_other = z3.If(first, z3.IntVal(40), z3.IntVal(60))
                    e1 = Adt("tuple", None, (Opaque("Name", z3.If(first, z3.IntVal(40), z3.IntVal(50))), En("Value", z3.If(first, z3.IntVal(NULL), val.disc), dict(val.alts, Null=(none(),)))))
                    e2 = Adt("tuple", None, (Opaque("Name", z3.If(first, z3.IntVal(50), z3.IntVal(60))), En("Value", z3.If(first, val.disc, z3.IntVal(NULL)), dict(val.alts, Null=(none(),)))))
                    items.append(En("Value", z3.IntVal(CTX), {"Context": (Adt("struct", "FeelContext", (fv.MapV(z3.IntVal(2), [e1, e2], "kv"),)),)}))
                    vals.append(val)
                lst = En("Value", z3.IntVal(LIST), {"List": (Adt("struct", "Values", (VecV(n.e, items, "Value"),)),)})
                env = Ref(ex.new_cell(st, Adt("closure", "build_path", path_env(ex, st, lst, Opaque("Name", z3.IntVal(50)))), "env"))
                return "build_path::{closure#0}", [env, sref], dict(len=n.e, _vals=vals, _first=firsts)

            def post(ex, o, v):
                r = o.value
                n = v["len"]
                if not (isinstance(r, En) and ex.concrete(r.disc) == LIST):
                    return [("a list of contexts that all have the entry gives a list", z3.BoolVal(False))]
                vec = r.alts["List"][0].fields[0]
                ln = ex.concrete(vec.len)
                props = [("the result has one value per context", vec.len == n)]
                if ln is not None:
                    props.append(("the values are the entries' values, in list order", z3.And([same_value(vec.items[j], v["_vals"][j]) for j in range(ln)] or [z3.BoolVal(True)])))
                    props.append(("reach:two", z3.BoolVal(ln >= 2)))
                return props
            def desc(m, i):
                n = model_value(m, i["len"])
                return {"len": n, "values": [U.describe(m, x, model_value) for x in i["_vals"][:n]], "other_first": [bool(model_value(m, b)) for b in i["_first"][:n]]}

            def replay(i, rb):
                if not all(fv.replayable(d) for d in i["values"]):
                    return False, "not expressible"
                texts = [fv.feel_text(d) for d in i["values"]]
                ctxs = [("{a: null, k: %s}" if f else "{k: %s, z: null}") % t for t, f in zip(texts, i["other_first"])]
                return replay_sequence(rb, "[" + ", ".join(ctxs) + "].k", texts)
            jobs.append(lambda c: decide(c, crate, "ops/path_list", setup, post, replay, rb, models=MODELS, unwind=6 * (L + 2), need_reach=["reach:two"],
                                         describe=desc, known_predicates=KNOWN_PRED, prefer=lambda v: z3.And([U.replayable_pref(x) for x in v["_vals"]])))
        ctx_job()
        list_job()
    if select is None or 'path_jobs' in select:
        path_jobs()

    # ------------------------------------------------------------------------------------------------------------------ list literal
    def list_literal_job():
        def setup(ex, st):
            sref, ctxs = scope_value(ex, st, 1)
            n = ex.fresh_int(st, "usize", "len", constrain=False)
            ex.assume(st, z3.And(n.e >= 0, n.e <= L))
            outs = [U.fresh(ex, st, 0, "e%d" % j, kinds=["Number", "Boolean", "Null"]) for j in range(L)]
            evs = [Ref(ex.new_cell(st, FnV("@const", (outs[j],)), "box")) for j in range(L)]
            caps = closure_captures(crate, "build_list")
            if caps != ["evaluators"]:
                raise MirUnsupported("build_list's closure captures %s" % caps)
            env = Ref(ex.new_cell(st, Adt("closure", "build_list", [VecV(n.e, evs, "Evaluator")]), "env"))
            return "build_list::{closure#0}", [env, sref], dict(len=n.e, _outs=outs)

        def post(ex, o, v):
            r = o.value
            if not (isinstance(r, En) and ex.concrete(r.disc) == LIST):
                return [("a list literal evaluates to a list", z3.BoolVal(False))]
            vec = r.alts["List"][0].fields[0]
            ln = ex.concrete(vec.len)
            props = [("the list has one item per element expression", vec.len == v["len"])]
            if ln is not None:
                props.append(("the items are the element values in order", z3.And([same_value(vec.items[j], v["_outs"][j]) for j in range(ln)] or [z3.BoolVal(True)])))
                props.append(("reach:two", z3.BoolVal(ln >= 2)))
            return props
        def desc(m, i):
            n = model_value(m, i["len"])
            return {"len": n, "elements": [U.describe(m, x, model_value) for x in i["_outs"][:n]]}

        def replay(i, rb):
            if not all(fv.replayable(d) for d in i["elements"]):
                return False, "not expressible"
            texts = [fv.feel_text(d) for d in i["elements"]]
            return replay_sequence(rb, "[" + ", ".join(texts) + "]", texts)
        jobs.append(lambda c: decide(c, crate, "ops/list_literal", setup, post, replay, rb, models=MODELS, unwind=6 * (L + 2), need_reach=["reach:two"],
                                     describe=desc, known_predicates=KNOWN_PRED, prefer=lambda v: z3.And([U.replayable_pref(x) for x in v["_outs"]])))
    if select is None or 'list_literal_job' in select:
        list_literal_job()

    # ------------------------------------------------------------------------------------------------------------------ for / some / every results
    def quantifier_jobs():
        for which, kinds in (("ForExpressionEvaluator", ["Boolean", "Number", "Null"]), ("SomeExpressionEvaluator", ["Boolean", "Null", "Number"]),
                             ("EveryExpressionEvaluator", ["Boolean", "Null", "Number"])):
            def setup(ex, st, which=which, kinds=kinds):
                sref, ctxs = scope_value(ex, st, 1)
                n = ex.fresh_int(st, "usize", "len", constrain=False)
                ex.assume(st, z3.And(n.e >= 0, n.e <= L))
                items = [En("Value", z3.IntVal(NUM), {"Number": (Opaque("FeelNumber", z3.IntVal(100 + j)),)}) for j in range(L)]
                lst = En("Value", z3.IntVal(LIST), {"List": (Adt("struct", "Values", (VecV(n.e, items, "Value"),)),)})
                it = Adt("struct", "FeelIterator", (VecV(z3.IntVal(0), (), "FeelIteratorState"),))
                if which == "ForExpressionEvaluator":
                    evs = Adt("struct", which, (it, Opaque("Name", z3.IntVal(900))))
                    addfn = which + "::add_single"
                else:
                    evs = Adt("struct", which, (it,))
                    addfn = which + "::add"
                ecell = Ref(ex.new_cell(st, evs, "ev"))
                evaluator = Ref(ex.new_cell(st, Ref(ex.new_cell(st, logging_oracle(U, kinds, key="body"), "box")), "evalref"))

                def runner(ex, st):
                    for o in ex.run(addfn, [ecell, Opaque("Name", z3.IntVal(0)), lst], st):
                        if o.kind != "return":
                            yield o
                            continue
                        yield from ex.run(which + "::evaluate", [ecell, sref, ex.read(o.st, evaluator.cell, evaluator.projs)], o.st)
                return runner, None, dict(len=n.e)

            def post(ex, o, v, which=which):
                r = o.value
                calls = [e[1] for e in o.st.log if e[0] == "body"]
                v["_calls"] = calls
                n = v["len"]
                props = [("the body is evaluated once per item", n == len(calls))]
                isb = lambda c: c.disc == BOOL
                tv = lambda c: z3.And(c.disc == BOOL, c.alts["Boolean"][0].e)
                fv_ = lambda c: z3.And(c.disc == BOOL, z3.Not(c.alts["Boolean"][0].e))
                if which == "ForExpressionEvaluator":
                    if not (isinstance(r, Adt) and r.fields and isinstance(r.fields[0], VecV)):
                        return props + [("for yields a list", z3.BoolVal(False))]
                    vec = r.fields[0]
                    ln = ex.concrete(vec.len)
                    props.append(("for yields one result per iteration", z3.BoolVal(ln == len(calls))))
                    if ln == len(calls):
                        props.append(("the results are the body values in iteration order", z3.And([same_value(vec.items[j], calls[j]) for j in range(ln)] or [z3.BoolVal(True)])))
                    props.append(("reach:two", z3.BoolVal(len(calls) >= 2)))
                    return props
                rb_ = r.alts["Boolean"][0].e if "Boolean" in r.alts else z3.BoolVal(False)
                if which == "SomeExpressionEvaluator":
                    props.append(("some: true when the body is true for an item", z3.Implies(z3.Or([tv(c) for c in calls] or [z3.BoolVal(False)]), z3.And(r.disc == BOOL, rb_))))
                    props.append(("some: false when the body is false for every item (also over no items)", z3.Implies(z3.And([fv_(c) for c in calls] or [z3.BoolVal(True)]), z3.And(r.disc == BOOL, z3.Not(rb_)))))
                    props.append(("some: never true unless the body was true for an item", z3.Implies(z3.Not(z3.Or([tv(c) for c in calls] or [z3.BoolVal(False)])), z3.Not(z3.And(r.disc == BOOL, rb_)))))
                else:
                    props.append(("every: false when the body is false for an item", z3.Implies(z3.Or([fv_(c) for c in calls] or [z3.BoolVal(False)]), z3.And(r.disc == BOOL, z3.Not(rb_)))))
                    props.append(("every: true when the body is true for every item (also over no items)", z3.Implies(z3.And([tv(c) for c in calls] or [z3.BoolVal(True)]), z3.And(r.disc == BOOL, rb_))))
                    props.append(("every: never false unless the body was false for an item", z3.Implies(z3.Not(z3.Or([fv_(c) for c in calls] or [z3.BoolVal(False)])), z3.Not(z3.And(r.disc == BOOL, z3.Not(rb_))))))
                props.append(("reach:two", z3.BoolVal(len(calls) >= 2)))
                return props
            def desc(m, i):
                return {"len": model_value(m, i["len"]), "body": [U.describe(m, c, model_value) for c in i.get("_calls", [])]}

            def replay(i, rb, which=which):
                if not all(fv.replayable(d) for d in i["body"]):
                    return False, "not expressible"
                texts = [fv.feel_text(d) for d in i["body"]]
                lst = "[" + ", ".join(texts) + "]"
                if which == "ForExpressionEvaluator":
                    return replay_sequence(rb, "for x in %s return x" % lst, texts)
                kw = "some" if which.startswith("Some") else "every"
                expr = "%s x in %s satisfies x" % (kw, lst)
                got = _native_value(rb, expr)
                ts = [d["kind"] == "Boolean" and d["v"] for d in i["body"]]
                fs = [d["kind"] == "Boolean" and not d["v"] for d in i["body"]]
                if kw == "some":
                    want = "true" if any(ts) else ("false" if all(fs) else None)
                    bad = got != want if want is not None else got == "true"
                else:
                    want = "false" if any(fs) else ("true" if all(ts) else None)
                    bad = got != want if want is not None else got == "false"
                return bad, "%s -> %s, specified %s" % (expr, got, want if want is not None else "not %s" % ("true" if kw == "some" else "false"))
            jobs.append(lambda c, which=which, setup=setup, post=post, desc=desc, replay=replay: decide(
                c, crate, "ops/%s" % which.replace("ExpressionEvaluator", "").lower(), setup, post, replay, rb, models=MODELS, unwind=6 * (L + 2), need_reach=["reach:two"],
                describe=desc, budget_s=900, known_predicates=KNOWN_PRED, prefer=lambda v: z3.And([U.replayable_pref(c) for c in v.get("_calls", [])] or [z3.BoolVal(True)])))
    if select is None or 'quantifier_jobs' in select:
        quantifier_jobs()

    # ------------------------------------------------------------------------------------------------------------------ for: order of the iteration contexts
    def for_order_job():
        """build_for itself is executed on an AST with two iteration contexts, each a list or a range, then the closure it returns:
        the FIRST written variable must be the slowest one whatever the kinds of the domains"""
        from mir.models import call_fn_value
        AST = crate.enums.get("AstNode") or {}

        def setup(ex, st):
            sref, ctxs = scope_value(ex, st, 1)
            kinds = [ex.fresh_int(st, "isize", "ctx%d_kind" % k, constrain=False) for k in range(2)]
            for k in kinds:
                ex.assume(st, z3.Or(k.e == AST["IterationContextSingle"], k.e == AST["IterationContextRange"]))
            box = lambda v, tag: Ref(ex.new_cell(st, v, tag))
            ics = []
            for k in range(2):
                name = box(En("AstNode", z3.IntVal(AST["Name"]), {"Name": (Opaque("Name", z3.IntVal(k)),)}), "name")
                e = lambda tag: box(Opaque("AstExpr", (tag, k)), "expr")
                ics.append(En("AstNode", kinds[k].e, {"IterationContextSingle": (name, e("list")), "IterationContextRange": (name, e("start"), e("end"))}))
            lhs = En("AstNode", z3.IntVal(AST["IterationContexts"]), {"IterationContexts": (VecV(z3.IntVal(2), ics, "AstNode"),)})
            rhs = Opaque("AstExpr", ("body", 0))

            def body(ex, st, argv):
                sc = ex.read(st, sref.cell, sref.projs)
                vec = sc.fields[0]
                n = ex.concrete(vec.len)
                top = vec.items[n - 1].fields[0]
                m = ex.concrete(top.len)
                snap = {}
                for ent in top.items[:m]:
                    key = ex.concrete(ent.fields[0].e)
                    v = ent.fields[1]
                    if isinstance(v, En) and "Number" in v.alts and isinstance(v.alts["Number"][0], Opaque):
                        snap[key] = v.alts["Number"][0].e
                st.log.append(("iter", snap))
                yield st, En("Value", z3.IntVal(NULL), {"Null": (none(),)})

            def m_build_evaluator(ex, st, callee, args, dest_ty):
                node = deref(ex, st, args[0])
                if not (isinstance(node, Opaque) and node.sort == "AstExpr"):
                    raise MirUnsupported("build_evaluator on %r" % (node,))
                tag, k = node.e
                num = lambda v: En("Value", z3.IntVal(NUM), {"Number": (nv.num_const(v),)})
                if tag == "body":
                    f = FnV("@model", (body,))
                elif tag == "list":
                    items = [En("Value", z3.IntVal(NUM), {"Number": (Opaque("FeelNumber", z3.IntVal(100 * (k + 1) + j)),)}) for j in range(2)]
                    f = FnV("@const", (En("Value", z3.IntVal(LIST), {"List": (Adt("struct", "Values", (VecV(z3.IntVal(2), items, "Value"),)),)}),))
                else:
                    f = FnV("@const", (num(1 if tag == "start" else 2),))
                yield st, En("Result", z3.IntVal(0), {"Ok": (Ref(ex.new_cell(st, f, "box")),)})
            inputs = dict(kind0=kinds[0].e, kind1=kinds[1].e, _model=m_build_evaluator)

            def runner(ex, st):
                ex.models.insert(0, (re.compile(r"^build_evaluator$"), m_build_evaluator))
                for o in ex.run("build_for", [Ref(ex.new_cell(st, lhs, "lhs")), Ref(ex.new_cell(st, rhs, "rhs"))], st):
                    if o.kind != "return":
                        yield o
                        continue
                    r = o.value
                    if ex.concrete(r.disc) != 0:
                        yield Outcome("return", o.st, value=None)
                        continue
                    yield from call_fn_value(ex, o.st, r.alts["Ok"][0], [sref])
            return runner, None, inputs

        def post(ex, o, v):
            if o.value is None:
                return [("the for expression is built", z3.BoolVal(False))]
            iters = [e[1] for e in o.st.log if e[0] == "iter"]
            single = [v["kind%d" % k] == AST["IterationContextSingle"] for k in range(2)]
            dom = lambda k, j: z3.If(single[k], z3.IntVal(100 * (k + 1) + j), z3.IntVal(1 + j))
            want = [(dom(0, a), dom(1, b)) for a in range(2) for b in range(2)]
            props = [("the body is evaluated once per pair", z3.BoolVal(len(iters) == 4))]
            if len(iters) == 4 and all(0 in s and 1 in s for s in iters):
                props.append(("pairs come with the FIRST written variable slowest, whatever the kinds of the two domains",
                              z3.And([z3.And(s[0] == a, s[1] == b) for s, (a, b) in zip(iters, want)])))
            else:
                props.append(("every evaluation binds both variables", z3.BoolVal(False)))
            return props

        def desc(m, v):
            name = {AST["IterationContextSingle"]: "list", AST["IterationContextRange"]: "range"}
            return {"first": name[model_value(m, v["kind0"])], "second": name[model_value(m, v["kind1"])]}

        def replay(i, rb):
            d = {"list": "[%d, %d]", "range": "1..2"}
            d0 = d[i["first"]] % (100, 101) if i["first"] == "list" else "1..2"
            d1 = d[i["second"]] % (200, 201) if i["second"] == "list" else "1..2"
            expr = "for x in %s, y in %s return [x, y]" % (d0, d1)
            vals = lambda t, base: [base, base + 1] if t == "list" else [1, 2]
            want = "[" + ", ".join("[%d, %d]" % (a, b) for a in vals(i["first"], 100) for b in vals(i["second"], 200)) + "]"
            got = _native_value(rb, expr)
            return got.replace(" ", "") != want.replace(" ", ""), "%s -> %s, specified %s" % (expr, got, want)
        jobs.append(lambda c: decide(c, crate, "ops/for_order", setup, post, replay, rb, models=MODELS, unwind=60, describe=desc, min_paths=4, max_cex=4,
                                     known_predicates=KNOWN_PRED))
    if select is None or 'for_order_job' in select:
        for_order_job()

    # ------------------------------------------------------------------------------------------------------------------ context literal
    def context_literal_job():
        CE = U.idx("ContextEntry")

        def setup(ex, st):
            sref, ctxs = scope_value(ex, st, 1)
            n = ex.fresh_int(st, "usize", "n_entries", constrain=False)
            ex.assume(st, z3.And(n.e >= 0, n.e <= 3))
            values = [En("Value", z3.IntVal(NUM), {"Number": (Opaque("FeelNumber", z3.IntVal(700 + k)),)}) for k in range(3)]
            inputs = dict(n_entries=n.e, _sref=sref, _ctxs=ctxs, _values=values)

            def entry_eval(k):
                def cb(ex, st, argv):
                    sc = ex.read(st, sref.cell, sref.projs)
                    vec = sc.fields[0]
                    depth = ex.concrete(vec.len)
                    under = depth is not None and depth >= 1 and vec.items[0] is ctxs[0]
                    top = vec.items[depth - 1].fields[0] if depth else None
                    ents = None
                    if top is not None and ex.concrete(top.len) is not None:
                        ents = [(ex.concrete(e.fields[0].e), e.fields[1]) for e in top.items[:ex.concrete(top.len)]]
                    st.log.append(("entry", k, depth, under, ents))
                    yield st, En("Value", z3.IntVal(CE), {"ContextEntry": (Opaque("Name", z3.IntVal(30 + k)), Ref(ex.new_cell(st, values[k], "box")))})
                return Ref(ex.new_cell(st, FnV("@model", (cb,)), "box"))
            # the builder itself is executed on a list of n entry nodes (build_evaluator = the entry oracles), then the closure it returns
            from mir.models import call_fn_value
            nodes = [Opaque("AstExpr", ("entry", k)) for k in range(3)]
            evals = [entry_eval(k) for k in range(3)]

            def m_build_evaluator(ex, st, callee, args, dest_ty):
                node = deref(ex, st, args[0])
                if not (isinstance(node, Opaque) and node.sort == "AstExpr"):
                    raise MirUnsupported("build_evaluator on %r" % (node,))
                yield st, En("Result", z3.IntVal(0), {"Ok": (evals[node.e[1]],)})

            def runner(ex, st):
                ex.models.insert(0, (re.compile(r"^build_evaluator$"), m_build_evaluator))
                for o in ex.run("build_context", [Ref(ex.new_cell(st, VecV(n.e, nodes, "AstNode"), "lhs"))], st):
                    if o.kind != "return":
                        yield o
                        continue
                    if ex.concrete(o.value.disc) != 0:
                        yield Outcome("return", o.st, value=None)
                        continue
                    yield from call_fn_value(ex, o.st, o.value.alts["Ok"][0], [sref])
            return runner, None, inputs

        def post(ex, o, v):
            from checks.C13 import scope_unchanged
            r = o.value
            if r is None:
                return [("the context literal is built", z3.BoolVal(False))]
            evs = [e for e in o.st.log if e[0] == "entry"]
            props = [("the caller's scope is restored", scope_unchanged(ex, o.st, v["_sref"], v["_ctxs"])),
                     ("every entry expression is evaluated once, in order", z3.And(v["n_entries"] == len(evs), z3.BoolVal([e[1] for e in evs] == list(range(len(evs))))))]
            sees = all(e[2] == 2 and e[3] and e[4] is not None and [(a, b) for a, b in e[4]] == [(30 + j, v["_values"][j]) for j in range(e[1])]
                       and all(x[1] is v["_values"][j] for j, x in enumerate(e[4])) for e in evs)
            props.append(("while entry k is evaluated the scope is the caller's scope plus ONE context holding exactly the entries before k", z3.BoolVal(bool(sees))))
            okr = isinstance(r, En) and ex.concrete(r.disc) == CTX
            if okr:
                mp = r.alts["Context"][0].fields[0]
                m = ex.concrete(mp.len)
                okr = m == len(evs) and all(ex.concrete(mp.items[j].fields[0].e) == 30 + j and mp.items[j].fields[1] is v["_values"][j] for j in range(m))
            props.append(("the result is the context of all entries with their values", z3.BoolVal(bool(okr))))
            props.append(("reach:one_entry", z3.BoolVal(len(evs) == 1)))
            props.append(("reach:three_entries", z3.BoolVal(len(evs) == 3)))
            return props

        def replay(i, rb):
            n = i["n_entries"]
            body = ", ".join("k%d: %s" % (k, "1" if k == 0 else "k%d + 1" % (k - 1)) for k in range(n))
            # nested one level so that a leak into the enclosing context shows: the outer entry `k0` must stay 100
            expr = "{k0: 100, inner: {%s}, after: k0}" % body
            want = "{after: 100, inner: {%s}, k0: 100}" % ", ".join("k%d: %d" % (k, k + 1) for k in range(n))
            got = _native_value(rb, expr)
            return got.replace(" ", "") != want.replace(" ", ""), "%s -> %s, specified %s" % (expr, got[:120], want)
        jobs.append(lambda c: decide(c, crate, "ops/context_literal", setup, post, replay, rb, models=MODELS, unwind=24, max_cex=3,
                                     describe=lambda m, v: {"n_entries": model_value(m, v["n_entries"])}, need_reach=["reach:one_entry", "reach:three_entries"],
                                     known_predicates=KNOWN_PRED))
    if select is None or "context_literal_job" in select:
        context_literal_job()

    # ------------------------------------------------------------------------------------------------------------------ user-defined function, positional call
    def function_positional_job():
        def setup(ex, st):
            sref, ctxs = scope_value(ex, st, 1)
            na = ex.fresh_int(st, "usize", "n_arguments", constrain=False)
            npar = ex.fresh_int(st, "usize", "n_parameters", constrain=False)
            ex.assume(st, z3.And(na.e >= 0, na.e <= 3, npar.e >= 0, npar.e <= 3))
            args = [En("Value", z3.IntVal(NUM), {"Number": (Opaque("FeelNumber", z3.IntVal(500 + k)),)}) for k in range(3)]
            params = [Adt("tuple", None, (Opaque("Name", z3.IntVal(20 + k)), Opaque("FeelType", ("param", k)))) for k in range(3)]
            body_result = U.fresh(ex, st, 0, "body", kinds=["Number", "Null", "Boolean"])
            inputs = dict(n_arguments=na.e, n_parameters=npar.e, _sref=sref, _ctxs=ctxs, _body=body_result)

            def m_coerced(ex, st, callee, a, dest_ty):
                ty, v = deref(ex, st, a[0]), deref(ex, st, a[1])
                res = En("Value", z3.IntVal(U.idx("Irrelevant")), {"Irrelevant": ()})
                st.log.append(("coerced", ty.e if isinstance(ty, Opaque) else None, v, res))
                yield st, res

            def m_body(ex, st, callee, a, dest_ty):
                sc = ex.read(st, sref.cell, sref.projs)
                vec = sc.fields[0]
                n = ex.concrete(vec.len)
                under = n == 2 and vec.items[0] is ctxs[0]
                top = vec.items[n - 1].fields[0] if n else None
                ents = [(ex.concrete(e.fields[0].e), e.fields[1]) for e in top.items[:ex.concrete(top.len)]] if top is not None else None
                st.log.append(("body", under, ents))
                yield st, body_result
            models = [(re.compile(r"^(dmntk_feel::)?FeelType::coerced$"), m_coerced), (re.compile(r"^(dmntk_feel::)?FunctionBody::evaluate$"), m_body)]

            def runner(ex, st):
                for m in reversed(models):
                    ex.models.insert(0, m)
                yield from ex.run("eval_function_positional", [sref, Ref(ex.new_cell(st, VecV(na.e, args, "Value"), "args")),
                                                               Ref(ex.new_cell(st, VecV(npar.e, params, "param"), "params")),
                                                               Ref(ex.new_cell(st, Opaque("FunctionBody"), "body")), Opaque("FeelType", ("result", 0))], st)
            return runner, None, inputs

        def post(ex, o, v):
            r = o.value
            na, npar = v["n_arguments"], v["n_parameters"]
            bodies = [e for e in o.st.log if e[0] == "body"]
            co = [e for e in o.st.log if e[0] == "coerced"]
            from checks.C13 import scope_unchanged
            props = [("the caller's scope is restored", scope_unchanged(ex, o.st, v["_sref"], v["_ctxs"])),
                     ("fewer arguments than parameters: null, the body is not evaluated", z3.Implies(na < npar, z3.And(r.disc == NULL, z3.BoolVal(not bodies))))]
            if bodies:
                _, under, ents = bodies[0]
                m = ex.solver.model() if ex.check() == z3.sat else None
                k = m.eval(npar, model_completion=True).as_long() if m is not None else -1
                par_co = [c for c in co if isinstance(c[1], tuple) and c[1][0] == "param"]
                res_co = [c for c in co if isinstance(c[1], tuple) and c[1][0] == "result"]
                okb = under and ents is not None and len(ents) == k and len(par_co) == k and \
                    all(ents[j][0] == 20 + j and ents[j][1] is par_co[j][3] and par_co[j][1] == ("param", j) and
                        isinstance(par_co[j][2], En) and ex.concrete(par_co[j][2].alts["Number"][0].e) == 500 + j for j in range(k))
                props.append(("the body runs on top of the caller's scope with every parameter bound to its own argument, coerced to the parameter's own type",
                              z3.And(npar == k, z3.BoolVal(bool(okb)))))
                props.append(("the result is the body's value coerced to the declared result type",
                              z3.BoolVal(len(bodies) == 1 and len(res_co) == 1 and res_co[0][2] is v["_body"] and r is res_co[0][3])))
                props.append(("reach:two_parameters", z3.BoolVal(k >= 2)))
            props.append(("reach:too_few", na < npar))
            return props

        def desc(m, v):
            return {"n_arguments": model_value(m, v["n_arguments"]), "n_parameters": model_value(m, v["n_parameters"])}

        def replay(i, rb, label=""):
            na, npar = i["n_arguments"], i["n_parameters"]
            ps = ["p%d" % k for k in range(npar)]
            expr = "(function(%s) [%s])(%s)" % (", ".join(ps), ", ".join(ps), ", ".join(str(500 + k) for k in range(na)))
            if "scope is restored" in label:
                _, out, _ = replay_call(rb, ["scope_after", "{outer: 10, p0: 5}", expr])
                return not out.startswith("SAME"), "scope before / after %s: %s" % (expr, out[:160])
            got = _native_value(rb, expr)
            want = "null" if na < npar else "[" + ", ".join(str(500 + k) for k in range(npar)) + "]"
            norm = lambda x: re.sub(r"null\([^)]*\)", "null", x).replace(" ", "")
            return got.startswith("PANIC") or norm(got) != norm(want), "%s -> %s, specified %s" % (expr, got[:100], want)
        replay.wants_label = True
        jobs.append(lambda c: decide(c, crate, "ops/function_positional", setup, post, replay, rb, models=MODELS, unwind=24, describe=desc, max_cex=4,
                                     need_reach=["reach:two_parameters", "reach:too_few"], known_predicates=KNOWN_PRED))
    if select is None or 'function_positional_job' in select:
        function_positional_job()

    # ------------------------------------------------------------------------------------------------------------------ user-defined function, named call
    def function_named_job():
        NP = U.idx("NamedParameters")

        def setup(ex, st):
            sref, ctxs = scope_value(ex, st, 1)
            npar = ex.fresh_int(st, "usize", "n_parameters", constrain=False)
            ex.assume(st, z3.And(npar.e >= 0, npar.e <= 2))
            # named arguments for the names 20, 21 and one extra name 25; which of them are present and the order they were written in are symbolic
            present = [z3.Bool(ex.fresh_name("arg%d_present" % k)) for k in range(3)]
            pos = [ex.fresh_int(st, "usize", "arg%d_written_at" % k, constrain=False) for k in range(3)]
            ex.assume(st, z3.And([z3.And(p.e >= 1, p.e <= 3) for p in pos] + [z3.Distinct(*[p.e for p in pos])]))
            keys = [20, 21, 25]
            args = [En("Value", z3.IntVal(NUM), {"Number": (Opaque("FeelNumber", z3.IntVal(500 + k)),)}) for k in range(3)]
            params = [Adt("tuple", None, (Opaque("Name", z3.IntVal(20 + k)), Opaque("FeelType", ("param", k)))) for k in range(2)]
            body_result = U.fresh(ex, st, 0, "body", kinds=["Number", "Null"])
            inputs = dict(n_parameters=npar.e, _sref=sref, _ctxs=ctxs, _body=body_result, _present=present)
            for k in range(3):
                inputs["arg%d_present" % k] = present[k]
                inputs["arg%d_written_at" % k] = pos[k].e

            def m_coerced(ex, st, callee, a, dest_ty):
                ty, v = deref(ex, st, a[0]), deref(ex, st, a[1])
                res = En("Value", z3.IntVal(U.idx("Irrelevant")), {"Irrelevant": ()})
                st.log.append(("coerced", ty.e if isinstance(ty, Opaque) else None, v, res))
                yield st, res

            def m_body(ex, st, callee, a, dest_ty):
                sc = ex.read(st, sref.cell, sref.projs)
                vec = sc.fields[0]
                n = ex.concrete(vec.len)
                top = vec.items[n - 1].fields[0] if n else None
                ents = [(ex.concrete(e.fields[0].e), e.fields[1]) for e in top.items[:ex.concrete(top.len)]] if top is not None else None
                st.log.append(("body", n == 2 and vec.items[0] is ctxs[0], ents))
                yield st, body_result
            models = [(re.compile(r"^(dmntk_feel::)?FeelType::coerced$"), m_coerced), (re.compile(r"^(dmntk_feel::)?FunctionBody::evaluate$"), m_body)]

            def runner(ex, st):
                for m in reversed(models):
                    ex.models.insert(0, m)

                def rec(st, k, ents):
                    if k == 3:
                        mp = fv.MapV(z3.IntVal(len(ents)), ents, "kv")
                        argv = En("Value", z3.IntVal(NP), {"NamedParameters": (mp,)})
                        yield from ex.run("eval_function_named", [sref, Ref(ex.new_cell(st, argv, "args")), Ref(ex.new_cell(st, VecV(npar.e, params, "param"), "params")),
                                                                  Ref(ex.new_cell(st, Opaque("FunctionBody"), "body")), Opaque("FeelType", ("result", 0))], st)
                        return
                    for st2 in ex.branch(st, present[k]):
                        yield from rec(st2, k + 1, ents + [Adt("tuple", None, (Opaque("Name", z3.IntVal(keys[k])), Adt("tuple", None, (args[k], pos[k]))))])
                    for st2 in ex.branch(st, z3.Not(present[k])):
                        yield from rec(st2, k + 1, ents)
                yield from rec(st, 0, [])
            return runner, None, inputs

        def post(ex, o, v):
            r = o.value
            bodies = [e for e in o.st.log if e[0] == "body"]
            co = [e for e in o.st.log if e[0] == "coerced"]
            from checks.C13 import scope_unchanged
            npar = v["n_parameters"]
            props = [("the caller's scope is restored", scope_unchanged(ex, o.st, v["_sref"], v["_ctxs"]))]
            missing = z3.Or(z3.And(npar >= 1, z3.Not(v["_present"][0])), z3.And(npar >= 2, z3.Not(v["_present"][1])))
            props.append(("a parameter without a named argument: null, the body is not evaluated", z3.Implies(missing, z3.And(r.disc == NULL, z3.BoolVal(not bodies)))))
            if bodies:
                _, under, ents = bodies[0]
                m = ex.solver.model() if ex.check() == z3.sat else None
                k = m.eval(npar, model_completion=True).as_long() if m is not None else -1
                par_co = [c for c in co if isinstance(c[1], tuple) and c[1][0] == "param"]
                okb = under and ents is not None and len(ents) == k and len(par_co) == k and \
                    all(ents[j][0] == 20 + j and ents[j][1] is par_co[j][3] and par_co[j][1] == ("param", j) and
                        isinstance(par_co[j][2], En) and ex.concrete(par_co[j][2].alts["Number"][0].e) == 500 + j for j in range(k))
                props.append(("every parameter is bound to the argument carrying ITS NAME (whatever the order the arguments were written in), coerced to its own type",
                              z3.And(npar == k, z3.BoolVal(bool(okb)))))
                props.append(("reach:two_parameters", z3.BoolVal(k == 2)))
            props.append(("reach:missing", missing))
            return props

        def desc(m, v):
            d = {"n_parameters": model_value(m, v["n_parameters"])}
            for k in range(3):
                d["arg%d_present" % k] = bool(model_value(m, v["arg%d_present" % k]))
                d["arg%d_written_at" % k] = model_value(m, v["arg%d_written_at" % k])
            return d

        def replay(i, rb, label=""):
            npar = i["n_parameters"]
            names = ["p0", "p1", "extra"]
            ps = names[:npar]
            given = sorted([(i["arg%d_written_at" % k], names[k], 500 + k) for k in range(3) if i["arg%d_present" % k]])
            expr = "(function(%s) [%s])(%s)" % (", ".join(ps), ", ".join(ps), ", ".join("%s: %d" % (n, v) for _, n, v in given))
            if "scope is restored" in label:
                _, out, _ = replay_call(rb, ["scope_after", "{outer: 10, p0: 5}", expr])
                return not out.startswith("SAME"), "scope before / after %s: %s" % (expr, out[:160])
            got = _native_value(rb, expr)
            have = {n: v for _, n, v in given}
            want = "null" if any(p not in have for p in ps) else "[" + ", ".join(str(have[p]) for p in ps) + "]"
            norm = lambda x: re.sub(r"null\([^)]*\)", "null", x).replace(" ", "")
            return got.startswith("PANIC") or norm(got) != norm(want), "%s -> %s, specified %s" % (expr, got[:100], want)
        replay.wants_label = True
        jobs.append(lambda c: decide(c, crate, "ops/function_named", setup, post, replay, rb, models=MODELS, unwind=24, describe=desc, max_cex=4,
                                     need_reach=["reach:two_parameters", "reach:missing"], known_predicates=KNOWN_PRED))
    if select is None or "function_named_job" in select:
        function_named_job()

    # ------------------------------------------------------------------------------------------------------------------ arithmetic dispatch
    def arith_jobs():
        DU = U.dec
        vm = [(p, f) for (p, f) in fv.VALUE_MODELS if "FeelNumber" not in p.pattern or "FeelDaysAndTimeDuration" in p.pattern]
        vm = [(re.compile(p.pattern.replace("FeelNumber|", "")), f) for (p, f) in vm]
        AM = FMT + dv.DEC_MODELS + cs.STR_MODELS + STRCAT_MODELS + vm
        for builder, sym in (("build_add", "+"), ("build_sub", "-"), ("build_mul", "*"), ("build_div", "/")):
            def setup(ex, st, builder=builder):
                dv.assume_axioms(ex, st)
                kinds = ["Number", "Null", "Boolean"] + (["String"] if builder == "build_add" else [])
                vals = {}
                for n in ("a", "b"):
                    v = DU.fresh(ex, st, 0, n, kinds=kinds)
                    if "String" in v.alts:
                        v.alts["String"] = (cs.fresh_string(ex, st, n + "_s", 2)[0],)
                    vals[n] = v
                return n_runs([(builder, [vals["a"], vals["b"]])]), None, vals

            def post(ex, o, v, builder=builder, sym=sym):
                r = o.value[0]
                a, b = v["a"], v["b"]
                both = z3.And(a.disc == NUM, b.disc == NUM)
                props = []
                if "Number" in r.alts:
                    x, y, z = dv.num_of(a.alts["Number"][0]).e, dv.num_of(b.alts["Number"][0]).e, dv.num_of(r.alts["Number"][0]).e
                    defs = z3.And(dv.decdefs(o.st) + [z3.BoolVal(True)])
                    want = {"build_add": z == x + y, "build_sub": z == x - y, "build_mul": z == x * y, "build_div": z3.Implies(y != 0, z * y == x)}[builder]
                    props.append(("number %s number is the library's result for these operands in this order" % sym,
                                  z3.Implies(z3.And(both, r.disc == NUM, defs), want)))
                    props.append(("reach:number", z3.And(both, r.disc == NUM)))
                mixed = z3.Or(a.disc == NULL, b.disc == NULL, a.disc == BOOL, b.disc == BOOL, a.disc != b.disc)
                props.append(("null or a value of another kind on either side gives null", z3.Implies(mixed, r.disc == NULL)))
                props.append(("reach:null", mixed))
                if builder == "build_add":
                    cat = z3.BoolVal(False)
                    if "String" in r.alts and isinstance(r.alts["String"][0], StrV) and ex.concrete(r.disc) == STR and ex.check() == z3.sat:
                        m = ex.solver.model()
                        try:
                            qa, qb, qr = cs.seq_of(a.alts["String"][0]), cs.seq_of(b.alts["String"][0]), cs.seq_of(r.alts["String"][0])
                            la, lb = m.eval(qa.len, model_completion=True).as_long(), m.eval(qb.len, model_completion=True).as_long()
                            exp = list(qa.items[:la]) + list(qb.items[:lb])
                            cat = z3.And([qa.len == la, qb.len == lb, qr.len == len(exp)] + [p.e == q.e for p, q in zip(exp, qr.items[:len(exp)])])
                            if len(qr.items) < len(exp):
                                cat = z3.BoolVal(False)
                        except MirUnsupported:
                            pass
                    props.append(("string + string is the concatenation in order", z3.Implies(z3.And(a.disc == STR, b.disc == STR), z3.And(r.disc == STR, cat))))
                    props.append(("reach:string", z3.And(a.disc == STR, b.disc == STR, r.disc == STR)))
                return props
            def desc(m, v):
                return {k: DU.describe(m, v[k], model_value) for k in ("a", "b")}

            def prefer(v):
                c = [dv.REAL_LIMITS]
                for k in ("a", "b"):
                    x = dv.num_of(v[k].alts["Number"][0])
                    c.append(z3.Implies(v[k].disc == NUM, z3.And(x.e == z3.ToReal(dv.FL(x)), dv.FL(x) >= -20, dv.FL(x) <= 20, x.info["q"] == 0)))
                    if "String" in v[k].alts:
                        c.append(z3.And([z3.And(ch.e >= 0x61, ch.e <= 0x7a) for ch in cs.seq_of(v[k].alts["String"][0]).items]))
                return z3.And(c)

            def replay(i, rb, sym=sym):
                from fractions import Fraction
                def text(d):
                    if d["kind"] == "Number":
                        fr = dv.frac_of(d)
                        return str(fr.numerator) if fr.denominator == 1 and fr >= 0 else "(%s)" % (fr.numerator if fr.denominator == 1 else "%d/%d" % (fr.numerator, fr.denominator))
                    if d["kind"] == "String":
                        return '"%s"' % "".join(chr(c) for c in d.get("chars", []))
                    return fv.feel_text(d)
                expr = "%s %s %s" % (text(i["a"]), sym, text(i["b"]))
                _, out, _ = replay_call(rb, ["feel", expr])
                a, b = i["a"], i["b"]
                if a["kind"] == "Number" and b["kind"] == "Number":
                    x, y = dv.frac_of(a), dv.frac_of(b)
                    if sym == "/" and y == 0:
                        return not out.startswith("VALUE null"), "%s -> %s" % (expr, out)
                    want = {"+": lambda: x + y, "-": lambda: x - y, "*": lambda: x * y, "/": lambda: x / y}[sym]()
                    try:
                        got = Fraction(out[6:].strip())
                    except Exception:
                        return True, "%s -> %s, specified %s" % (expr, out[:80], want)
                    return abs(got - want) > abs(want) / 10 ** 30, "%s -> %s, specified %s" % (expr, out[:80], want)
                if a["kind"] == "String" and b["kind"] == "String" and sym == "+":
                    want = 'VALUE "%s"' % ("".join(chr(c) for c in a.get("chars", [])) + "".join(chr(c) for c in b.get("chars", [])))
                    return out.strip() != want, "%s -> %s, specified %s" % (expr, out[:80], want)
                return not out.startswith("VALUE null"), "%s -> %s, specified null" % (expr, out[:80])
            need = ["reach:number", "reach:null"] + (["reach:string"] if builder == "build_add" else [])
            jobs.append(lambda c, builder=builder, setup=setup, post=post, need=need, desc=desc, prefer=prefer, replay=replay:
                        decide(c, crate_num, "ops/arith_%s" % builder[6:], setup, post, replay, rb, models=AM, need_reach=need, describe=desc, prefer=prefer,
                               known_predicates=KNOWN_PRED, max_cex=3))
    if select is None or 'arith_jobs' in select:
        arith_jobs()


def _native_value(rb, text):
    _, out, _ = replay_call(rb, ["feel", text])
    return out[6:].strip() if out.startswith("VALUE ") else out.strip()


def replay_sequence(rb, expr, item_texts, unwrap=False):
    """the expression must evaluate to the list of the given item expressions' own values, in order"""
    got = _native_value(rb, expr)
    want = "[" + ", ".join(_native_value(rb, t) for t in item_texts) + "]"
    norm = lambda t: re.sub(r"null\([^)]*\)", "null", t).replace(" ", "")
    return norm(got) != norm(want), "%s -> %s, specified %s" % (expr[:160], got[:120], want[:120])


def m_push_str(ex, st, callee, args, dest_ty):
    """String::push_str on character-sequence strings of concrete lengths: the sequence followed by the other one"""
    r = args[0]
    base = r
    while isinstance(ex.read(st, base.cell, base.projs), Ref):
        base = ex.read(st, base.cell, base.projs)
    s = ex.read(st, base.cell, base.projs)
    t = deref(ex, st, args[1])
    qs, qt = cs.seq_of(s), cs.seq_of(t)
    for st2, ls in ex.enum_values(st, qs.len, limit=len(qs.items) + 2):
        for st3, lt in ex.enum_values(st2, qt.len, limit=len(qt.items) + 2):
            items = tuple(qs.items[:ls]) + tuple(qt.items[:lt])
            ex.write(st3, base.cell, base.projs, StrV(None, seq=VecV(z3.IntVal(len(items)), items, "char")))
            yield st3, UNIT


def m_string_deref(ex, st, callee, args, dest_ty):
    yield st, args[0]


STRCAT_MODELS = [
    (R(r"^(std::string::)?String::push_str$"), m_push_str),
    (R(r"^<(std::string::)?String as Deref>::deref$"), m_string_deref),
]
