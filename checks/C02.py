"""C02 — decimal arithmetic, decided fragment: what the RUST side adds to the decimal library (DESIGN §4 C02).

The C library (decNumber) is out of reach of every engine here, so nothing about digits or rounding is decided.  What IS decided,
by engine M over the MIR of feel-evaluator + feel-number with each `dec_*` FFI wrapper replaced by its contract from the General
Decimal Arithmetic specification (lib/decvals.py: special values, overflow, sign/zero, integral values, exponent of the
representation):

  finite/<op>        the arithmetic operator closures (+ - * / ** unary -) and the numeric built-ins (abs, ceiling, floor, decimal,
                     modulo, sqrt, exp, log, sum, mean, median, min, max, stddev) never deliver an Infinity or a NaN as a FEEL
                     number: for all finite operands the result is a finite number or null; division / modulo by zero, the square
                     root of a negative number and the logarithm of a non-positive number are null;
  parity/<fn>        even / odd of an integral value are its parity, whatever its magnitude and representation;
  repr/is_integer    FeelNumber::is_integer (the test behind list indexes, date components, ...) is true exactly for integral
                     values, whatever the exponent of the representation (10 stored as 1E+1, 2 stored as 2.0);
  repr/compare       ==, <, <=, >, >= on numbers depend on the values only (trailing zeros / exponents do not matter).
"""
import re
from fractions import Fraction

import z3

from vcommon import *  # noqa
from mcheck import MirCrate, decide, run_parallel, model_value
from mir.sym import Adt, En, FnV, Opaque, Outcome, Ref, Sc, StrV, VecV, UNIT, mk_bool
from mir.models import deref, m_format_stub, R
from mir.parser import MirUnsupported
import feelvals as fv
import decvals as dv
from checks.C09 import run_op, n_runs

ENGINE = "M (MIR -> SMT, z3): feel-evaluator + feel-number over the decimal library's contract"

OPS = {"build_add": "{a} + {b}", "build_sub": "{a} - {b}", "build_mul": "{a} * {b}", "build_div": "{a} / {b}", "build_exp": "{a} ** {b}",
       "build_neg": "-{a}"}
BIF1 = ["abs", "ceiling", "floor", "exp", "log", "sqrt", "odd", "even"]
BIF2 = ["decimal", "modulo"]
BIFL = ["sum", "mean", "median", "min", "max", "stddev"]


class DecUniverse(fv.Universe):
    """symbolic Values whose numbers are real FeelNumber(DecQuad) structs over the contract model"""

    def payload_value(self, ex, st, variant, depth, hint, list_len, ctx_len):
        if variant == "Number":
            return (dv.fresh_number(ex, st, hint),)
        return super().payload_value(ex, st, variant, depth, hint, list_len, ctx_len)

    def describe(self, model, v, mv):
        d = mv(model, v.disc)
        if "Number" in v.alts and d == self.idx("Number"):
            out = {"kind": "Number"}
            out.update(dv.describe_num(model, dv.num_of(v.alts["Number"][0]), mv))
            return out
        if "String" in v.alts and d == self.idx("String") and "seq" in v.alts["String"][0].attrs:
            q = v.alts["String"][0].attrs["seq"]
            n = mv(model, q.len)
            return {"kind": "String", "chars": [mv(model, c.e) for c in q.items[:n]]}
        return super().describe(model, v, mv)


# candidate witnesses: (value, exponent of the representation, FEEL text that evaluates to exactly that representation)
CANDS = [(Fraction(0), 0, "0"), (Fraction(1), 0, "1"), (Fraction(-1), 0, "(-1)"), (Fraction(2), 0, "2"), (Fraction(3), 0, "3"),
         (Fraction(10), 1, "(5+5)"), (Fraction(2), -1, "2.0"), (Fraction(999), -1, "999.0"), (Fraction(1, 2), -1, "0.5"),
         (Fraction(5), 0, "5"), (Fraction(14150), 0, "14150"), (Fraction(-5), 0, "(-5)"),
         (Fraction(10 ** 34), 34, "10**34"), (Fraction(10 ** 35), 35, "10**35"), (Fraction(10 ** 40), 40, "10**40"),
         (Fraction(9 * 10 ** 6144), 6111, "(10**6144*9)"), (Fraction(-9 * 10 ** 6144), 6111, "(10**6144*-9)"),
         (Fraction(8 * 10 ** 6144), 6111, "(10**6144*8)"),
         (Fraction(1, 10 ** 6000), -6000, "10**-6000"), (Fraction(10 ** 34 - 1), 0, "(10**34-1)")]
CANDS_SMALL = [CANDS[0], CANDS[1], CANDS[15], CANDS[16], CANDS[17], CANDS[18], CANDS[8]]


def rat(fr):
    return z3.RealVal(fr.numerator) / z3.RealVal(fr.denominator) if fr.denominator != 1 else z3.RealVal(fr.numerator)


def cand_text(d):
    fr = dv.frac_of(d)
    for v, q, t in CANDS:
        if v == fr and q == d.get("exp"):
            return t
    return None


def text_of(d):
    if d["kind"] == "Number":
        return cand_text(d) or dv.feel_number_text(d)
    return fv.feel_text(d)


def numv(v):
    """(is-number condition, DecQuad) of a symbolic Value with a Number alternative"""
    return dv.num_of(v.alts["Number"][0])


def run(check, mirror, tier):
    rb = replay_build(mirror)
    crate = MirCrate(mirror, ["feel-evaluator", "feel-number", "feel"], overflow_checks=True)
    U = DecUniverse(mirror)
    NUM, NULL, BOOL = U.idx("Number"), U.idx("Null"), U.idx("Boolean")
    LN = 3 if tier == "quick" else 4
    check.bounds += ["operands: any finite decimal128 value in any representation (value a real number with |v| <= 9.99..9E+6144, exponent -6176..6111), "
                     "or null / a Boolean (the non-number paths of the operators)",
                     "aggregates (sum, mean, median, min, max, stddev): lists of 0..%d such numbers" % LN]
    check.assumptions += ["decimal library = its contract (lib/decvals.py, General Decimal Arithmetic specification): special values, overflow to Infinity at "
                          "|exact result| >= 10^6145, none at <= 9.99..9E+6144, exact real arithmetic for finite results (ROUNDING NOT MODELLED), decQuadIsInteger = "
                          "finite with exponent 0, decNumberReduce strips trailing zeros, remainder = NaN when the integer quotient needs more than 34 digits, "
                          "rescale = NaN when the coefficient would need more than 34 digits, exp overflows between 14149 and 14150",
                          "signed zeros are not distinguished; FeelNumber::from(integer) is exact with exponent 0"]
    vm = [(p, f) for (p, f) in fv.VALUE_MODELS if "FeelNumber" not in p.pattern or "FeelDaysAndTimeDuration" in p.pattern]
    # the duration / string order contracts of VALUE_MODELS stay; everything about FeelNumber comes from its own MIR over DEC_MODELS
    vm = [(re.compile(p.pattern.replace("FeelNumber|", "")), f) for (p, f) in vm]
    MODELS = [(re.compile(r"^format$|^std::fmt::format$|^alloc::fmt::format$"), m_format_stub)] + EXTRA_MODELS + dv.DEC_MODELS + vm
    jobs = []

    def describe(names):
        def d(m, inputs):
            out = {}
            for k in names:
                v = inputs[k]
                if isinstance(v, list):
                    n = model_value(m, inputs[k + "_len"])
                    out[k] = [U.describe(m, x, model_value) for x in v[:n]]
                else:
                    out[k] = U.describe(m, v, model_value)
            return out
        return d

    def cand_constraints(nums, st=None):
        """candidate witnesses (value, exponent) with a known FEEL text, tried in order on a violating path (REAL overflow threshold)"""
        import itertools
        pool = CANDS if len(nums) <= 2 else CANDS_SMALL
        def one(v, c):
            x = numv(v)
            return z3.Implies(is_num(v), z3.And(x.e == rat(c[0]), x.info["q"] == c[1]))
        if len(nums) <= 2:
            combos = itertools.product(pool, repeat=len(nums))
        else:   # lists: the first item free, the others alike
            combos = ((c1,) + (c2,) * (len(nums) - 1) for c1 in pool for c2 in pool)
        for combo in combos:
            yield z3.And([dv.REAL_LIMITS] + (dv.decdefs(st) if st is not None else []) + [one(v, c) for v, c in zip(nums, combo)])

    def finite_post(res):
        if not (isinstance(res, En) and res.ty == "Value"):
            return [("the result is a value", z3.BoolVal(False))]
        props = []
        if "Number" in res.alts:
            n = dv.num_of(res.alts["Number"][0])
            props.append(("a numeric result is a finite number (never Infinity / NaN)", z3.Implies(res.disc == NUM, dv.fin(n))))
            props.append(("reach:number", res.disc == NUM))
        props.append(("reach:null", res.disc == NULL))
        return props

    def is_null(res):
        return res.disc == NULL

    def is_num(v):
        return v.disc == NUM

    # ---------------------------------------------------------------------------------------------------------------- operators
    def op_job(builder):
        names = ["a", "b"] if builder != "build_neg" else ["a"]

        def setup(ex, st):
            dv.assume_axioms(ex, st)
            vals = {n: U.fresh(ex, st, 0, n, kinds=["Number", "Null", "Boolean"]) for n in names}
            return n_runs([(builder, [vals[n] for n in names])]), None, vals

        def post(ex, o, v):
            v["_st"] = o.st
            res = o.value[0]
            props = finite_post(res)
            if builder == "build_div":
                props.append(("division by zero is null", z3.Implies(z3.And(is_num(v["a"]), is_num(v["b"]), numv(v["b"]).e == 0), is_null(res))))
            if builder == "build_neg" and "Number" in res.alts:
                props.append(("-a is the negated value", z3.Implies(is_num(v["a"]), z3.And(res.disc == NUM, dv.num_of(res.alts["Number"][0]).e == -numv(v["a"]).e))))
            return props

        def prefer(v):
            return cand_constraints([v[n] for n in names], v.get("_st"))

        def replay(i, rb):
            expr = OPS[builder].format(**{k: text_of(d) for k, d in i.items()})
            return replay_expr(rb, expr, i, builder)
        jobs.append(lambda c: decide(c, crate, "finite/op_%s" % builder[6:], setup, post, replay, rb, models=MODELS, describe=describe(names), prefer=prefer,
                                     budget_s=600, timeout_ms=30000, need_reach=["reach:number", "reach:null"], known_predicates=KNOWN_PRED, max_cex=6))

    for b in OPS:
        op_job(b)

    # ---------------------------------------------------------------------------------------------------------------- built-ins
    def bif_job(fn, nargs):
        names = ["a", "b"][:nargs]

        def setup(ex, st):
            dv.assume_axioms(ex, st)
            vals = {n: U.fresh(ex, st, 0, n, kinds=["Number", "Null", "Boolean"]) for n in names}
            # integrality / parity questions: a quotient of 34 integer digits is admitted in its rounded (integral) form too
            ex.dec_round_quotient = fn in ("even", "odd", "floor", "ceiling", "abs")
            return core_name(crate, fn), [Ref(ex.new_cell(st, vals[n])) for n in names], vals

        def post(ex, o, v):
            v["_st"] = o.st
            res = o.value
            props = finite_post(res)
            a = numv(v["a"])
            isn = is_num(v["a"])
            if fn == "modulo":
                props.append(("modulo by zero is null", z3.Implies(z3.And(isn, is_num(v["b"]), numv(v["b"]).e == 0), is_null(res))))
            if fn == "sqrt":
                props.append(("the square root of a negative number is null", z3.Implies(z3.And(isn, a.e < 0), is_null(res))))
                props.append(("the square root of a non-negative number is a number", z3.Implies(z3.And(isn, a.e >= 0), res.disc == NUM)))
            if fn == "log":
                props.append(("the logarithm of a non-positive number is null", z3.Implies(z3.And(isn, a.e <= 0), is_null(res))))
                props.append(("the logarithm of a positive number is a number", z3.Implies(z3.And(isn, a.e > 0), res.disc == NUM)))
            if fn in ("even", "odd"):
                b = res.alts["Boolean"][0].e if "Boolean" in res.alts else z3.BoolVal(False)
                ev = dv.FL(a) % 2 == 0
                want = ev if fn == "even" else z3.Not(ev)
                props.append(("%s(n) of an integral n is its parity, whatever its magnitude and representation" % fn,
                              z3.Implies(z3.And(isn, dv.integral(a)), z3.And(res.disc == BOOL, b == want))))
            if fn in ("abs", "floor", "ceiling") and "Number" in res.alts:
                r = dv.num_of(res.alts["Number"][0]).e
                want = {"abs": dv.rabs(a.e), "floor": dv.rfloor_of(a), "ceiling": dv.rceil_of(a)}[fn]
                props.append(("%s(n) is a number with the specified value" % fn, z3.Implies(isn, z3.And(res.disc == NUM, r == want))))
            if fn not in ("even", "odd"):
                props.append(("a non-number argument gives null", z3.Implies(z3.Not(isn), is_null(res))))
            else:
                props = [p for p in props if p[0] != "reach:number"]
            return props

        def prefer(v):
            return cand_constraints([v[n] for n in names], v.get("_st"))

        def replay(i, rb):
            expr = "%s(%s)" % (fn, ", ".join(text_of(i[n]) for n in names))
            return replay_expr(rb, expr, i, fn)
        need = ["reach:null"] + ([] if fn in ("even", "odd") else ["reach:number"])
        jobs.append(lambda c: decide(c, crate, "%s/%s" % ("parity" if fn in ("even", "odd") else "finite", fn), setup, post, replay, rb, models=MODELS,
                                     describe=describe(names), prefer=prefer, budget_s=600, timeout_ms=30000, need_reach=need, known_predicates=KNOWN_PRED, max_cex=6))

    for fn in BIF1:
        bif_job(fn, 1)
    for fn in BIF2:
        bif_job(fn, 2)

    def agg_job(fn):
        def setup(ex, st):
            dv.assume_axioms(ex, st)
            n = ex.fresh_int(st, "usize", "len", constrain=False)
            ex.assume(st, z3.And(n.e >= 0, n.e <= LN))
            items = [U.fresh(ex, st, 0, "x%d" % k, kinds=["Number", "Null"]) for k in range(LN)]
            return core_name(crate, fn), [Ref(ex.new_cell(st, VecV(n.e, items, "Value")))], {"list": items, "list_len": n.e}

        def post(ex, o, v):
            v["_st"] = o.st
            return finite_post(o.value)

        def prefer(v):
            return cand_constraints(list(v["list"]), v.get("_st"))

        def replay(i, rb):
            expr = "%s([%s])" % (fn, ", ".join(text_of(d) for d in i["list"]))
            return replay_expr(rb, expr, i, fn)
        jobs.append(lambda c: decide(c, crate, "finite/%s" % fn, setup, post, replay, rb, models=MODELS, describe=describe(["list"]), prefer=prefer,
                                     unwind=LN + 4, budget_s=900, timeout_ms=30000, need_reach=["reach:number", "reach:null"], known_predicates=KNOWN_PRED, max_cex=6))

    for fn in BIFL:
        agg_job(fn)

    # ---------------------------------------------------------------------------------------------------------------- representation independence
    def repr_is_integer():
        def setup(ex, st):
            dv.assume_axioms(ex, st)
            ex.dec_round_quotient = True
            n = dv.fresh_number(ex, st, "n")
            return "FeelNumber::is_integer", [Ref(ex.new_cell(st, n))], {"n": n}

        def post(ex, o, v):
            x = dv.num_of(v["n"])
            return [("is_integer is true exactly for integral values, whatever the exponent of the representation", o.value.e == dv.integral(x)),
                    ("reach:true", o.value.e), ("reach:false", z3.Not(o.value.e))]

        def desc(m, v):
            return {"n": dv.describe_num(m, dv.num_of(v["n"]), model_value)}

        def prefer(v):
            x = dv.num_of(v["n"])
            return [z3.And(x.e == rat(c[0]), x.info["q"] == c[1]) for c in CANDS]

        def replay(i, rb):
            d = i["n"]
            val = dv.frac_of(d)
            expr = text_of(dict(d, kind="Number"))
            if cand_text(d) is None:
                return False, "no FEEL text for value %s with exponent %d" % (val, d["exp"])
            _, out, _ = replay_call(rb, ["numpred", expr])
            m = re.search(r"is_integer=(\w+)", out)
            want = val.denominator == 1
            return bool(m) and (m.group(1) == "true") != want, "FeelNumber::is_integer of the value of `%s`: %s (the value is %sintegral)" % (expr, out, "" if want else "not ")
        jobs.append(lambda c: decide(c, crate, "repr/is_integer", setup, post, replay, rb, models=MODELS, describe=desc, prefer=prefer,
                                     need_reach=["reach:true", "reach:false"], known_predicates=KNOWN_PRED, max_cex=6))
    repr_is_integer()

    def repr_compare():
        ops = ["eq", "lt", "le", "gt", "ge"]

        def setup(ex, st):
            dv.assume_axioms(ex, st)
            a, b = dv.fresh_number(ex, st, "a"), dv.fresh_number(ex, st, "b")
            ra, rb_ = Ref(ex.new_cell(st, a)), Ref(ex.new_cell(st, b))

            def runner(ex, st):
                def rec(st, k, acc):
                    if k == len(ops):
                        yield Outcome("return", st, value=tuple(acc))
                        return
                    name = "<FeelNumber as PartialEq>::eq" if ops[k] == "eq" else "<FeelNumber as PartialOrd>::%s" % ops[k]
                    for o in ex.call(st, name, [ra, rb_], None):
                        if o.kind != "return":
                            yield o
                        else:
                            yield from rec(o.st, k + 1, acc + [o.value])
                yield from rec(st, 0, [])
            return runner, None, {"a": a, "b": b}

        def post(ex, o, v):
            x, y = dv.num_of(v["a"]).e, dv.num_of(v["b"]).e
            want = {"eq": x == y, "lt": x < y, "le": x <= y, "gt": x > y, "ge": x >= y}
            return [("a %s b depends on the values only (equal numbers compare equal whatever their trailing zeros)" % op, r.e == want[op]) for op, r in zip(ops, o.value)]

        def desc(m, v):
            return {k: dv.describe_num(m, dv.num_of(v[k]), model_value) for k in ("a", "b")}
        def prefer(v):
            x, y = dv.num_of(v["a"]), dv.num_of(v["b"])
            return [z3.And(x.e == rat(c1[0]), x.info["q"] == c1[1], y.e == rat(c2[0]), y.info["q"] == c2[1]) for c1 in CANDS for c2 in CANDS]

        def replay(i, rb):
            if cand_text(i["a"]) is None or cand_text(i["b"]) is None:
                return False, "no FEEL text for these representations"
            ta, tb = cand_text(i["a"]), cand_text(i["b"])
            x, y = dv.frac_of(i["a"]), dv.frac_of(i["b"])
            bad, outs = False, []
            for sym, want in (("=", x == y), ("<", x < y), ("<=", x <= y), (">", x > y), (">=", x >= y)):
                _, out, _ = replay_call(rb, ["feel", "%s %s %s" % (ta, sym, tb)])
                outs.append("%s %s %s -> %s" % (ta, sym, tb, out))
                bad = bad or out.strip() != "VALUE %s" % ("true" if want else "false")
            return bad, "; ".join(outs)
        jobs.append(lambda c: decide(c, crate, "repr/compare", setup, post, replay, rb, models=MODELS, describe=desc, prefer=prefer, known_predicates=KNOWN_PRED, max_cex=6))
    repr_compare()

    run_parallel(check, jobs)


def core_name(crate, fn):
    """the MIR printer abbreviates paths as far as they stay unique: `core::abs` but plain `ceiling`"""
    for cand in ("core::" + fn, "bifs::core::" + fn, fn):
        b = crate.bodies.get(cand)
        if b is not None and getattr(b, "crate", None) == "feel-evaluator" and b.impl_at is None:
            return cand
    raise MirUnsupported("no MIR body for the core built-in %s" % fn)


def m_range_contains(ex, st, callee, args, dest_ty):
    """Range<isize>::contains(&FeelNumber): start <= x && x < end through the PartialOrd impls between isize and FeelNumber (real code)"""
    rng = deref(ex, st, args[0])
    x = args[1]
    lo, hi = rng.fields[0], rng.fields[1]
    rlo, rhi = Ref(ex.new_cell(st, lo, "lo")), Ref(ex.new_cell(st, hi, "hi"))
    for o1 in ex.run("<isize as PartialOrd<FeelNumber>>::partial_cmp", [rlo, x], st):
        if o1.kind != "return":
            yield o1
            continue
        c1 = o1.value
        for o2 in ex.run("<FeelNumber as PartialOrd<isize>>::partial_cmp", [x, rhi], o1.st):
            if o2.kind != "return":
                yield o2
                continue
            c2 = o2.value
            d1 = c1.alts["Some"][0].disc
            d2 = c2.alts["Some"][0].disc
            yield o2.st, mk_bool(z3.simplify(z3.And(c1.disc == 1, d1 <= 0, c2.disc == 1, d2 == -1)))


EXTRA_MODELS = [
    (R(r"^(std::ops::)?Range::<(isize|i32|i64)>::contains::<&?FeelNumber>$"), m_range_contains),
]


# ----------------------------------------------------------------------------------------------------------------------- native replay


def replay_expr(rb, expr, i, what):
    _, out, _ = replay_call(rb, ["feel", expr])
    # a panic is no number and no null either (the evaluation of a numeric built-in must return one of the two)
    bad = out.strip() in ("VALUE Infinity", "VALUE -Infinity", "VALUE NaN") or out.startswith("PANIC")
    note = ""
    num = lambda k: dv.frac_of(i[k]) if i.get(k, {}).get("kind") == "Number" else None
    a, b = num("a"), num("b")
    if not bad and what in ("build_div", "modulo") and a is not None and b == 0:
        bad = not out.startswith("VALUE null")
        note = " (division by zero must be null)"
    if not bad and what in ("even", "odd") and a is not None and a.denominator == 1:
        want = (a.numerator % 2 == 0) == (what == "even")
        bad = out.strip() != "VALUE %s" % ("true" if want else "false")
        note = " (the argument is an %s integer)" % ("even" if a.numerator % 2 == 0 else "odd")
    if not bad and what == "sqrt" and a is not None and a < 0:
        bad = not out.startswith("VALUE null")
    if not bad and what == "log" and a is not None and a <= 0:
        bad = not out.startswith("VALUE null")
    return bad, "%s -> %s%s" % (expr[:160], out[:120], note)


KNOWN_PRED = {}
