"""C03 — decision tables return what their hit policy prescribes (DESIGN §4 C03) — decided kernel: EvaluatedDecisionTable.

Engine M: the eleven `evaluate_hit_policy_*` functions of model-evaluator/src/builders/decision_table.rs are executed from MIR
on an evaluated table of up to N rules whose match flags and output values are symbolic (values from an ordered alphabet of
numbers), with a symbolic list of declared output values (the priority order), 0/1 default outputs and 1 or 2 output
components.  On every path the result names which rules' outputs it is made of; the solver must prove that this is what the
hit policy's reference semantics (written as formulas over the same symbols) prescribes.
Rule matching itself ('input in entry': unary tests) and the XML path are not part of this obligation.
"""
import re

import z3

from vcommon import *  # noqa
from mcheck import MirCrate, decide, run_parallel, model_value
from mir.sym import Adt, En, FnV, Opaque, Outcome, Ref, Sc, StrV, VecV, UNIT, mk_bool, mk_int, none, some
from mir.models import deref, m_format_stub, R
from mir.parser import MirUnsupported
import rsenum
import feelvals as fv

ENGINE = "M (MIR -> SMT, z3): hit-policy kernel on a symbolic evaluated decision table"

INF = 1000


def run(check, mirror, tier):
    rb = replay_build(mirror)
    crate = MirCrate(mirror, ["model-evaluator", "feel"], overflow_checks=True, enum_crates=("common", "feel", "model"))
    U = fv.Universe(mirror)
    src = mirror.read("model-evaluator/src/builders/decision_table.rs")
    f_edt = rsenum.struct_fields(src, "EvaluatedDecisionTable")
    f_rule = rsenum.struct_fields(src, "EvaluatedRule")
    N = 3 if tier == "quick" else 4
    check.bounds += ["evaluated tables with 0..%d rules (match flags symbolic), 1 or 2 output components, output values from an ordered alphabet of numbers, "
                     "declared output values: a symbolic list of 0..3 distinct numbers, 0 or 1 default output" % N]
    check.assumptions += ["output values are numbers compared by FeelNumber equality (rank model); evaluate_sum/min/max are uninterpreted (their folds are decimal arithmetic: C02)",
                          "slice::sort_by is a stable sort (modelled as insertion sort calling the real comparator closure)"]

    def m_aggregate(ex, st, callee, args, dest_ty):
        v = args[0]
        st.log.append(("aggregate", callee.split("::")[-1], tuple(v.items[:ex.concrete(v.len)])))
        yield st, En("Value", z3.IntVal(U.idx("Irrelevant")), {"Irrelevant": ()})
    MODELS = [(re.compile(r"(^|::)evaluate_(sum|min|max)$"), m_aggregate),
              (re.compile(r"^format$|^std::fmt::format$|^alloc::fmt::format$"), m_format_stub)] + fv.VALUE_MODELS
    jobs = []

    def num(e):
        return En("Value", z3.IntVal(U.idx("Number")), {"Number": (Opaque("FeelNumber", e),)})

    def build(ex, st, ncomp):
        n = ex.fresh_int(st, "usize", "n_rules", constrain=False)
        ex.assume(st, z3.And(n.e >= 0, n.e <= N))
        rules, info = [], []
        for i in range(N):
            m = z3.Bool(ex.fresh_name("match%d" % i))
            outs = []
            for j in range(ncomp):
                r = z3.Int(ex.fresh_name("out%d_%d" % (i, j)))
                ex.assume(st, z3.And(r >= 0, r <= 3))
                outs.append((r, num(r)))
            vals = {"matches": mk_bool(m), "output_entry_values": VecV(z3.IntVal(ncomp), [v for _, v in outs], "Value")}
            rules.append(Adt("struct", "EvaluatedRule", [vals[f] for f in f_rule]))
            info.append(dict(m=m, outs=[r for r, _ in outs], vals=[v for _, v in outs]))
        nov = ex.fresh_int(st, "usize", "n_output_values", constrain=False)
        ex.assume(st, z3.And(nov.e >= 0, nov.e <= 3))
        ovr = [z3.Int(ex.fresh_name("declared%d" % k)) for k in range(3)]
        for k in range(3):
            ex.assume(st, z3.And(ovr[k] >= 0, ovr[k] <= 3))
            for k2 in range(k):
                ex.assume(st, ovr[k] != ovr[k2])
        ndef = ex.fresh_int(st, "usize", "n_defaults", constrain=False)
        ex.assume(st, z3.And(ndef.e >= 0, ndef.e <= 1))
        dflt = num(z3.IntVal(99))
        vals = {"component_names": VecV(z3.IntVal(ncomp), [Opaque("Name", z3.IntVal(j)) for j in range(ncomp)], "Name"),
                "output_values": VecV(nov.e, [num(r) for r in ovr], "Value"),
                "default_output_values": VecV(ndef.e, [dflt], "Value"),
                "evaluated_rules": VecV(n.e, rules, "EvaluatedRule")}
        edt = Adt("struct", "EvaluatedDecisionTable", [vals[f] for f in f_edt])
        ctx = dict(n=n.e, rules=info, nov=nov.e, ovr=ovr, ndef=ndef.e, dflt=dflt, ncomp=ncomp)
        return Ref(ex.new_cell(st, edt, "edt")), ctx

    # ---- reference semantics ---------------------------------------------------------------------------------------------
    def present(ctx, i):
        return z3.And(ctx["n"] > i, ctx["rules"][i]["m"])

    def pos_of(ctx, r):
        """index of value r in the declared output values, INF if absent"""
        e = z3.IntVal(INF)
        for k in reversed(range(3)):
            e = z3.If(z3.And(ctx["nov"] > k, ctx["ovr"][k] == r), z3.IntVal(k), e)
        return e

    def key_less(ctx, a, b):
        """rule a strictly precedes rule b in priority (the comparator's Less), component by component"""
        res = z3.BoolVal(False)
        for j in reversed(range(ctx["ncomp"])):
            pa, pb = pos_of(ctx, ctx["rules"][a]["outs"][j]), pos_of(ctx, ctx["rules"][b]["outs"][j])
            res = z3.If(pa < pb, z3.BoolVal(True), z3.If(pa > pb, z3.BoolVal(False), res))
        return res

    def before(ctx, j, i, prioritized):
        if not prioritized:
            return z3.BoolVal(j < i)
        return z3.Or(key_less(ctx, j, i), z3.And(z3.Not(key_less(ctx, i, j)), z3.BoolVal(j < i)))

    def position(ctx, i, prioritized):
        return z3.Sum([z3.If(z3.And(present(ctx, j), before(ctx, j, i, prioritized)), 1, 0) for j in range(N) if j != i] + [z3.IntVal(0)])

    def count(ctx):
        return z3.Sum([z3.If(present(ctx, i), 1, 0) for i in range(N)])

    def same_result(ctx, a, b):
        return z3.And([ctx["rules"][a]["outs"][j] == ctx["rules"][b]["outs"][j] for j in range(ctx["ncomp"])])

    # ---- reading a result ---------------------------------------------------------------------------------------------------------
    def which_rule(ex, st, ctx, v):
        """index of the rule whose outputs make up the single result value v, 'default', 'null', or None"""
        v = deref(ex, st, v)
        if v is ctx["dflt"]:
            return "default"
        if isinstance(v, En) and ex.concrete(v.disc) == U.idx("Null"):
            return "null"
        if ctx["ncomp"] == 1:
            for i, r in enumerate(ctx["rules"]):
                if v is r["vals"][0]:
                    return i
            return None
        if isinstance(v, En) and ex.concrete(v.disc) == U.idx("Context"):
            mp = v.alts["Context"][0].fields[0]
            if ex.concrete(mp.len) != ctx["ncomp"]:
                return None
            for i, r in enumerate(ctx["rules"]):
                if all(ex.concrete(mp.items[j].fields[0].e) == j and mp.items[j].fields[1] is r["vals"][j] for j in range(ctx["ncomp"])):
                    return i
        return None

    def read_list(ex, st, ctx, v):
        v = deref(ex, st, v)
        if isinstance(v, En) and ex.concrete(v.disc) == U.idx("List"):
            vec = v.alts["List"][0].fields[0]
            return [which_rule(ex, st, ctx, x) for x in vec.items[:ex.concrete(vec.len)]]
        return None

    def default_spec(ctx, got):
        return z3.If(ctx["ndef"] == 1, z3.BoolVal(got == "default"), z3.BoolVal(got == "null"))

    def mk(policy, ncomp, spec):
        oid = "hit_policy/%s/%dcomp" % (policy, ncomp)

        def setup(ex, st):
            edt, ctx = build(ex, st, ncomp)
            inputs = {"n_rules": ctx["n"], "n_output_values": ctx["nov"], "n_defaults": ctx["ndef"], "_ctx": ctx}
            for i, r in enumerate(ctx["rules"]):
                inputs["match%d" % i] = r["m"]
                for j, o in enumerate(r["outs"]):
                    inputs["out%d_%d" % (i, j)] = o
            for k, o in enumerate(ctx["ovr"]):
                inputs["declared%d" % k] = o
            return "EvaluatedDecisionTable::evaluate_hit_policy_" + policy, [edt], inputs

        def post(ex, o, inputs):
            return spec(ex, o, inputs["_ctx"])

        def desc(m, inputs):
            return {k: model_value(m, v) for k, v in inputs.items() if not k.startswith("_")}
        jobs.append(lambda c: decide(c, crate, oid, setup, post, lambda i, rb: replay_policy(policy, ncomp, i, rb), rb, models=MODELS, unwind=4 * N + 8,
                                     describe=desc, budget_s=1200, min_paths=2, timeout_ms=20000, known_predicates=KNOWN_PRED))

    def single(prioritized, chooser):
        def spec(ex, o, ctx):
            got = which_rule(ex, o.st, ctx, o.value)
            nomatch = count(ctx) == 0
            props = [("no rule matches: the default output if defined, else null", z3.Implies(nomatch, default_spec(ctx, got)))]
            props.append(chooser(ctx, got, nomatch))
            return props
        return spec

    def first_like(prioritized):
        def chooser(ctx, got, nomatch):
            okc = z3.BoolVal(False)
            if isinstance(got, int):
                okc = z3.And(present(ctx, got), position(ctx, got, prioritized) == 0)
            return ("otherwise the output of the %s matching rule" % ("highest-priority" if prioritized else "first"), z3.Implies(z3.Not(nomatch), okc))
        return chooser

    def unique_chooser(ctx, got, nomatch):
        one = count(ctx) == 1
        okc = z3.And(present(ctx, got), one) if isinstance(got, int) else z3.BoolVal(False)
        return ("UNIQUE: the single matching rule's output, null when several match",
                z3.Implies(z3.Not(nomatch), z3.If(one, okc, z3.BoolVal(got == "null"))))

    def any_chooser(ctx, got, nomatch):
        alleq = z3.And([z3.Implies(z3.And(present(ctx, a), present(ctx, b)), same_result(ctx, a, b)) for a in range(N) for b in range(a)])
        okc = z3.And(present(ctx, got), position(ctx, got, False) == 0) if isinstance(got, int) else z3.BoolVal(False)
        # any matching rule's output is acceptable when all are equal; the implementation returns the first one's
        return ("ANY: the common output of the matching rules, null when they differ", z3.Implies(z3.Not(nomatch), z3.If(alleq, okc, z3.BoolVal(got == "null"))))

    def listed(prioritized):
        def spec(ex, o, ctx):
            lst = read_list(ex, o.st, ctx, o.value)
            got = which_rule(ex, o.st, ctx, o.value) if lst is None else None
            nomatch = count(ctx) == 0
            props = [("no rule matches: the default output if defined, else null", z3.Implies(nomatch, default_spec(ctx, got)))]
            if lst is None or any(not isinstance(x, int) for x in lst):
                props.append(("a list of the matching rules' outputs", nomatch))
            else:
                c = [count(ctx) == len(lst)]
                for p, i in enumerate(lst):
                    c.append(z3.And(present(ctx, i), position(ctx, i, prioritized) == p))
                props.append(("the outputs of exactly the matching rules in %s order" % ("output-value priority" if prioritized else "rule"), z3.Implies(z3.Not(nomatch), z3.And(c))))
            return props
        return spec

    def count_spec(ex, o, ctx):
        v = deref(ex, o.st, o.value)
        nomatch = count(ctx) == 0
        got = which_rule(ex, o.st, ctx, o.value)
        isnum = isinstance(v, En) and ex.concrete(v.disc) == U.idx("Number") and got is None
        return [("no rule matches: the default output if defined, else null", z3.Implies(nomatch, default_spec(ctx, got))),
                ("COLLECT #: the number of matching rules", z3.Implies(z3.Not(nomatch), (v.alts["Number"][0].e == count(ctx)) if isnum else z3.BoolVal(False)))]

    def aggregate_spec(name):
        def spec(ex, o, ctx):
            calls = [e for e in o.st.log if e[0] == "aggregate"]
            nomatch = count(ctx) == 0
            got = which_rule(ex, o.st, ctx, o.value)
            props = [("no rule matches: the default output if defined, else null", z3.Implies(nomatch, default_spec(ctx, got)))]
            if len(calls) == 1 and calls[0][1] == "evaluate_" + name:
                idx = []
                for x in calls[0][2]:
                    idx.append(next((i for i, r in enumerate(ctx["rules"]) if x is r["vals"][0]), None))
                c = [count(ctx) == len(idx)] + [z3.And(present(ctx, i), position(ctx, i, False) == p) if i is not None else z3.BoolVal(False) for p, i in enumerate(idx)]
                props.append(("COLLECT %s: the matching rules' outputs, in rule order, are handed to the aggregate" % name, z3.Implies(z3.Not(nomatch), z3.And(c))))
            else:
                props.append(("COLLECT %s: the aggregate is applied exactly once" % name, nomatch))
            return props
        return spec

    for ncomp in (1, 2):
        mk("unique", ncomp, single(False, unique_chooser))
        mk("any", ncomp, single(False, any_chooser))
        mk("first", ncomp, single(False, first_like(False)))
        mk("priority", ncomp, single(True, first_like(True)))
        mk("rule_order", ncomp, listed(False))
        mk("collect_list", ncomp, listed(False))
        mk("output_order", ncomp, listed(True))
    mk("collect_count", 1, count_spec)
    for a in ("sum", "min", "max"):
        mk("collect_" + a, 1, aggregate_spec(a))
    # ---- rule matching: `input in entry` for the unary tests of an input entry --------------------------------------------------
    from checks import C09 as c09
    ecrate = MirCrate(mirror, ["feel-evaluator", "feel"], overflow_checks=True)
    EM = [(re.compile(r"^format$|^std::fmt::format$|^alloc::fmt::format$"), m_format_stub),
          (re.compile(r"^is_valid_date$"), lambda ex, st, c, a, d: iter([(st, mk_bool(U.cal_valid(a[0].e, a[1].e, a[2].e)))]))] + fv.VALUE_MODELS
    UNARY = {"UnaryLess": ("build_lt", "<"), "UnaryLessOrEqual": ("build_le", "<="), "UnaryGreater": ("build_gt", ">"), "UnaryGreaterOrEqual": ("build_ge", ">=")}

    def unary(ex, st, variant, b):
        return En("Value", z3.IntVal(U.idx(variant)), {variant: (Ref(ex.new_cell(st, b, "box")),)})

    def lst(variant, items):
        return En("Value", z3.IntVal(U.idx(variant)), {variant: (Adt("struct", "Values", (VecV(z3.IntVal(len(items)), items, "Value"),)),)})

    def mk_match(oid, kind, specs_fn, post_fn):
        def setup(ex, st):
            vals = {n: U.fresh(ex, st, 0, n, kinds=[kind]) for n in ("x", "b", "c")}
            return c09.n_runs(specs_fn(ex, st, vals)), None, vals

        def desc(m, inputs):
            return {k: U.describe(m, inputs[k], model_value) for k in ("x", "b", "c")}
        jobs.append(lambda c: decide(c, ecrate, oid, setup, lambda ex, o, v: post_fn(o.value), lambda i, rb: replay_match(oid, i, rb), rb, models=EM, unwind=8,
                                     describe=desc, budget_s=900, min_paths=1, timeout_ms=20000, known_predicates=KNOWN_PRED,
                                     prefer=lambda inp: z3.And([U.replayable_pref(inp[k]) for k in ("x", "b", "c")])))

    T = lambda r: c09.tri(U, r)
    for kind in ("Number", "String", "Date"):
        for variant, (cmp_builder, sym) in UNARY.items():
            mk_match("matching/%s/in_%s" % (kind, variant), kind,
                     lambda ex, st, v, variant=variant, cmp_builder=cmp_builder: [("build_in", [v["x"], unary(ex, st, variant, v["b"])]), (cmp_builder, [v["x"], v["b"]]),
                                                                                  ("build_in", [v["x"], lst("NegatedCommaList", [unary(ex, st, variant, v["b"])])])],
                     lambda r, sym=sym: [("x in %sb agrees with x %s b" % (sym, sym), z3.And(c09.is_bool_or_null(U, r[0]), T(r[0]) == T(r[1]))),
                                         ("x in not(%sb) is its negation" % sym, z3.And(c09.is_bool_or_null(U, r[2]), z3.Implies(T(r[1]) >= 0, T(r[2]) == 1 - T(r[1]))))])
        mk_match("matching/%s/in_value_and_list" % kind, kind,
                 lambda ex, st, v: [("build_in", [v["x"], v["b"]]), ("build_eq", [v["x"], v["b"]]), ("build_eq", [v["x"], v["c"]]),
                                    ("build_in", [v["x"], lst("ExpressionList", [v["b"], v["c"]])]),
                                    ("build_in", [v["x"], lst("NegatedCommaList", [v["b"], v["c"]])])],
                 lambda r: [("x in b agrees with x = b", T(r[0]) == z3.If(T(r[1]) == 1, 1, 0)),
                            ("x in (b, c) is the disjunction of the tests", T(r[3]) == z3.If(z3.Or(T(r[1]) == 1, T(r[2]) == 1), 1, 0))] +
                           ([("x in not(b, c) is the negation of the disjunction", T(r[4]) == z3.If(z3.Or(T(r[1]) == 1, T(r[2]) == 1), 0, 1))] if kind != "Date" else []))
    wiring_job(check, mirror, rb, crate, jobs)
    evaluation_job(check, mirror, rb, crate, jobs, U)
    run_parallel(check, jobs)


def replay_match(oid, i, rb):
    if not all(fv.replayable(i[k]) for k in ("x", "b", "c")):
        return False, "not expressible"
    t = {k: fv.feel_text(i[k]) for k in ("x", "b", "c")}
    variant = oid.split("/in_")[-1]
    sym = {"UnaryLess": "<", "UnaryLessOrEqual": "<=", "UnaryGreater": ">", "UnaryGreaterOrEqual": ">="}.get(variant)
    # unary tests are only written inside decision table entries / `in (...)`: evaluate through `x in (tests)`
    if sym:
        exprs = ["%s in (%s %s)" % (t["x"], sym, t["b"]), "%s %s %s" % (t["x"], sym, t["b"])]
        outs = [replay_call(rb, ["feel", e])[1] for e in exprs]
        neg = replay_unary_tests(rb, t["x"], "not(%s %s)" % (sym, t["b"]))
        bad = outs[0] != outs[1] or (outs[1] in ("VALUE true", "VALUE false") and neg != ("VALUE false" if outs[1] == "VALUE true" else "VALUE true"))
        return bad, "%s -> %s ; %s -> %s ; input %s against entry not(%s %s) -> %s" % (exprs[0], outs[0], exprs[1], outs[1], t["x"], sym, t["b"], neg)
    e_in, e_eq1, e_eq2 = "%s in (%s, %s)" % (t["x"], t["b"], t["c"]), "%s = %s" % (t["x"], t["b"]), "%s = %s" % (t["x"], t["c"])
    o = [replay_call(rb, ["feel", e])[1] for e in (e_in, e_eq1, e_eq2)]
    want = "VALUE true" if "VALUE true" in o[1:] else "VALUE false"
    neg = replay_unary_tests(rb, t["x"], "not(%s, %s)" % (t["b"], t["c"]))
    bad = o[0] != want or (i["x"]["kind"] != "Date" and neg != ("VALUE false" if want == "VALUE true" else "VALUE true"))
    return bad, "%s -> %s (%s -> %s, %s -> %s); entry not(..) -> %s" % (e_in, o[0], e_eq1, o[1], e_eq2, o[2], neg)


def replay_unary_tests(rb, x, tests):
    _, out, _ = replay_call(rb, ["unary_tests", x, tests])
    return out.strip()


# ----------------------------------------------------------------------------- native replay through a generated DMN model


POLICY_XML = {"unique": 'hitPolicy="UNIQUE"', "any": 'hitPolicy="ANY"', "first": 'hitPolicy="FIRST"', "priority": 'hitPolicy="PRIORITY"',
              "rule_order": 'hitPolicy="RULE ORDER"', "output_order": 'hitPolicy="OUTPUT ORDER"', "collect_list": 'hitPolicy="COLLECT"',
              "collect_count": 'hitPolicy="COLLECT" aggregation="COUNT"', "collect_sum": 'hitPolicy="COLLECT" aggregation="SUM"',
              "collect_min": 'hitPolicy="COLLECT" aggregation="MIN"', "collect_max": 'hitPolicy="COLLECT" aggregation="MAX"'}


def replay_policy(policy, ncomp, i, rb):
    n = i["n_rules"]
    declared = [i["declared%d" % k] for k in range(i["n_output_values"])]
    rules = [(i["match%d" % r], [i["out%d_%d" % (r, j)] for j in range(ncomp)]) for r in range(n)]
    # reference result computed here
    INFp = 10 ** 6
    key = lambda outs: [declared.index(o) if o in declared else INFp for o in outs]
    matching = [(r, outs) for r, (m, outs) in enumerate(rules) if m]
    res = lambda outs: (str(outs[0]) if ncomp == 1 else "{" + ", ".join("o%d: %d" % (j, o) for j, o in enumerate(outs)) + "}")
    dflt = "99" if i["n_defaults"] == 1 else "null"
    if not matching:
        want = dflt
    elif policy == "unique":
        want = res(matching[0][1]) if len(matching) == 1 else "null"
    elif policy == "any":
        want = res(matching[0][1]) if all(o == matching[0][1] for _, o in matching) else "null"
    elif policy == "first":
        want = res(matching[0][1])
    elif policy == "priority":
        want = res(sorted(matching, key=lambda t: key(t[1]))[0][1])
    elif policy in ("rule_order", "collect_list"):
        want = "[" + ", ".join(res(o) for _, o in matching) + "]"
    elif policy == "output_order":
        want = "[" + ", ".join(res(o) for _, o in sorted(matching, key=lambda t: key(t[1]))) + "]"
    elif policy == "collect_count":
        want = str(len(matching))
    elif policy == "collect_sum":
        want = str(sum(o[0] for _, o in matching))
    elif policy == "collect_min":
        want = str(min(o[0] for _, o in matching))
    else:
        want = str(max(o[0] for _, o in matching))
    x = ['<?xml version="1.0" encoding="UTF-8"?><definitions namespace="https://verif" name="m" id="_m" xmlns="https://www.omg.org/spec/DMN/20191111/MODEL/">',
         '<inputData name="x" id="_x"><variable name="x" typeRef="number"/></inputData>',
         '<decision name="d" id="_d"><variable name="d"/><informationRequirement><requiredInput href="#_x"/></informationRequirement>',
         '<decisionTable %s>' % POLICY_XML[policy], '<input><inputExpression typeRef="number"><text>x</text></inputExpression></input>']
    for j in range(ncomp):
        ov = "<outputValues><text>%s</text></outputValues>" % ",".join(map(str, declared)) if (declared and j == 0) else ""
        dv = "<defaultOutputEntry><text>99</text></defaultOutputEntry>" if (i["n_defaults"] == 1 and j == 0) else ""
        x.append('<output name="o%d">%s%s</output>' % (j, ov, dv))
    for m, outs in rules:
        x.append("<rule><inputEntry><text>%s</text></inputEntry>%s</rule>" % ("1" if m else "2", "".join("<outputEntry><text>%d</text></outputEntry>" % o for o in outs)))
    x.append("</decisionTable></decision></definitions>")
    _, out, _ = replay_call(rb, ["model_eval", "".join(x), "d", "{x: 1}"])
    got = re.sub(r"null\(.*\)$", "null", out[6:] if out.startswith("VALUE ") else out)
    return got.replace(" ", "") != want.replace(" ", ""), "%s table, rules %s, declared output values %s, default %s -> %s, hit policy prescribes %s" % (
        policy, rules, declared, dflt, got[:80], want)


KNOWN_PRED = {}


# ----------------------------------------------------------------------------- which tests a rule's input entry is compiled to


def evaluation_job(check, mirror, rb, crate, jobs, U, nr_max=3):
    """build_decision_table_evaluator is executed with parse_decision_table replaced by a symbolic parsed table (0..3 rules, 0..2 input
    entry evaluators and one output entry evaluator per rule, all oracles returning arbitrary values); the closure it returns is then run.
    The eleven evaluate_hit_policy_* functions are loggers.  Obligations: the table handed to the hit policy has one evaluated rule per rule,
    in rule order, each matching iff ALL its input entries evaluated to true, with the outputs its output entry evaluators gave; exactly one
    hit-policy function is called and it is the one the table's hit policy (and aggregator) names."""
    import rsenum
    from mir.models import call_fn_value
    src_m = mirror.read("model/src/model/mod.rs")
    f_dt = rsenum.struct_fields(src_m, "DecisionTable")
    src = mirror.read("model-evaluator/src/builders/decision_table.rs")
    f_pdt = rsenum.struct_fields(src, "ParsedDecisionTable")
    f_prule = rsenum.struct_fields(src, "ParsedRule")
    f_edt = rsenum.struct_fields(src, "EvaluatedDecisionTable")
    f_erule = rsenum.struct_fields(src, "EvaluatedRule")
    HP = rsenum.enums_of(src_m)["HitPolicy"]
    AG = rsenum.enums_of(src_m)["BuiltinAggregator"]
    NR, NI = nr_max, 2
    WANT = {"Unique": "unique", "Any": "any", "Priority": "priority", "First": "first", "RuleOrder": "rule_order", "OutputOrder": "output_order"}
    check.bounds.append("evaluation: 0..%d rules with 0..%d input entries and one output entry each, every hit policy and aggregator; entry values arbitrary (true / false / null)" % (NR, NI))
    check.assumptions.append("evaluation: parse_decision_table replaced by a symbolic parsed table, entry evaluators are oracles, evaluate_hit_policy_* are loggers")
    BOOL, NULL, NUMB = U.idx("Boolean"), U.idx("Null"), U.idx("Number")

    def setup(ex, st):
        nr = ex.fresh_int(st, "usize", "n_rules", constrain=False)
        ni = ex.fresh_int(st, "usize", "n_inputs", constrain=False)
        ex.assume(st, z3.And(nr.e >= 0, nr.e <= NR, ni.e >= 0, ni.e <= NI))
        hp = ex.fresh_int(st, "isize", "hit_policy", constrain=False)
        ag = ex.fresh_int(st, "isize", "aggregator", constrain=False)
        ex.assume(st, z3.Or([hp.e == v for v in HP.values()]))
        ex.assume(st, z3.Or([ag.e == v for v in AG.values()]))
        inputs = dict(n_rules=nr.e, n_inputs=ni.e, hit_policy=hp.e, aggregator=ag.e)
        kinds = {}

        def entry(r, i):
            k = ex.fresh_int(st, "isize", "r%d_in%d_kind" % (r, i), constrain=False)    # 0 true, 1 false, 2 null
            ex.assume(st, z3.And(k.e >= 0, k.e <= 2))
            kinds[(r, i)] = k.e
            inputs["r%d_in%d" % (r, i)] = k.e
            val = En("Value", z3.If(k.e == 2, z3.IntVal(NULL), z3.IntVal(BOOL)), {"Boolean": (Sc(k.e == 0, "bool"),), "Null": (none(),)})

            def cb(ex, st, argv):
                st.log.append(("input_entry", r, i))
                yield st, val
            return Ref(ex.new_cell(st, FnV("@model", (cb,)), "box"))

        def outev(r):
            val = En("Value", z3.IntVal(NUMB), {"Number": (Opaque("FeelNumber", z3.IntVal(1000 + r)),)})

            def cb(ex, st, argv):
                st.log.append(("output_entry", r))
                yield st, val
            return Ref(ex.new_cell(st, FnV("@model", (cb,)), "box"))
        rules = []
        for r in range(NR):
            rv = {"input_entries_evaluators": VecV(ni.e, [entry(r, i) for i in range(NI)], "Evaluator"), "output_entries_evaluators": VecV(z3.IntVal(1), [outev(r)], "Evaluator")}
            rules.append(Adt("struct", "ParsedRule", [rv[f] for f in f_prule]))
        # the output clause may declare allowed values and a default entry (0..1 each): FEEL texts evaluated by every evaluation
        nov = ex.fresh_int(st, "usize", "n_output_values_clauses", constrain=False)
        ndv = ex.fresh_int(st, "usize", "n_default_clauses", constrain=False)
        # both present or both absent: halves the number of paths; the two loops of the code under test are independent of each other
        ex.assume(st, z3.And(nov.e >= 0, nov.e <= 1, ndv.e == nov.e))
        inputs["n_output_values_clauses"], inputs["n_default_clauses"] = nov.e, ndv.e
        ELIST = U.idx("ExpressionList")

        def clause_ev(tag, k):
            val = En("Value", z3.IntVal(ELIST), {"ExpressionList": (Adt("struct", "Values", (VecV(z3.IntVal(1), [En("Value", z3.IntVal(NUMB), {"Number": (Opaque("FeelNumber", z3.IntVal(k)),)})], "Value"),)),)})

            def cb(ex, st, argv):
                st.log.append((tag,))
                yield st, val
            return some(Ref(ex.new_cell(st, FnV("@model", (cb,)), "box")))
        pvals = {"component_names": VecV(z3.IntVal(0), (), "Name"), "output_values_evaluators": VecV(nov.e, [clause_ev("output_values", 8888)], "T"),
                 "default_output_values_evaluators": VecV(ndv.e, [clause_ev("default_value", 7777)], "T"), "rules": VecV(nr.e, rules, "ParsedRule")}
        missing = [f for f in f_pdt if f not in pvals]
        import interior
        ftypes = interior.struct_field_types(src, "ParsedDecisionTable")
        for f in list(missing):
            # a field this obligation does not know: state kept inside the compiled table (OnceLock, Mutex, ..) is modelled as such -
            # it may hold whatever an earlier evaluation left there (lib/interior.py); any other new field is refused
            if interior.is_interior(ftypes.get(f, "")):
                pvals[f] = Opaque("InteriorState", (f, ftypes[f]))
                missing.remove(f)
        if missing:
            raise MirUnsupported("ParsedDecisionTable has fields the model does not know: %s" % missing)
        pdt = Adt("struct", "ParsedDecisionTable", [pvals[f] for f in f_pdt])
        hpv = En("HitPolicy", hp.e, {k: ((En("BuiltinAggregator", ag.e, {a: () for a in AG}),) if k == "Collect" else ()) for k in HP})
        dvals = {f: Opaque("unused", f) for f in f_dt}
        dvals["hit_policy"] = hpv
        dt = Ref(ex.new_cell(st, Adt("struct", "DecisionTable", [dvals[f] for f in f_dt]), "dt"))
        scope = Ref(ex.new_cell(st, Opaque("Scope"), "scope"))
        inputs["_kinds"] = kinds

        def m_parse_table(ex, st, callee, args, dest_ty):
            yield st, En("Result", z3.IntVal(0), {"Ok": (pdt,)})

        def m_policy(ex, st, callee, args, dest_ty):
            st.log.append(("policy", callee.rsplit("evaluate_hit_policy_", 1)[1], deref(ex, st, args[0])))
            yield st, En("Value", z3.IntVal(NULL), {"Null": (none(),)})

        def runner(ex, st):
            ex.models.insert(0, (re.compile(r"(^|::)parse_decision_table$"), m_parse_table))
            ex.models.insert(0, (re.compile(r"EvaluatedDecisionTable::evaluate_hit_policy_\w+$"), m_policy))
            for st1, k in ex.enum_values(st, ni.e, limit=NI + 2):
                st1.log.append(("n_inputs", k))
                for o in ex.run("decision_table::build_decision_table_evaluator", [scope, dt], st1):
                    if o.kind != "return":
                        yield o
                        continue
                    r = o.value
                    if ex.concrete(r.disc) != 0:
                        raise MirUnsupported("the builder did not return Ok")
                    f = r.alts["Ok"][0]
                    yield from call_fn_value(ex, o.st, f, [scope])
        return runner, None, inputs

    def post(ex, o, v):
        pol = [e for e in o.st.log if e[0] == "policy"]
        props = [("exactly one hit-policy function is called", z3.BoolVal(len(pol) == 1))]
        if len(pol) != 1:
            return props
        _, name, edt = pol[0]
        want = z3.BoolVal(False)
        for k, code in HP.items():
            if k == "Collect":
                for a, acode in AG.items():
                    want = z3.Or(want, z3.And(v["hit_policy"] == code, v["aggregator"] == acode, z3.BoolVal(name == "collect_" + a.lower())))
            else:
                want = z3.Or(want, z3.And(v["hit_policy"] == code, z3.BoolVal(name == WANT.get(k))))
        props.append(("the function called is the one the hit policy and aggregator name (called: %s)" % name, want))
        er = edt.fields[f_edt.index("evaluated_rules")]
        n = ex.concrete(er.len)
        props.append(("one evaluated rule per rule", er.len == v["n_rules"]))
        ni = [e for e in o.st.log if e[0] == "n_inputs"][0][1]
        for r in range(n or 0):
            rule = er.items[r]
            m = rule.fields[f_erule.index("matches")]
            outs = rule.fields[f_erule.index("output_entry_values")]
            all_true = z3.And([v["_kinds"][(r, i)] == 0 for i in range(ni or 0)] + [z3.BoolVal(True)])
            import sys as _s
            if os.environ.get("VERIF_DEBUG"):
                _s.stderr.write("DBG rule %d m=%r pc=%s\n" % (r, m, [str(c)[:120] for c in o.st.pc]))
            props.append(("rule %d matches iff all its input entries evaluated to true" % (r + 1), m.e == all_true))
            okout = ex.concrete(outs.len) == 1 and isinstance(outs.items[0], En) and "Number" in outs.items[0].alts and ex.concrete(outs.items[0].alts["Number"][0].e) == 1000 + r
            # only the outputs of matching rules reach the result: a non-matching rule's outputs need not be evaluated at all
            props.append(("rule %d, when it matches, carries the value of its own output entry" % (r + 1), z3.Implies(all_true, z3.BoolVal(bool(okout)))))
        props.append(("reach:three rules", z3.BoolVal(n == NR)))
        # what the hit policy gets besides the rules: the allowed and the default output values THIS evaluation computed (the table of this
        # obligation declares none) - not values left inside the compiled table by an earlier evaluation with other inputs
        stale = [e for e in o.st.log if e[0] == "stale_state"]
        ov, dov = edt.fields[f_edt.index("output_values")], edt.fields[f_edt.index("default_output_values")]
        def only(vec, k):
            n_ = ex.concrete(vec.len)
            return n_ is not None and all(isinstance(x, En) and "Number" in x.alts and ex.concrete(x.alts["Number"][0].e) == k for x in vec.items[:n_])
        nomatch = z3.And([z3.Not(er.items[r].fields[f_erule.index("matches")].e) for r in range(n or 0)] + [z3.BoolVal(True)])
        props.append(("the allowed output values handed to the hit policy are the ones this evaluation computed, and so are the default values whenever no rule matches (also when there is no rule at all); "
                      "nothing an earlier evaluation left in the compiled table",
                      z3.And(ov.len == v["n_output_values_clauses"], z3.BoolVal(bool(only(ov, 8888))), z3.BoolVal(not stale),
                             z3.Implies(nomatch, z3.And(dov.len == v["n_default_clauses"], z3.BoolVal(bool(only(dov, 7777))))))))
        return props

    def desc(m, v):
        return {k: model_value(m, x) for k, x in v.items() if not k.startswith("_")}

    def replay_sequence(rb):
        """two evaluations of ONE compiled table whose default output depends on the input: each must give what it gives on an evaluator of its own"""
        xml = ('<?xml version="1.0" encoding="UTF-8"?><definitions namespace="https://verif" name="m" id="_m" xmlns="https://www.omg.org/spec/DMN/20191111/MODEL/">'
               '<inputData name="a" id="_a"><variable name="a" typeRef="number"/></inputData><decision name="d" id="_d"><variable name="d"/>'
               '<informationRequirement><requiredInput href="#_a"/></informationRequirement><decisionTable hitPolicy="UNIQUE"><input><inputExpression><text>a</text></inputExpression></input>'
               '<output><defaultOutputEntry><text>a * 2</text></defaultOutputEntry></output>'
               '<rule><inputEntry><text>&lt; 0</text></inputEntry><outputEntry><text>0</text></outputEntry></rule></decisionTable></decision></definitions>')
        _, seq, _ = replay_call(rb, ["model_eval_seq", xml, "d", "{a: 1}", "d", "{a: 5}", "d", "{a: 1}"])
        alone = [replay_call(rb, ["model_eval", xml, "d", c])[1].replace("VALUE ", "") for c in ("{a: 1}", "{a: 5}", "{a: 1}")]
        got = seq.replace("VALUES ", "").split(" | ")
        # a table without rules: nothing matches, the default output is the result
        xml0 = xml.replace('<rule><inputEntry><text>&lt; 0</text></inputEntry><outputEntry><text>0</text></outputEntry></rule>', "")
        _, out0, _ = replay_call(rb, ["model_eval", xml0, "d", "{a: 4}"])
        return got != alone or out0.strip() != "VALUE 8", ("one compiled table with default output `a * 2`, evaluated with a = 1, 5, 1: %s; each on an evaluator of its own: %s; "
                                                              "the same table without rules, a = 4 -> %s (specified 8)") % (got, alone, out0[:40])

    def replay(i, rb, label=""):
        """a table with one input a and the witness's rules (entry true -> `-`, false -> `< 0`, null -> `null`... rendered as tests on a = 1);
        policy ANY / COLLECT list show which rules were taken into account"""
        if "an earlier evaluation" in label:
            return replay_sequence(rb)
        hpn = [k for k, c in HP.items() if c == i["hit_policy"]][0]
        agn = [k for k, c in AG.items() if c == i["aggregator"]][0]
        attr = {"Unique": 'hitPolicy="UNIQUE"', "Any": 'hitPolicy="ANY"', "Priority": 'hitPolicy="PRIORITY"', "First": 'hitPolicy="FIRST"', "RuleOrder": 'hitPolicy="RULE ORDER"',
                "OutputOrder": 'hitPolicy="OUTPUT ORDER"', "Collect": 'hitPolicy="COLLECT"'}[hpn]
        if hpn == "Collect" and agn != "List":
            attr += ' aggregation="%s"' % agn.upper()
        nr, ni = i["n_rules"], max(i["n_inputs"], 1)
        rules, matched = "", []
        for r in range(nr):
            ents = ""
            allt = True
            for k in range(ni):
                kind = i.get("r%d_in%d" % (r, k), 0) if k < i["n_inputs"] else 0
                ents += "<inputEntry><text>%s</text></inputEntry>" % {0: "-", 1: "&lt; 0", 2: "&lt; 0"}[kind]
                allt = allt and kind == 0
            rules += "<rule>%s<outputEntry><text>%d</text></outputEntry></rule>" % (ents, 1000 + r)
            if allt:
                matched.append(1000 + r)
        ins = "".join("<input><inputExpression><text>a</text></inputExpression></input>" for _ in range(ni))
        xml = ('<?xml version="1.0" encoding="UTF-8"?><definitions namespace="https://verif" name="m" id="_m" xmlns="https://www.omg.org/spec/DMN/20191111/MODEL/">'
               '<inputData name="a" id="_a"><variable name="a" typeRef="number"/></inputData>'
               '<decision name="d" id="_d"><variable name="d"/><informationRequirement><requiredInput href="#_a"/></informationRequirement>'
               '<decisionTable %s>%s<output/>%s</decisionTable></decision></definitions>') % (attr, ins, rules)
        _, out, _ = replay_call(rb, ["model_eval", xml, "d", "{a: 1}"])
        if not out.startswith("VALUE "):
            return out.startswith("PANIC"), "replay model: " + out[:120]
        got = re.sub(r"null\([^)]*\)", "null", out[6:]).strip()
        if hpn in ("Unique", "Any"):
            want = str(matched[0]) if len(matched) == 1 else "null"
        elif hpn in ("First", "Priority"):
            want = str(matched[0]) if matched else "null"
        elif hpn in ("RuleOrder", "OutputOrder") or (hpn == "Collect" and agn == "List"):
            want = "[" + ", ".join(map(str, matched)) + "]" if matched else ("[]" if hpn == "Collect" else "null")
        else:
            want = {"Count": str(len(matched)), "Sum": str(sum(matched)) if matched else "null", "Min": str(min(matched)) if matched else "null",
                    "Max": str(max(matched)) if matched else "null"}[agn]
        same = got == want or (want in ("null", "[]") and got in ("null", "[]"))
        return not same, "%s table, rules matching a = 1: %s -> %s, specified %s" % (attr, matched, got[:60], want)
    import interior as _interior
    replay.wants_label = True
    jobs.append(lambda c: decide(c, crate, "evaluation/rules_and_dispatch", setup, post, replay, rb, models=[(re.compile(r"^format$|^std::fmt::format$|^alloc::fmt::format$"), m_format_stub)] + _interior.interior_models(U) + fv.VALUE_MODELS,
                                 unwind=4 * NR + 10, describe=desc, need_reach=["reach:three rules"], budget_s=900, max_cex=8, max_per_label=2,
                                 prefer=lambda v: z3.And([v[k] != 2 for k in v if k.startswith("r") and "_in" in k])))


def wiring_job(check, mirror, rb, crate, jobs):
    """parse_decision_table is executed with the FEEL parser replaced by a tagger (the node parsed from text t is the token <t>) and
    prepare() by a recorder: the evaluator the builder stores for rule r / input clause i must be prepared from exactly
        input_i in entry_ri                                   when the clause declares no input values,
        (input_i in input values_i) and (input_i in entry_ri)  when it does - WHATEVER the entry is (also for `-`),
    and the output entry evaluators from the output entries in clause order."""
    import rsenum
    src_m = mirror.read("model/src/model/mod.rs")
    f_dt = rsenum.struct_fields(src_m, "DecisionTable")
    f_rule = rsenum.struct_fields(src_m, "DecisionRule")
    f_in = rsenum.struct_fields(src_m, "InputClause")
    f_out = rsenum.struct_fields(src_m, "OutputClause")
    src = mirror.read("model-evaluator/src/builders/decision_table.rs")
    f_pdt = rsenum.struct_fields(src, "ParsedDecisionTable")
    f_prule = rsenum.struct_fields(src, "ParsedRule")
    AST = crate.enums.get("AstNode") or {}
    NI, NR = 2, 2
    check.bounds.append("wiring: tables with %d input clauses (each with or without declared input values), 1 output clause, 1..%d rules" % (NI, NR))
    check.assumptions.append("wiring: dmntk_feel_parser::parse_* = tagger of the parsed text, dmntk_feel_evaluator::prepare = recorder of the node it is given")

    def m_parse(ex, st, callee, args, dest_ty):
        t = deref(ex, st, args[1])
        if not (isinstance(t, StrV) and "id" in t.attrs):
            raise MirUnsupported("parse of %r" % (t,))
        kind = callee.rsplit("parse_", 1)[1]
        if kind == "name":
            yield st, En("Result", z3.IntVal(0), {"Ok": (Opaque("Name", t.attrs["id"]),)})
        else:
            # the parsed node: a name carrying the text's identity, or (unary tests only) the irrelevant test `-`
            tid = ex.concrete(t.attrs["id"])
            dash = z3.Bool("text%s_is_dash" % tid)
            disc = z3.If(dash, z3.IntVal(AST["Irrelevant"]), z3.IntVal(AST["Name"])) if kind == "unary_tests" else z3.IntVal(AST["Name"])
            yield st, En("Result", z3.IntVal(0), {"Ok": (En("AstNode", disc, {"Irrelevant": (), "Name": (Opaque("Name", t.attrs["id"]),)}),)})

    def m_prepare(ex, st, callee, args, dest_ty):
        yield st, En("Result", z3.IntVal(0), {"Ok": (Opaque("Prepared", info=deref(ex, st, args[0])),)})

    MODELS = [(re.compile(r"(^|::)parse_(expression|unary_tests|name|textual_expression)$"), m_parse),
              (re.compile(r"(^|::)prepare$"), m_prepare),
              (re.compile(r"^format$|^std::fmt::format$|^alloc::fmt::format$"), m_format_stub),
              (re.compile(r"^<AstNode as Clone>::clone$"), lambda ex, st, c, a, d: iter([(st, deref(ex, st, a[0]))])),
              ] + fv.VALUE_MODELS

    def opt_str(ex, hint, sid):
        b = z3.Bool(ex.fresh_name(hint))
        return b, En("Option", z3.If(b, z3.IntVal(1), z3.IntVal(0)), {"None": (), "Some": (StrV(None, id=z3.IntVal(sid)),)})

    def setup(ex, st):
        inputs = {}
        ins = []
        for i in range(NI):
            b, ov = opt_str(ex, "in%d_has_values" % i, 50 + i)
            inputs["in%d_has_values" % i] = b
            ins.append(Adt("struct", "InputClause", [{"input_expression": StrV(None, id=z3.IntVal(10 + i)), "input_values": ov}[f] for f in f_in]))
        outs = [Adt("struct", "OutputClause", [{"type_ref": none(), "name": none(), "output_values": none(), "default_output_entry": none()}[f] for f in f_out])]
        rules = []
        for r in range(NR):
            ie = VecV(z3.IntVal(NI), [Adt("struct", "InputEntry", (StrV(None, id=z3.IntVal(100 + r * 10 + k)),)) for k in range(NI)], "T")
            oe = VecV(z3.IntVal(1), [Adt("struct", "OutputEntry", (StrV(None, id=z3.IntVal(200 + r * 10)),))], "T")
            rules.append(Adt("struct", "DecisionRule", [{"input_entries": ie, "output_entries": oe, "annotation_entries": VecV(z3.IntVal(0), (), "T")}[f] for f in f_rule]))
        nr = ex.fresh_int(st, "usize", "n_rules", constrain=False)
        ex.assume(st, z3.And(nr.e >= 1, nr.e <= NR))
        inputs["n_rules"] = nr.e
        vals = {"information_item_name": none(), "input_clauses": VecV(z3.IntVal(NI), ins, "T"), "output_clauses": VecV(z3.IntVal(1), outs, "T"),
                "annotations": VecV(z3.IntVal(0), (), "T"), "rules": VecV(nr.e, rules, "T"), "hit_policy": Opaque("HitPolicy"), "aggregation": none(),
                "preferred_orientation": Opaque("Orientation"), "output_label": none()}
        missing = [f for f in f_dt if f not in vals]
        if missing:
            raise MirUnsupported("DecisionTable has fields the model does not know: %s" % missing)
        dt = Adt("struct", "DecisionTable", [vals[f] for f in f_dt])
        scope = Ref(ex.new_cell(st, Opaque("Scope"), "scope"))
        return "parse_decision_table", [scope, Ref(ex.new_cell(st, dt, "dt"))], inputs

    def shape(ex, st, node):
        """python rendering of an AstNode value built by the real code over the tagged tokens"""
        node = deref(ex, st, node) if isinstance(node, Ref) else node
        if isinstance(node, En) and node.ty == "AstNode" and set(node.alts) == {"Irrelevant", "Name"}:
            return ("tok", ex.concrete(node.alts["Name"][0].e))       # a parsed text (as a name or as `-`): identified by its text
        if isinstance(node, En) and node.ty == "AstNode":
            d = ex.concrete(node.disc)
            name = [k for k, v in AST.items() if v == d]
            name = name[0] if name else "?"
            return (name,) + tuple(shape(ex, st, f) for f in node.alts[name])
        return ("?", repr(node)[:40])

    def post(ex, o, v):
        r = o.value
        if ex.concrete(r.disc) != 0:
            return [("a well-formed table is built", z3.BoolVal(False))]
        pdt = r.alts["Ok"][0]
        prules = pdt.fields[f_pdt.index("rules")]
        n = ex.concrete(prules.len)
        props = [("one parsed rule per rule", prules.len == v["n_rules"])]
        okall, detail = True, []
        for ri in range(n or 0):
            evs = prules.items[ri].fields[f_prule.index("input_entries_evaluators")]
            if ex.concrete(evs.len) != NI:
                okall = False
                continue
            for i in range(NI):
                ev = evs.items[i]
                got = shape(ex, o.st, ev.info) if isinstance(ev, Opaque) and ev.sort == "Prepared" else ("?",)
                plain = ("In", ("tok", 10 + i), ("tok", 100 + ri * 10 + i))
                withv = ("And", ("In", ("tok", 10 + i), ("tok", 50 + i)), plain)
                hv = v["in%d_has_values" % i]
                props.append(("rule %d / input %d is tested as `input in entry`, conjoined with `input in input values` iff the clause declares them" % (ri + 1, i + 1),
                              z3.And(z3.Implies(hv, z3.BoolVal(got == withv)), z3.Implies(z3.Not(hv), z3.BoolVal(got == plain)))))
            oev = prules.items[ri].fields[f_prule.index("output_entries_evaluators")]
            og = shape(ex, o.st, oev.items[0].info) if ex.concrete(oev.len) == 1 and isinstance(oev.items[0], Opaque) else ("?",)
            props.append(("rule %d: the output entry evaluator is prepared from its own output entry" % (ri + 1), z3.BoolVal(og == ("tok", 200 + ri * 10))))
        props.append(("reach:two_rules", z3.BoolVal(n == 2)))
        return props

    def desc(m, v):
        return {k: model_value(m, x) for k, x in v.items()}

    def replay(i, rb):
        """a UNIQUE table with two inputs; input 1 declares the values 1,2 (if the witness says so), every rule has `-` for it: an input
        outside the declared values must match no rule"""
        iv = ["<inputValues><text>1,2</text></inputValues>" if i["in%d_has_values" % k] else "" for k in range(2)]
        xml = ('<?xml version="1.0" encoding="UTF-8"?><definitions namespace="https://verif" name="m" id="_m" xmlns="https://www.omg.org/spec/DMN/20191111/MODEL/">'
               '<inputData name="a" id="_a"><variable name="a" typeRef="number"/></inputData><inputData name="b" id="_b"><variable name="b" typeRef="number"/></inputData>'
               '<decision name="d" id="_d"><variable name="d"/><informationRequirement><requiredInput href="#_a"/></informationRequirement>'
               '<informationRequirement><requiredInput href="#_b"/></informationRequirement>'
               '<decisionTable hitPolicy="FIRST"><input><inputExpression><text>a</text></inputExpression>%s</input>'
               '<input><inputExpression><text>b</text></inputExpression>%s</input><output/>'
               '<rule><inputEntry><text>-</text></inputEntry><inputEntry><text>-</text></inputEntry><outputEntry><text>"hit"</text></outputEntry></rule>'
               '</decisionTable></decision></definitions>') % (iv[0], iv[1])
        _, out, _ = replay_call(rb, ["model_eval", xml, "d", "{a: 7, b: 7}"])
        want_null = i["in0_has_values"] or i["in1_has_values"]
        if not out.startswith("VALUE "):
            return False, "replay model not evaluated: " + out[:120]
        got_null = out.startswith("VALUE null")
        return got_null != want_null, "table with declared input values %s, rule (-, -), inputs a=7 b=7 -> %s (specified: %s)" % (
            [bool(i["in0_has_values"]), bool(i["in1_has_values"])], out[:60], "null, 7 is not among 1,2" if want_null else '"hit"')
    jobs.append(lambda c: decide(c, crate, "matching/wiring", setup, post, replay, rb, models=MODELS, unwind=4 * NR + 8, describe=desc, need_reach=["reach:two_rules"],
                                 budget_s=600, max_cex=3))
