"""C04 — a decision's value is its logic evaluated over its requirement graph, decided fragment: ONE NODE of the graph (DESIGN §4 C04).

The whole-program statement (XML model -> registries of closures behind RwLocks -> recursive evaluation) is outside every engine
here.  What is decided is the induction step over the requirement graph: the evaluation closure that `build_decision_evaluator`
(model-evaluator/src/builders/decision.rs) returns is executed from MIR with the registries replaced by oracles
  * DecisionEvaluator::evaluate(id, ..)              stores an arbitrary value under that required decision's variable name,
  * BusinessKnowledgeModelEvaluator::evaluate(id, ..) stores an arbitrary function value under the knowledge model's name,
  * DecisionServiceEvaluator::evaluate_as_function_definition  does nothing (the reference is a knowledge model here),
  * InputDataEvaluator::evaluate(id, supplied, ..)    yields (name, arbitrary type-checked value) for a required input,
  * the decision logic (`evaluator`)                  records the scope it is evaluated in and returns an arbitrary value,
  * FeelType::coerced                                 is a recorder (semantics: C16),
while FeelContext (set_entry / overwrite / zip / into Scope) is the real code.  Obligation, for 0..2 required decisions, 0..2
required inputs, 0..1 required knowledge models and a supplied context holding the required inputs' entries plus an unrelated one:
the logic is evaluated exactly once, in a scope of ONE context binding exactly the required inputs (to what the input data evaluator
delivered), the required decisions (to their own values) and the required knowledge (to its function value) - nothing else, in
particular not the unrelated supplied entry; the result is stored under the decision's output variable name after being coerced to
the declared type, and the closure returns that name.  (A supplied entry that has the NAME of a required decision overrides it in
the implementation; that case is excluded by assumption and asserted neither way.)
"""
import re

import z3

from vcommon import *  # noqa
from mcheck import MirCrate, decide, run_parallel, model_value
from mir.sym import Adt, En, FnV, Opaque, Outcome, Ref, Sc, StrV, VecV, UNIT, mk_bool, mk_int, none, some
from mir.models import deref, m_format_stub, R, call_fn_value
from mir.parser import MirUnsupported
import feelvals as fv
from checks.C13 import closure_captures, SCOPE_MODELS
from checks.C11_output import m_for_each

ENGINE = "M (MIR -> SMT, z3): the decision evaluation closure over oracle registries"


def run(check, mirror, tier):
    rb = replay_build(mirror)
    jobs = build_jobs(check, mirror, tier, rb)
    from checks import C04_boxed
    crate = MirCrate(mirror, ["model-evaluator", "feel"], overflow_checks=True, enum_crates=("common", "feel", "model"))
    C04_boxed.jobs_for(check, mirror, rb, crate, fv.Universe(mirror), jobs, tier)
    run_parallel(check, jobs)
    # boxed contexts and decision services as nodes: decided by C13 / C11, part of this property's statement as well
    run_companion(check, mirror, tier, "C13", ["scope_balance/build_context_evaluator"])
    run_companion(check, mirror, tier, "C11", ["decision_service_output"])


def build_jobs(check, mirror, tier, rb, oid="decision_closure", lock_models=None, post_hook=None, replay_override=None, me_value=None):
    """the decision evaluation closure obligation; with `lock_models` (C20) the registry accessors of ModelEvaluator are executed from
    their own MIR over those RwLock models instead of being replaced, `me_value(ex, st)` builds the ModelEvaluator struct and
    `post_hook(ex, o, v)` contributes further post-conditions"""
    crate = MirCrate(mirror, ["model-evaluator", "feel"], overflow_checks=True, enum_crates=("common", "feel", "model"))
    U = fv.Universe(mirror)
    NUM = U.idx("Number")
    ND = 2 if tier == "quick" else 3
    check.bounds += ["one decision with 0..%d required decisions, 0..%d required input data, 0..1 required knowledge models;" % (ND, ND) + " supplied context = entries for the "
                     "required inputs (present or not) + one unrelated entry; all values arbitrary"]
    check.assumptions += ["registries behind RwLocks replaced by oracles (see the module docstring); the decision logic is an oracle that records its scope",
                          "no supplied entry carries the name of a required decision or knowledge model (the implementation lets such an entry override it)"]

    def num(k):
        return En("Value", z3.IntVal(NUM), {"Number": (Opaque("FeelNumber", z3.IntVal(k)),)})

    def setup(ex, st):
        nd = ex.fresh_int(st, "usize", "n_required_decisions", constrain=False)
        ni = ex.fresh_int(st, "usize", "n_required_inputs", constrain=False)
        nk = ex.fresh_int(st, "usize", "n_required_knowledge", constrain=False)
        ex.assume(st, z3.And(nd.e >= 0, nd.e <= ND, ni.e >= 0, ni.e <= ND, nk.e >= 0, nk.e <= 1))
        sid = lambda base, k: StrV(None, id=z3.IntVal(base + k))
        dec_ids = [sid(100, k) for k in range(ND)]
        inp_ids = [sid(200, k) for k in range(ND)]
        kn_ids = [sid(300, 0)]
        # names: required decisions 10, 11; required inputs 20, 21; knowledge 30; unrelated supplied entry 40; output variable 900
        logic_result = U.fresh(ex, st, 0, "logic", kinds=["Number", "Null", "Boolean"])
        supplied_present = [z3.Bool(ex.fresh_name("input%d_supplied" % k)) for k in range(ND)]
        inputs = dict(n_required_decisions=nd.e, n_required_inputs=ni.e, n_required_knowledge=nk.e, _logic=logic_result)
        for k in range(ND):
            inputs["input%d_supplied" % k] = supplied_present[k]

        def logic(ex, st, argv):
            st.log.append(("logic_scope_cell", argv[0].cell if isinstance(argv[0], Ref) else None))
            sc = deref(ex, st, argv[0])
            vec = sc.fields[0]
            depth = ex.concrete(vec.len)
            ents = None
            if depth == 1:
                top = vec.items[0].fields[0]
                n = ex.concrete(top.len)
                if n is not None:
                    ents = [(ex.concrete(e.fields[0].e), e.fields[1]) for e in top.items[:n]]
            st.log.append(("logic", depth, ents))
            yield st, logic_result
        caps = closure_captures(crate, "build_decision_evaluator")
        vals = {"required_knowledge_references": VecV(nk.e, kn_ids, "String"), "required_decision_references": VecV(nd.e, dec_ids, "String"),
                "required_input_data_references": VecV(ni.e, inp_ids, "String"), "evaluator": Ref(ex.new_cell(st, FnV("@model", (logic,)), "box")),
                "output_variable_type": Opaque("FeelType", "declared"), "output_variable_name": Opaque("Name", z3.IntVal(900))}
        # the builder's body mentions several closures: take the capture list of the evaluation closure
        m = re.search(r"\{closure@[^}]*\} \{ (required_knowledge_references[^}]*) \}", crate.bodies["build_decision_evaluator"].text)
        caps = [x.split(":")[0].strip() for x in m.group(1).split(",")] if m else caps
        if sorted(caps) != sorted(vals):
            raise MirUnsupported("the decision closure captures %s, the obligation knows %s" % (caps, sorted(vals)))
        env = Ref(ex.new_cell(st, Adt("closure", "build_decision_evaluator", [vals[c] for c in caps]), "env"))
        me = Ref(ex.new_cell(st, me_value(ex, st) if me_value else Opaque("ModelEvaluator"), "me"))
        output = Ref(ex.new_cell(st, Adt("struct", "FeelContext", (fv.MapV(z3.IntVal(0), (), "kv"),)), "output"))
        inputs["_output"] = output
        inputs["_cells_before"] = frozenset(st.cells)

        def set_entry(ex, st, ctx, name_rank, value):
            for o in ex.run("FeelContext::set_entry", [ctx, Ref(ex.new_cell(st, Opaque("Name", z3.IntVal(name_rank)), "name")), value], st):
                if o.kind != "return":
                    raise MirUnsupported("FeelContext::set_entry did not return")
                yield o.st

        def m_registry(ex, st, callee, args, dest_ty):
            yield st, En("Result", z3.IntVal(0), {"Ok": (Ref(ex.new_cell(st, Opaque("Registry", callee.rsplit("::", 1)[1]), "guard")),)})

        def m_guard_deref(ex, st, callee, args, dest_ty):
            yield st, args[0]

        def m_decision_evaluate(ex, st, callee, args, dest_ty):
            k = ex.concrete(deref(ex, st, args[1]).attrs["id"]) - 100
            for st2 in set_entry(ex, st, args[4], 10 + k, num(1000 + k)):
                st2.log.append(("required_decision", k))
                yield st2, some(Opaque("Name", z3.IntVal(10 + k)))

        def m_bkm_evaluate(ex, st, callee, args, dest_ty):
            for st2 in set_entry(ex, st, args[4], 30, num(3000)):
                st2.log.append(("required_knowledge", 0))
                yield st2, UNIT

        def m_ds_as_function(ex, st, callee, args, dest_ty):
            yield st, UNIT

        def m_input_evaluate(ex, st, callee, args, dest_ty):
            k = ex.concrete(deref(ex, st, args[1]).attrs["id"]) - 200
            st.log.append(("required_input", k, deref(ex, st, args[2])))
            yield st, some(Adt("tuple", None, (Opaque("Name", z3.IntVal(20 + k)), num(2000 + k))))

        def m_coerced(ex, st, callee, args, dest_ty):
            res = En("Value", z3.IntVal(U.idx("Irrelevant")), {"Irrelevant": ()})
            st.log.append(("coerced", deref(ex, st, args[0]), deref(ex, st, args[1]), res))
            yield st, res
        models = ([(re.compile(r"^ModelEvaluator::(business_knowledge_model_evaluator|decision_service_evaluator|decision_evaluator|input_data_evaluator|item_definition_evaluator)$"), m_registry)]
                  if lock_models is None else list(lock_models)) + [
                  (re.compile(r"^<std::sync::RwLock(Read|Write)Guard<'_, .*> as Deref(Mut)?>::deref(_mut)?$"), m_guard_deref),
                  (re.compile(r"^(builders::decision::)?DecisionEvaluator::evaluate$"), m_decision_evaluate),
                  (re.compile(r"^(builders::business_knowledge_model::)?BusinessKnowledgeModelEvaluator::evaluate$"), m_bkm_evaluate),
                  (re.compile(r"^(builders::decision_service::)?DecisionServiceEvaluator::evaluate_as_function_definition$"), m_ds_as_function),
                  (re.compile(r"^(builders::input_data::)?InputDataEvaluator::evaluate$"), m_input_evaluate),
                  (re.compile(r"^(dmntk_feel::)?FeelType::coerced$"), m_coerced)]

        def runner(ex, st):
            for m_ in reversed(models):
                ex.models.insert(0, m_)
            # the supplied context: entries 20 / 21 (each present or not) and the unrelated entry 40, in key order
            def rec(st, k, ents):
                if k == ND:
                    ents = ents + [Adt("tuple", None, (Opaque("Name", z3.IntVal(40)), num(4000)))]
                    supplied = Ref(ex.new_cell(st, Adt("struct", "FeelContext", (fv.MapV(z3.IntVal(len(ents)), ents, "kv"),)), "supplied"))
                    body = ex.bodies.get("build_decision_evaluator::{closure#0}")
                    if body is None or len(body.args) != 4:
                        raise MirUnsupported("evaluation closure of build_decision_evaluator not found")
                    yield from ex.run_body(st, body, [env, supplied, me, output])
                    return
                for st2 in ex.branch(st, supplied_present[k]):
                    yield from rec(st2, k + 1, ents + [Adt("tuple", None, (Opaque("Name", z3.IntVal(20 + k)), num(5000 + k)))])
                for st2 in ex.branch(st, z3.Not(supplied_present[k])):
                    yield from rec(st2, k + 1, ents)
            yield from rec(st, 0, [])
        return runner, None, inputs

    def post(ex, o, v):
        logs = o.st.log
        logic = [e for e in logs if e[0] == "logic"]
        co = [e for e in logs if e[0] == "coerced"]
        rd = [e[1] for e in logs if e[0] == "required_decision"]
        ri = [e[1] for e in logs if e[0] == "required_input"]
        rk = [e[1] for e in logs if e[0] == "required_knowledge"]
        out = ex.read(o.st, v["_output"].cell, v["_output"].projs).fields[0]
        nent = ex.concrete(out.len)
        props = [("every required decision, input and knowledge model is evaluated exactly once",
                  z3.And(v["n_required_decisions"] == len(rd), v["n_required_inputs"] == len(ri), v["n_required_knowledge"] == len(rk),
                         z3.BoolVal(rd == sorted(set(rd)) and ri == sorted(set(ri))))),
                 ("the logic is evaluated exactly once", z3.BoolVal(len(logic) == 1)),
                 ("the closure returns the decision's output variable name", o.value.e == 900 if isinstance(o.value, Opaque) else z3.BoolVal(False)),
                 ("exactly one result is stored, under the decision's output variable name", z3.BoolVal(nent == 1 and ex.concrete(out.items[0].fields[0].e) == 900))]
        if len(logic) == 1:
            _, depth, ents = logic[0]
            want = sorted([(10 + k, 1000 + k) for k in rd] + [(20 + k, 2000 + k) for k in ri] + [(30, 3000) for _ in rk])
            got = None
            if depth == 1 and ents is not None:
                got = sorted((k_, ex.concrete(val.alts["Number"][0].e) if isinstance(val, En) and "Number" in val.alts else None) for k_, val in ents)
            props.append(("the logic sees ONE context binding exactly the required inputs (type-checked), required decisions and required knowledge - "
                          "no unrelated supplied entry", z3.BoolVal(got == want)))
        if len(co) == 1 and nent == 1 and len(logic) == 1:
            _, ty, arg, res = co[0]
            props.append(("the stored result is the logic's value coerced to the declared output type",
                          z3.BoolVal(out.items[0].fields[1] is res and arg is v["_logic"] and isinstance(ty, Opaque) and ty.e == "declared")))
        else:
            props.append(("the stored result is the logic's value coerced to the declared output type", z3.BoolVal(False)))
        props.append(("reach:full", z3.BoolVal(len(rd) == ND and len(ri) == ND and len(rk) == 1)))
        props.append(("reach:leaf", z3.BoolVal(len(rd) == 0 and len(ri) == 0 and len(rk) == 0)))
        if post_hook is not None:
            props += post_hook(ex, o, v)
        return props

    def desc(m, v):
        return {k: (bool(model_value(m, x)) if k.endswith("_supplied") else model_value(m, x)) for k, x in v.items() if not k.startswith("_")}

    def replay(i, rb):
        """a model with the same requirement shape: the top decision's logic lists what it sees of every name involved; the unrelated
        supplied entry and unsupplied inputs must come out as null, required decisions as their own values"""
        nd, ni, nk = i["n_required_decisions"], i["n_required_inputs"], i["n_required_knowledge"]
        parts, reqs = [], []
        for k in range(nd):
            parts.append('<decision name="d%d" id="_d%d"><variable name="d%d"/><literalExpression><text>%d</text></literalExpression></decision>' % (k, k, k, 1000 + k))
            reqs.append('<informationRequirement><requiredDecision href="#_d%d"/></informationRequirement>' % k)
        for k in range(ni):
            parts.append('<inputData name="in%d" id="_in%d"><variable name="in%d" typeRef="number"/></inputData>' % (k, k, k))
            reqs.append('<informationRequirement><requiredInput href="#_in%d"/></informationRequirement>' % k)
        for k in range(nk):
            parts.append('<businessKnowledgeModel name="k0" id="_k0"><variable name="k0"/><encapsulatedLogic><literalExpression><text>3000</text></literalExpression>'
                         '</encapsulatedLogic></businessKnowledgeModel>')
            reqs.append('<knowledgeRequirement><requiredKnowledge href="#_k0"/></knowledgeRequirement>')
        names = ["d%d" % k for k in range(nd)] + ["in%d" % k for k in range(ni)]
        logic = "[" + ", ".join(names + (["k0()"] if nk else []) + ["unrelated"]) + "]"
        ctx = "{" + ", ".join(["in%d: %d" % (k, 5000 + k) for k in range(ND) if i.get("input%d_supplied" % k) and k < ni] + ["unrelated: 4000"]) + "}"
        want = [str(1000 + k) for k in range(nd)] + [(str(5000 + k) if i.get("input%d_supplied" % k) else "null") for k in range(ni)] + (["3000"] if nk else []) + ["null"]
        notes, bad = [], False
        # variant A: untyped decision, the list of what the logic sees; variant B: the same decision typed `string`: a list does not conform -> null
        for tref in ("", ' typeRef="string"'):
            xml = ('<?xml version="1.0" encoding="UTF-8"?><definitions namespace="https://verif" name="m" id="_m" xmlns="https://www.omg.org/spec/DMN/20191111/MODEL/">'
                   '%s<decision name="top" id="_top"><variable name="top"%s/>%s<literalExpression><text>%s</text></literalExpression></decision></definitions>') % (
                       "".join(parts), tref, "".join(reqs), logic)
            _, out, _ = replay_call(rb, ["model_eval", xml, "top", ctx])
            if not out.startswith("VALUE "):
                bad = bad or out.startswith("PANIC")
                notes.append("replay model: " + out[:100])
                continue
            got = re.sub(r"null\([^)]*\)", "null", out[6:]).replace(" ", "")
            exp = "[" + ",".join(want) + "]" if not tref else "null"
            bad = bad or got != exp
            notes.append("%s -> %s (specified %s)" % ("typed string" if tref else "untyped", out[6:90], exp))
        return bad, "decision over %d decisions, %d inputs, %d knowledge models, logic %s on %s: %s" % (nd, ni, nk, logic, ctx, "; ".join(notes))

    return [lambda c: decide(c, crate, oid, setup, post, replay_override or replay, rb, unwind=24, describe=desc, max_cex=6, budget_s=900,
                             models=[(re.compile(r"^format$|^std::fmt::format$|^alloc::fmt::format$"), m_format_stub),
                                     (re.compile(r"^<std::slice::Iter<'_, .*> as Iterator>::for_each::<.*>$"), m_for_each)] + SCOPE_MODELS + fv.VALUE_MODELS,
                             need_reach=["reach:full", "reach:leaf"], known_predicates=KNOWN_PRED)]


KNOWN_PRED = {}
