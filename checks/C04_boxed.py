"""C04 — boxed invocations, relations and knowledge models invoked by name compose as the requirement graph says (DESIGN §4 C04).

Three closures / methods of model-evaluator are executed from MIR over oracle sub-evaluators (each returns an arbitrary value and
records the scope it was evaluated in):
  * the evaluator `build_invocation_evaluator` returns (boxed invocation): every binding formula is evaluated exactly once IN THE
    INVOKING SCOPE (simultaneous binding: no formula sees another binding), the called function's body runs on top of the invoking
    scope in ONE context holding exactly the bound parameters, the value is coerced to the function's result type and the scope is
    restored;
  * the evaluator `build_relation_evaluator` returns: every cell is evaluated once in the invoking scope and the value is the list
    of rows, each row the context column name -> cell value;
  * `ModelEvaluator::evaluate_business_knowledge_model` (a knowledge model invoked by name): the body runs in a scope of ONE context
    holding the formal parameters that the caller supplied (bound to the supplied values) and what the knowledge model's own
    evaluator delivered - and nothing else: a supplied entry that is not a formal parameter has no influence."""
import re

import z3

from vcommon import *  # noqa
from mcheck import MirCrate, decide, model_value
from mir.sym import Adt, En, FnV, Opaque, Outcome, Ref, Sc, StrV, VecV, UNIT, mk_bool, mk_int, none, some
from mir.models import deref, m_format_stub, R
from mir.parser import MirUnsupported
import feelvals as fv
from checks.C13 import closure_captures, SCOPE_MODELS, scope_value, scope_unchanged
from checks.C11_output import m_for_each


def jobs_for(check, mirror, rb, crate, U, jobs, tier):
    NUM, CTX, LIST, FD = U.idx("Number"), U.idx("Context"), U.idx("List"), U.idx("FunctionDefinition")
    NB = 2 if tier == "quick" else 3
    check.bounds.append("boxed invocation with 0..%d bindings; relation with 0..2 rows and 0..2 columns; knowledge model invoked by name with 0..2 formal parameters, each supplied or not, "
                        "plus one supplied entry that is no parameter; all values arbitrary" % NB)
    check.assumptions.append("boxed expressions: sub-evaluators (binding formulas, called function, cells, function body) are oracles that return arbitrary values and record the scope they see; "
                             "FeelType::coerced is a recorder (C16); FeelContext and Scope are the real code")
    MODELS = [(re.compile(r"^format$|^std::fmt::format$|^alloc::fmt::format$"), m_format_stub),
              (re.compile(r"^<std::slice::Iter<'_, .*> as Iterator>::for_each::<.*>$"), m_for_each)] + SCOPE_MODELS + fv.VALUE_MODELS

    def num(k):
        return En("Value", z3.IntVal(NUM), {"Number": (Opaque("FeelNumber", z3.IntVal(k)),)})

    def scope_shape(ex, st, sref):
        sc = ex.read(st, sref.cell, sref.projs)
        vec = sc.fields[0]
        n = ex.concrete(vec.len)
        return n, vec

    def ctx_entries(ex, ctx):
        mp = ctx.fields[0]
        n = ex.concrete(mp.len)
        if n is None:
            return None
        return [(ex.concrete(e.fields[0].e), e.fields[1]) for e in mp.items[:n]]

    def m_coerced(ex, st, callee, a, dest_ty):
        ty, v = deref(ex, st, a[0]), deref(ex, st, a[1])
        res = En("Value", z3.IntVal(U.idx("Irrelevant")), {"Irrelevant": ()})
        st.log.append(("coerced", ty, v, res))
        yield st, res

    # ------------------------------------------------------------------------------------------------ boxed invocation
    def setup_inv(ex, st):
        sref, ctxs = scope_value(ex, st, 1)
        nb = ex.fresh_int(st, "usize", "n_bindings", constrain=False)
        ex.assume(st, z3.And(nb.e >= 0, nb.e <= NB))
        is_fn = z3.Bool(ex.fresh_name("callee_is_function"))
        body_result = U.fresh(ex, st, 0, "body", kinds=["Number", "Null", "Boolean"])
        inputs = dict(n_bindings=nb.e, callee_is_function=is_fn, _sref=sref, _ctxs=ctxs, _body=body_result)

        def binding_eval(k):
            def cb(ex, st, argv):
                n, vec = scope_shape(ex, st, sref)
                same = n == len(ctxs) and all(a is b for a, b in zip(vec.items[:n], ctxs))
                st.log.append(("binding", k, n, same))
                yield st, num(500 + k)
            return FnV("@model", (cb,))

        def fn_eval():
            def cb(ex, st, argv):
                n, vec = scope_shape(ex, st, sref)
                st.log.append(("callee", n))
                fd = En("Value", z3.If(is_fn, z3.IntVal(FD), z3.IntVal(NUM)),
                        {"FunctionDefinition": (VecV(z3.IntVal(0), (), "param"), Opaque("FunctionBody"), Opaque("FeelType", "result")), "Number": (Opaque("FeelNumber", z3.IntVal(1)),)})
                yield st, fd
            return FnV("@model", (cb,))

        def m_body(ex, st, callee, a, dest_ty):
            n, vec = scope_shape(ex, st, sref)
            under = n == len(ctxs) + 1 and all(x is y for x, y in zip(vec.items[:len(ctxs)], ctxs))
            ents = ctx_entries(ex, vec.items[n - 1]) if n else None
            st.log.append(("body", under, ents))
            yield st, body_result
        caps = closure_captures(crate, "builders::build_invocation_evaluator")
        if sorted(caps) != ["bindings", "function_evaluator"]:
            raise MirUnsupported("build_invocation_evaluator's closure captures %s, the obligation knows ['bindings', 'function_evaluator']" % caps)

        def runner(ex, st):
            ex.models[:0] = [(re.compile(r"^(dmntk_feel::)?FeelType::coerced$"), m_coerced), (re.compile(r"^(dmntk_feel::)?FunctionBody::evaluate$"), m_body)]
            for st1, k in ex.enum_values(st, nb.e, limit=NB + 2):
                items = [Adt("tuple", None, (Opaque("Name", z3.IntVal(700 + j)), Ref(ex.new_cell(st1, binding_eval(j), "box")))) for j in range(k)]
                vals = {"bindings": VecV(z3.IntVal(k), items, "binding"), "function_evaluator": Ref(ex.new_cell(st1, fn_eval(), "box"))}
                env = Ref(ex.new_cell(st1, Adt("closure", "build_invocation_evaluator", [vals[c] for c in caps]), "env"))
                st1.log.append(("shape", k))
                yield from ex.run("builders::build_invocation_evaluator::{closure#0}", [env, sref], st1)
        return runner, None, inputs

    def post_inv(ex, o, v):
        k = [e for e in o.st.log if e[0] == "shape"][0][1]
        binds = [e for e in o.st.log if e[0] == "binding"]
        bodies = [e for e in o.st.log if e[0] == "body"]
        co = [e for e in o.st.log if e[0] == "coerced"]
        r = o.value
        props = [("the invoking scope is restored", scope_unchanged(ex, o.st, v["_sref"], v["_ctxs"])),
                 ("every binding formula is evaluated in the invoking scope itself: no formula sees another binding",
                  z3.BoolVal(all(b[3] for b in binds))),
                 ("every binding formula is evaluated at most once", z3.BoolVal(len(set(b[1] for b in binds)) == len(binds))),
                 ("a callee that is no function gives null and its body is not run", z3.Implies(z3.Not(v["callee_is_function"]), z3.And(r.disc == U.idx("Null"), z3.BoolVal(not bodies))))]
        if bodies:
            _, under, ents = bodies[0]
            okb = under and ents is not None and sorted(e[0] for e in ents) == [700 + j for j in range(k)] and \
                all(isinstance(val, En) and "Number" in val.alts and ex.concrete(val.alts["Number"][0].e) == name - 200 for name, val in ents) and len(binds) == k
            props.append(("the function body runs on top of the invoking scope in ONE context holding exactly the bound parameters, each bound to its own formula's value", z3.BoolVal(bool(okb))))
            props.append(("the value is the body's value coerced to the function's result type",
                          z3.BoolVal(len(bodies) == 1 and len(co) == 1 and co[0][2] is v["_body"] and r is co[0][3] and isinstance(co[0][1], Opaque) and co[0][1].e == "result")))
        props.append(("reach:two bindings", z3.And(v["callee_is_function"], z3.BoolVal(k >= 2 and bool(bodies)))))
        return props

    def replay_inv(i, rb):
        """Surplus(gain, loss) = gain - loss, invoked with gain := loss, loss := gain on {gain: 100, loss: 30}: simultaneous binding gives -70"""
        hdr = '<?xml version="1.0" encoding="UTF-8"?><definitions namespace="https://verif" name="m" id="_m" xmlns="https://www.omg.org/spec/DMN/20191111/MODEL/">'
        xml = (hdr + '<inputData name="gain" id="_g"><variable name="gain" typeRef="number"/></inputData><inputData name="loss" id="_l"><variable name="loss" typeRef="number"/></inputData>'
               '<businessKnowledgeModel name="Surplus" id="_s"><variable name="Surplus"/><encapsulatedLogic><formalParameter name="gain" typeRef="number"/><formalParameter name="loss" typeRef="number"/>'
               '<literalExpression><text>gain - loss</text></literalExpression></encapsulatedLogic></businessKnowledgeModel>'
               '<decision name="d" id="_d"><variable name="d"/><informationRequirement><requiredInput href="#_g"/></informationRequirement><informationRequirement><requiredInput href="#_l"/></informationRequirement>'
               '<knowledgeRequirement><requiredKnowledge href="#_s"/></knowledgeRequirement>'
               '<invocation><literalExpression><text>Surplus</text></literalExpression>'
               '<binding><parameter name="gain"/><literalExpression><text>loss</text></literalExpression></binding>'
               '<binding><parameter name="loss"/><literalExpression><text>gain</text></literalExpression></binding></invocation></decision></definitions>')
        _, out, _ = replay_call(rb, ["model_eval", xml, "d", "{gain: 100, loss: 30}"])
        return out.strip() != "VALUE -70", "Surplus(gain, loss) = gain - loss invoked with gain := loss, loss := gain on {gain: 100, loss: 30} -> %s, specified -70" % out[:60]
    jobs.append(lambda c: decide(c, crate, "boxed/invocation", setup_inv, post_inv, replay_inv, rb, models=MODELS, unwind=16,
                                 describe=lambda m, v: {"n_bindings": model_value(m, v["n_bindings"]), "callee_is_function": bool(model_value(m, v["callee_is_function"]))},
                                 need_reach=["reach:two bindings"], max_cex=2, budget_s=600))

    # ------------------------------------------------------------------------------------------------ relation
    def setup_rel(ex, st):
        sref, ctxs = scope_value(ex, st, 1)
        nr = ex.fresh_int(st, "usize", "n_rows", constrain=False)
        nc = ex.fresh_int(st, "usize", "n_columns", constrain=False)
        ex.assume(st, z3.And(nr.e >= 0, nr.e <= 2, nc.e >= 0, nc.e <= 2))
        inputs = dict(n_rows=nr.e, n_columns=nc.e, _sref=sref, _ctxs=ctxs)

        def cell_eval(r, c):
            def cb(ex, st, argv):
                n, vec = scope_shape(ex, st, sref)
                same = n == len(ctxs) and all(a is b for a, b in zip(vec.items[:n], ctxs))
                st.log.append(("cell", r, c, same))
                yield st, num(100 * (r + 1) + c)
            return FnV("@model", (cb,))
        caps = closure_captures(crate, "builders::build_relation_evaluator")
        if caps != ["rows"]:
            raise MirUnsupported("build_relation_evaluator's closure captures %s, the obligation knows ['rows']" % caps)

        def runner(ex, st):
            for st1, r in ex.enum_values(st, nr.e, limit=4):
                for st2, c in ex.enum_values(st1, nc.e, limit=4):
                    rows = [VecV(z3.IntVal(c), [Adt("tuple", None, (Opaque("Name", z3.IntVal(800 + j)), Ref(ex.new_cell(st2, cell_eval(i, j), "box")))) for j in range(c)], "cell") for i in range(r)]
                    env = Ref(ex.new_cell(st2, Adt("closure", "build_relation_evaluator", [VecV(z3.IntVal(r), rows, "row")]), "env"))
                    st2.log.append(("shape", r, c))
                    yield from ex.run("builders::build_relation_evaluator::{closure#0}", [env, sref], st2)
        return runner, None, inputs

    def post_rel(ex, o, v):
        _, r, c = [e for e in o.st.log if e[0] == "shape"][0]
        cells = [e for e in o.st.log if e[0] == "cell"]
        res = o.value
        okv = isinstance(res, En) and ex.concrete(res.disc) == LIST
        if okv:
            vec = res.alts["List"][0].fields[0]
            okv = ex.concrete(vec.len) == r
            for i, row in enumerate(vec.items[:r] if okv else []):
                ents = ctx_entries(ex, row.alts["Context"][0]) if isinstance(row, En) and ex.concrete(row.disc) == CTX else None
                okv = okv and ents is not None and sorted(e[0] for e in ents) == [800 + j for j in range(c)] and \
                    all(isinstance(val, En) and "Number" in val.alts and ex.concrete(val.alts["Number"][0].e) == 100 * (i + 1) + (name - 800) for name, val in ents)
        return [("the invoking scope is untouched", scope_unchanged(ex, o.st, v["_sref"], v["_ctxs"])),
                ("every cell is evaluated exactly once, in the invoking scope", z3.BoolVal(sorted((e[1], e[2]) for e in cells) == [(i, j) for i in range(r) for j in range(c)] and all(e[3] for e in cells))),
                ("the value is the list of rows, each row the context column name -> that row's cell value", z3.BoolVal(bool(okv))),
                ("reach:2x2", z3.BoolVal(r == 2 and c == 2))]

    def replay_rel(i, rb):
        hdr = '<?xml version="1.0" encoding="UTF-8"?><definitions namespace="https://verif" name="m" id="_m" xmlns="https://www.omg.org/spec/DMN/20191111/MODEL/">'
        xml = (hdr + '<decision name="d" id="_d"><variable name="d"/><relation><column name="a"/><column name="b"/>'
               '<row><literalExpression><text>1</text></literalExpression><literalExpression><text>2</text></literalExpression></row>'
               '<row><literalExpression><text>3</text></literalExpression><literalExpression><text>4</text></literalExpression></row></relation></decision></definitions>')
        _, out, _ = replay_call(rb, ["model_eval", xml, "d", "{}"])
        want = "VALUE [{a: 1, b: 2}, {a: 3, b: 4}]"
        return out.strip() != want, "relation (a, b) with rows (1, 2), (3, 4) -> %s, specified %s" % (out[:80], want[6:])
    jobs.append(lambda c: decide(c, crate, "boxed/relation", setup_rel, post_rel, replay_rel, rb, models=MODELS, unwind=16,
                                 describe=lambda m, v: {"n_rows": model_value(m, v["n_rows"]), "n_columns": model_value(m, v["n_columns"])}, need_reach=["reach:2x2"], max_cex=2, budget_s=600))

    # ------------------------------------------------------------------------------------------------ knowledge model invoked by name
    def setup_bkm(ex, st):
        npar = ex.fresh_int(st, "usize", "n_parameters", constrain=False)
        ex.assume(st, z3.And(npar.e >= 0, npar.e <= 2))
        supplied = [z3.Bool(ex.fresh_name("parameter%d_supplied" % k)) for k in range(2)]
        body_result = U.fresh(ex, st, 0, "body", kinds=["Number", "Null", "Boolean"])
        inputs = dict(n_parameters=npar.e, _body=body_result)
        for k in range(2):
            inputs["parameter%d_supplied" % k] = supplied[k]
        params = [Adt("tuple", None, (Opaque("Name", z3.IntVal(20 + k)), Opaque("FeelType", ("param", k)))) for k in range(2)]
        out_name = Opaque("Name", z3.IntVal(900))
        me = Ref(ex.new_cell(st, Opaque("ModelEvaluator"), "me"))

        def m_registry(ex, st, callee, args, dest_ty):
            yield st, En("Result", z3.IntVal(0), {"Ok": (Ref(ex.new_cell(st, Opaque("Registry", callee.rsplit("::", 1)[1]), "guard")),)})

        def m_guard_deref(ex, st, callee, args, dest_ty):
            yield st, args[0]

        def m_bkm_evaluate(ex, st, callee, args, dest_ty):
            """the knowledge model's own evaluator: stores the function definition under the output variable name, and one required knowledge entry"""
            ctx = args[4]
            fd = En("Value", z3.IntVal(FD), {"FunctionDefinition": (VecV(npar.e, params, "param"), Opaque("FunctionBody"), Opaque("FeelType", "result"))})
            for o in ex.run("FeelContext::set_entry", [ctx, Ref(ex.new_cell(st, out_name, "name")), fd], st):
                if o.kind != "return":
                    yield o
                    continue
                for o2 in ex.run("FeelContext::set_entry", [ctx, Ref(ex.new_cell(o.st, Opaque("Name", z3.IntVal(950)), "name")), num(9500)], o.st):
                    if o2.kind != "return":
                        yield o2
                    else:
                        yield o2.st, UNIT

        def m_body(ex, st, callee, a, dest_ty):
            sc = deref(ex, st, a[1])
            vec = sc.fields[0]
            n = ex.concrete(vec.len)
            ents = ctx_entries(ex, vec.items[0]) if n == 1 else None
            st.log.append(("body", n, ents))
            yield st, body_result

        def runner(ex, st):
            ex.models[:0] = [(re.compile(r"^ModelEvaluator::business_knowledge_model_evaluator$"), m_registry),
                             (re.compile(r"^<std::sync::RwLockReadGuard<'_, .*> as Deref>::deref$"), m_guard_deref),
                             (re.compile(r"^(builders::business_knowledge_model::)?BusinessKnowledgeModelEvaluator::evaluate$"), m_bkm_evaluate),
                             (re.compile(r"^(dmntk_feel::)?FeelType::coerced$"), m_coerced), (re.compile(r"^(dmntk_feel::)?FunctionBody::evaluate$"), m_body)]
            # the supplied context: the formal parameters (each present or not) and one entry that is no parameter, in key order
            for flags in ((False, False), (True, False), (False, True), (True, True)):
                cond = z3.And([supplied[k] if flags[k] else z3.Not(supplied[k]) for k in range(2)])
                for st1 in ex.branch(st, cond):
                    ents = [Adt("tuple", None, (Opaque("Name", z3.IntVal(20 + k)), num(500 + k))) for k in range(2) if flags[k]]
                    ents.append(Adt("tuple", None, (Opaque("Name", z3.IntVal(99)), num(599))))
                    input_data = Ref(ex.new_cell(st1, Adt("struct", "FeelContext", (fv.MapV(z3.IntVal(len(ents)), ents, "kv"),)), "input"))
                    st1.log.append(("supplied", flags))
                    yield from ex.run("ModelEvaluator::evaluate_business_knowledge_model", [me, StrV(None, id=z3.IntVal(1)), input_data, Ref(ex.new_cell(st1, out_name, "out"))], st1)
        return runner, None, inputs

    def post_bkm(ex, o, v):
        flags = [e for e in o.st.log if e[0] == "supplied"][0][1]
        bodies = [e for e in o.st.log if e[0] == "body"]
        co = [e for e in o.st.log if e[0] == "coerced"]
        m = ex.solver.model() if ex.check() == z3.sat else None
        k = m.eval(v["n_parameters"], model_completion=True).as_long() if m is not None else -1
        props = [("the body of the knowledge model is evaluated exactly once", z3.BoolVal(len(bodies) == 1))]
        if len(bodies) == 1:
            _, n, ents = bodies[0]
            want = sorted([20 + j for j in range(k) if flags[j]] + [900, 950])
            okb = n == 1 and ents is not None and sorted(e[0] for e in ents) == want and \
                all(not (20 <= name < 30) or (isinstance(val, En) and "Number" in val.alts and ex.concrete(val.alts["Number"][0].e) == 480 + name) for name, val in ents)
            props.append(("the body sees ONE context: the supplied formal parameters bound to the supplied values, and what the knowledge model's evaluator delivered - no other supplied entry",
                          z3.And(v["n_parameters"] == k, z3.BoolVal(bool(okb)))))
            props.append(("the value is the body's value coerced to the declared result type", z3.BoolVal(len(co) == 1 and co[0][2] is v["_body"] and o.value is co[0][3])))
        props.append(("reach:two parameters supplied", z3.BoolVal(k == 2 and all(flags))))
        props.append(("reach:a parameter not supplied", z3.BoolVal(k == 2 and not all(flags))))
        return props

    def replay_bkm(i, rb):
        hdr = '<?xml version="1.0" encoding="UTF-8"?><definitions namespace="https://verif" name="m" id="_m" xmlns="https://www.omg.org/spec/DMN/20191111/MODEL/">'
        xml = (hdr + '<businessKnowledgeModel name="Scale" id="_s"><variable name="Scale"/><encapsulatedLogic><formalParameter name="x" typeRef="number"/>'
               '<literalExpression><text>if factor = null then x else x * factor</text></literalExpression></encapsulatedLogic></businessKnowledgeModel></definitions>')
        _, out, _ = replay_call(rb, ["model_eval", xml, "Scale", "{x: 7, factor: 100}"])
        return out.strip() != "VALUE 7", "Scale(x) = if factor = null then x else x * factor, invoked by name with {x: 7, factor: 100} -> %s, specified 7 (factor is no parameter)" % out[:60]
    jobs.append(lambda c: decide(c, crate, "invocable/business_knowledge_model", setup_bkm, post_bkm, replay_bkm, rb, models=MODELS, unwind=16,
                                 describe=lambda m, v: {k_: (bool(model_value(m, x)) if k_.endswith("supplied") else model_value(m, x)) for k_, x in v.items() if not k_.startswith("_")},
                                 need_reach=["reach:two parameters supplied", "reach:a parameter not supplied"], max_cex=2, budget_s=600))
