"""C05 — totality: no panic, whichever way the build treats arithmetic overflow (DESIGN §4 C05) — kernels, not the pipeline.

Engine M: every `assert` terminator and every panicking std call on a path of an encoded kernel is a panic obligation
("unreachable for all inputs"), decided on two MIR dumps: -C overflow-checks=on (arithmetic asserts present) and =off
(arithmetic wraps; the consequence — an out-of-range slice index or Vec position — must still not panic).
"""
import re

import z3

from vcommon import *  # noqa
from mcheck import MirCrate, decide, run_parallel, model_value
from mir.sym import Adt, En, FnV, Opaque, Outcome, Ref, Sc, StrV, VecV, UNIT, mk_bool, mk_int, none, some, ok
from mir.models import deref, m_format_stub, R, _base_ref
from mir.parser import MirUnsupported
import feelvals as fv
import numvals as nv

ENGINE = "M (MIR -> SMT, z3): panic obligations on kernels, overflow-checks on and off"


# --- extra container models for position arithmetic (list contents are irrelevant: only lengths matter) -------------------


def m_vec_index_range(ex, st, callee, args, dest_ty):
    r = _base_ref(ex, st, args[0])
    v = deref(ex, st, r)
    rng = args[1]
    kind = re.search(r"Index<(?:std::ops::)?(RangeFrom|RangeTo|Range)<usize>>", callee).group(1)
    lo = rng.fields[0].e if kind in ("RangeFrom", "Range") else z3.IntVal(0)
    hi = rng.fields[-1].e if kind in ("RangeTo", "Range") else v.len
    bad = z3.Or(lo > hi, hi > v.len)
    for st2 in ex.branch(st, bad):
        yield Outcome("panic", st2, msg="slice index out of range (%s)" % callee)
    for st2 in ex.branch(st, z3.Not(bad)):
        yield st2, Ref(ex.new_cell(st2, VecV(z3.simplify(hi - lo), (), v.elem_ty), "subslice"))


def m_to_vec(ex, st, callee, args, dest_ty):
    yield st, deref(ex, st, args[0])


def m_vec_insert(ex, st, callee, args, dest_ty):
    r = _base_ref(ex, st, args[0])
    v = deref(ex, st, r)
    i = args[1]
    for st2 in ex.branch(st, i.e > v.len):
        yield Outcome("panic", st2, msg="Vec::insert: insertion index is out of bounds")
    for st2 in ex.branch(st, i.e <= v.len):
        ex.write(st2, r.cell, r.projs, VecV(z3.simplify(v.len + 1), (), v.elem_ty))
        yield st2, UNIT


def m_vec_remove(ex, st, callee, args, dest_ty):
    r = _base_ref(ex, st, args[0])
    v = deref(ex, st, r)
    i = args[1]
    for st2 in ex.branch(st, i.e >= v.len):
        yield Outcome("panic", st2, msg="Vec::remove: removal index is out of bounds")
    for st2 in ex.branch(st, i.e < v.len):
        ex.write(st2, r.cell, r.projs, VecV(z3.simplify(v.len - 1), (), v.elem_ty))
        yield st2, Opaque("Value")


def m_chars_count(ex, st, callee, args, dest_ty):
    it = args[0]
    yield st, Sc(it.info, "usize")


def m_str_chars(ex, st, callee, args, dest_ty):
    s = deref(ex, st, args[0])
    yield st, Opaque("Chars", info=s.attrs["nchars"])


def m_chars_adapt(ex, st, callee, args, dest_ty):
    yield st, args[0]


def m_collect_string(ex, st, callee, args, dest_ty):
    yield st, StrV(None, id=z3.Int(ex.fresh_name("substr")), nchars=z3.Int(ex.fresh_name("n")))


POS_MODELS = [
    (R(r"^<(Vec<.*>|\[.*\]) as Index<(std::ops::)?Range(From|To)?<usize>>>::index$"), m_vec_index_range),
    (R(r"^(core|std)::slice::<impl \[.*\]>::to_vec$|^<\[.*\] as ToOwned>::to_owned$"), m_to_vec),
    (R(r"^Vec::<.*>::insert$"), m_vec_insert),
    (R(r"^Vec::<.*>::remove$"), m_vec_remove),
    (R(r"^core::str::<impl str>::chars$"), m_str_chars),
    (R(r"^<Chars<'_> as Iterator>::count$"), m_chars_count),
    (R(r"^<(std::iter::)?(Chars<'_>|Skip<.*>|Take<.*>) as Iterator>::(skip|take)$"), m_chars_adapt),
    (R(r"^<(std::iter::)?(Chars<'_>|Skip<.*>|Take<.*>) as Iterator>::collect::<(std::string::)?String>$"), m_collect_string),
    (R(r"^format$|^std::fmt::format$|^alloc::fmt::format$"), m_format_stub),
]


def list_value(ex, st, U, hint):
    n = ex.fresh_int(st, "usize", hint + "_len")   # any length a Vec can have
    ex.assume(st, n.e <= (1 << 63) - 1)             # Vec's capacity limit (isize::MAX bytes is even smaller)
    v = En("Value", z3.IntVal(U.idx("List")), {"List": (Adt("struct", "Values", (VecV(n.e, (), "Value"),)),)})
    return v, n.e


def number_value(ex, st, U, hint):
    n = nv.fresh_number(ex, st, hint)
    return En("Value", z3.IntVal(U.idx("Number")), {"Number": (n,)}), n


def run(check, mirror, tier):
    rb = replay_build(mirror)
    U = fv.Universe(mirror)
    check.bounds += ["list built-ins: list of ANY length (the length is an unconstrained usize up to Vec's capacity limit), position/length arguments any "
                     "number (integers of any magnitude and non-integers); strings of any character count",
                     "duration literals: capture groups of 1, 10, 19 and 20 digits (values up to 10^20-1, beyond u64)",
                     "for-ranges: start anywhere in isize, end within one step of start (loop bodies unrolled 3 times)",
                     "substring before / after: strings of 0..3 (thorough 4) symbolic Unicode scalar values, match strings of 0..2, each 1..4 UTF-8 bytes"]
    check.assumptions += ["FeelNumber by its floor/integrality contract (lib/numvals.py); list and string contents are irrelevant to the index arithmetic and left abstract",
                          "regex capture groups as in C14"]
    jobs = []
    for oc in (True, False):
        tag = "checked" if oc else "wrapping"
        crate = MirCrate(mirror, ["feel-evaluator", "feel"], overflow_checks=oc)
        MODELS = POS_MODELS + nv.NUM_MODELS + fv.VALUE_MODELS

        def desc(m, inputs):
            return {k: model_value(m, v) for k, v in inputs.items() if not k.startswith("_")}

        def small(inputs):
            c = []
            for k, v in inputs.items():
                if k.endswith("_len"):
                    c.append(v <= 6)
            return z3.And(c) if c else z3.BoolVal(True)

        def no_post(ex, o, inputs):
            return []

        # --- list position built-ins -------------------------------------------------------------------------------------
        def mk_bif(fn, nnum, with_item=False, crate=crate, tag=tag, MODELS=MODELS):
            def setup(ex, st):
                lst, n = list_value(ex, st, U, "list")
                inputs = {"list_len": n}
                args = [Ref(ex.new_cell(st, lst))]
                for i in range(nnum):
                    v, num = number_value(ex, st, U, "arg%d" % i)
                    inputs["arg%d_floor" % i], inputs["arg%d_isint" % i] = num.e, num.info["int"]
                    args.append(Ref(ex.new_cell(st, v)))
                if with_item:
                    args.append(Ref(ex.new_cell(st, En("Value", z3.IntVal(U.idx("Null")), {"Null": (none(),)}))))
                return fn, args, inputs
            jobs.append(lambda c: decide(c, crate, "no_panic/%s/%s" % (fn, tag), setup, no_post, lambda i, rb: replay_bif(fn, i, rb), rb,
                                         models=MODELS, describe=desc, prefer=small, budget_s=600, min_paths=1, timeout_ms=20000,
                                         known_predicates=KNOWN_PRED))
        mk_bif("sublist2", 1)
        mk_bif("sublist3", 2)
        mk_bif("remove", 1)
        mk_bif("insert_before", 1, with_item=True)

        # --- substring --------------------------------------------------------------------------------------------------------
        def setup_substring(ex, st):
            nch = ex.fresh_int(st, "usize", "string_len")
            ex.assume(st, nch.e <= (1 << 63) - 1)
            s = En("Value", z3.IntVal(U.idx("String")), {"String": (StrV(None, id=z3.IntVal(1), nchars=nch.e),)})
            v1, n1 = number_value(ex, st, U, "start")
            v2, n2 = number_value(ex, st, U, "length")
            inputs = {"string_len": nch.e, "arg0_floor": n1.e, "arg0_isint": n1.info["int"], "arg1_floor": n2.e, "arg1_isint": n2.info["int"]}
            return "substring", [Ref(ex.new_cell(st, s)), Ref(ex.new_cell(st, v1)), Ref(ex.new_cell(st, v2))], inputs
        jobs.append(lambda c, crate=crate, tag=tag, MODELS=MODELS: decide(
            c, crate, "no_panic/substring/%s" % tag, setup_substring, no_post, lambda i, rb: replay_bif("substring", i, rb), rb, models=MODELS,
            describe=desc, prefer=lambda inp: inp["string_len"] <= 6, budget_s=600, min_paths=1, timeout_ms=20000, known_predicates=KNOWN_PRED))

        # --- string built-ins that slice at byte offsets (strings as sequences of symbolic scalar values, lib/charseq.py) -----------------
        import charseq as cs
        NS = 3 if tier == "quick" else 4

        def mk_strfn(fn, crate=crate, tag=tag, MODELS=MODELS):
            def setup(ex, st):
                s, n, cps = cs.fresh_string(ex, st, "string", NS)
                m, nm, mcps = cs.fresh_string(ex, st, "match", 2)
                sv = En("Value", z3.IntVal(U.idx("String")), {"String": (s,)})
                mv = En("Value", z3.IntVal(U.idx("String")), {"String": (m,)})
                return fn, [Ref(ex.new_cell(st, sv)), Ref(ex.new_cell(st, mv))], {"string_chars": n, "match_chars": nm, "_string": cps, "_match": mcps}

            def desc_s(m, inputs):
                d = {k: model_value(m, v) for k, v in inputs.items() if not k.startswith("_")}
                d["string"] = [model_value(m, c.e) for c in inputs["_string"][:d["string_chars"]]]
                d["match"] = [model_value(m, c.e) for c in inputs["_match"][:d["match_chars"]]]
                return d

            def pref(inputs):
                return z3.And([z3.Or([c.e == r for r in cs.REPR]) for c in inputs["_string"] + inputs["_match"]])
            jobs.append(lambda c: decide(c, crate, "no_panic/%s/%s" % (fn, tag), setup, no_post,
                                         lambda i, rb: cs.replay_str(fn.replace("_", " "), i, rb), rb, models=cs.STR_MODELS + MODELS, describe=desc_s,
                                         prefer=pref, budget_s=600, min_paths=2, timeout_ms=20000, known_predicates=KNOWN_PRED, unwind=16))
        mk_strfn("substring_after")
        mk_strfn("substring_before")

        # --- for-range near the ends of isize ---------------------------------------------------------------------------------------
        def setup_range(ex, st):
            itcell = ex.new_cell(st, Adt("struct", "FeelIterator", (VecV(z3.IntVal(0), (), "FeelIteratorState"),)), "iter")
            a = ex.fresh_int(st, "isize", "start")
            b = ex.fresh_int(st, "isize", "end")
            ex.assume(st, z3.And(b.e - a.e <= 1, a.e - b.e <= 1))
            handler = FnV("@model", (lambda ex, st, argv: iter([(st, UNIT)]),))

            def runner(ex, st):
                for o in ex.run("FeelIterator::add_range", [Ref(itcell), Opaque("Name", z3.IntVal(0)), a, b], st):
                    if o.kind != "return":
                        yield o
                    else:
                        yield from ex.run("FeelIterator::run", [Ref(itcell), handler], o.st)
            return runner, None, {"start": a.e, "end": b.e}
        jobs.append(lambda c, crate=crate, tag=tag, MODELS=MODELS: decide(
            c, crate, "no_panic/for_range/%s" % tag, setup_range, no_post, replay_range, rb, models=MODELS, describe=desc, unwind=24,
            budget_s=600, min_paths=1, timeout_ms=20000, known_predicates=KNOWN_PRED))

        # --- duration literals ----------------------------------------------------------------------------------------------------------
        from checks import C14 as c14
        for ky, km in ((1, 1), (19, 19), (20, 1), (1, 20), (10, 10)):
            def setup_ym(ex, st, ky=ky, km=km):
                v, g = {}, {}
                v["years"], g["years"] = c14.digits(ex, st, "years", ky)
                v["months"], g["months"] = c14.digits(ex, st, "months", km)
                v["has_years"], v["has_months"], v["neg"] = [z3.Bool(ex.fresh_name(n)) for n in ("has_years", "has_months", "neg")]
                g["years"] = (v["has_years"], g["years"])
                g["months"] = (v["has_months"], g["months"])
                g["sign"] = (v["neg"], StrV("-"))
                v["ky"], v["km"] = ky, km

                def cm(ex, st, rx, inp):
                    yield st, some(Opaque("Captures", info=g))
                ex.capture_model = cm
                return "<FeelYearsAndMonthsDuration as TryFrom<&str>>::try_from", [StrV(None, id=z3.IntVal(0))], v
            jobs.append(lambda c, crate=crate, tag=tag, setup_ym=setup_ym, ky=ky, km=km: decide(
                c, crate, "no_panic/ym_duration_literal/%d_%d/%s" % (ky, km, tag), setup_ym, no_post, replay_ym_literal, rb, models=c14.MODELS,
                enums=c14.ENUMS, describe=desc, budget_s=600, min_paths=1, timeout_ms=20000, known_predicates=KNOWN_PRED))
    # --- text -> number: the Rust glue in front of the decimal library must not panic on any text (interior NUL characters) -------------
    import charseq as _cs
    crate_fn = MirCrate(mirror, ["feel-number"], overflow_checks=True, enum_crates=("common",))

    def setup_from_str(ex, st):
        s_, n, cps = _cs.fresh_string(ex, st, "text", 3)
        inputs = dict(n=n, _cps=cps)
        return "<FeelNumber as FromStr>::from_str", [s_], inputs

    def m_cstring_new(ex, st, callee, args, dest_ty):
        """CString::new(text): Err(NulError) iff the text contains a NUL character (std contract)"""
        t = deref(ex, st, args[0]) if isinstance(args[0], Ref) else args[0]
        q = _cs.seq_of(t)
        has_nul = z3.Or([z3.And(q.len > i_, c.e == 0) for i_, c in enumerate(q.items)] + [z3.BoolVal(False)])
        for st2 in ex.branch(st, has_nul):
            yield st2, En("Result", z3.IntVal(1), {"Err": (Opaque("NulError"),)})
        for st2 in ex.branch(st, z3.Not(has_nul)):
            yield st2, En("Result", z3.IntVal(0), {"Ok": (Opaque("CString"),)})
    FFI = [(re.compile(r"^CString::new::<.*>$"), m_cstring_new),
           (re.compile(r"^Result::<CString, NulError>::unwrap_or_default$"), lambda ex, st, c, a, d: iter([(st, Opaque("CString"))])),
           (re.compile(r"^<CString as Deref>::deref$|^CStr::as_ptr$|^<(dec::)?DEFAULT_CONTEXT as Deref>::deref$|^<(dec::)?DecContext as Clone>::clone$"),
            lambda ex, st, c, a, d: iter([(st, Opaque("ffi"))])),
           (re.compile(r"^<(dec::)?DecQuad as Default>::default$"), lambda ex, st, c, a, d: iter([(st, Opaque("DecQuad"))])),
           (re.compile(r"(^|::)decQuadFromString$"), lambda ex, st, c, a, d: iter([(st, Opaque("ptr"))])),
           (re.compile(r"(^|::)dec_is_finite$"), lambda ex, st, c, a, d: iter([(st, ex.fresh_bool("finite"))])),
           (re.compile(r"^format$|^std::fmt::format$|^alloc::fmt::format$"), m_format_stub)]

    def desc_fs(m, v):
        n = model_value(m, v["n"])
        return {"chars": [model_value(m, c.e) for c in v["_cps"][:n]]}

    def replay_fs(i, rb):
        lit = '"' + "".join("\\u%04X" % c if (c < 0x20 or c in (0x22, 0x5C) or c >= 0x7F) and c < 0x10000 else ("\\U%06X" % c if c >= 0x10000 else chr(c)) for c in i["chars"]) + '"'
        _, out, _ = replay_call(rb, ["feel", "number(%s, null, null)" % lit])
        return out.startswith("PANIC"), "number(%s, null, null) -> %s" % (lit, out[:100])
    jobs.append(lambda c: decide(c, crate_fn, "no_panic/number_from_text", setup_from_str, no_post, replay_fs, rb, models=FFI + _cs.STR_MODELS, describe=desc_fs,
                                 min_paths=2, known_predicates=KNOWN_PRED, prefer=lambda v: z3.And([z3.Or(c.e == 0, c.e == 0x31) for c in v["_cps"]])))

    # --- the lexer's scanning loops over the input text terminate: every iteration consumes a character --------------------------------
    import rsenum as _rs
    crate_fp = MirCrate(mirror, ["feel-parser", "feel"], overflow_checks=True)
    lf = _rs.struct_fields(mirror.read("feel-parser/src/lexer.rs"), "Lexer")
    NL = 5
    check.bounds.append("lexer loops: input of 0..%d symbolic characters, cursor at 0; loop bound = input length + 3 visits per block (every iteration must "
                        "consume a character, so a longer run is a candidate non-termination witness, confirmed natively with a time limit)" % NL)

    def lexer_job(fn, prefix, tag="", alphabet=None):
        def setup(ex, st):
            n = ex.fresh_int(st, "usize", "len", constrain=False)
            ex.assume(st, z3.And(n.e >= len(prefix), n.e <= NL))
            chars = []
            for k in range(NL):
                c = ex.fresh_int(st, "char", "c%d" % k, constrain=False)
                ex.assume(st, z3.And(c.e >= 0, c.e <= 0x10FFFF, z3.Or(c.e < 0xD800, c.e > 0xDFFF)))
                if k < len(prefix):
                    ex.assume(st, c.e == ord(prefix[k]))
                elif alphabet:
                    ex.assume(st, z3.Or([c.e == ord(a) for a in alphabet]))
                chars.append(c)
            vals = {"scope": Ref(ex.new_cell(st, Opaque("Scope"), "scope")), "start_token_type": none(), "input": VecV(n.e, chars, "char"),
                    "position": mk_int(0, "usize"), "unary_tests": mk_bool(False), "between": mk_bool(False), "type_name": mk_bool(False), "till_in": mk_bool(False)}
            missing = [f for f in lf if f not in vals]
            if missing:
                raise MirUnsupported("Lexer has fields the model does not know: %s" % missing)
            lx = Ref(ex.new_cell(st, Adt("struct", "Lexer", [vals[f] for f in lf]), "lexer"))
            inputs = dict(len=n.e, _lexer=lx)
            for k in range(NL):
                inputs["c%d" % k] = chars[k].e
            return "Lexer::" + fn, [lx], inputs

        def post(ex, o, v):
            lx = ex.read(o.st, v["_lexer"].cell, v["_lexer"].projs)
            pos = lx.fields[lf.index("position")].e
            return [("the cursor stays inside the input", z3.And(pos >= 0, pos <= v["len"])), ("reach:advanced", pos >= 2)]

        def desc(m, v):
            n = model_value(m, v["len"])
            return {"text": [model_value(m, v["c%d" % k]) for k in range(n)]}

        def prefer(v):
            ok_ = lambda c: z3.Or(c == 0x2A, c == 0x2F, c == 0x20, c == 0x0A, c == 0x61, c == 0x22, c == 0x5C)
            return z3.And([ok_(v["c%d" % k]) for k in range(NL)])

        def replay(i, rb):
            txt = "".join(chr(c) for c in i["text"])
            expr = "1 " + txt if fn != "consume_string" else txt
            import subprocess
            try:
                _, out, _ = replay_call(rb, ["feel", expr], timeout=10)
            except subprocess.TimeoutExpired:
                return True, "parsing %r does not return within 10 s" % expr
            return out.startswith("PANIC"), "parsing %r -> %s" % (expr, out[:100])
        jobs.append(lambda c: decide(c, crate_fp, "termination/lexer_%s%s" % (fn, tag), setup, post, replay, rb, models=c14.MODELS if False else [], unwind=NL + 3,
                                     describe=desc, prefer=prefer, unwound_is_violation=True, need_reach=["reach:advanced"], max_cex=3,
                                     budget_s=600, known_predicates=KNOWN_PRED))
    lexer_job("consume_whitespace", "", alphabet=" \t\n\u00a0\u2003a*/")   # the white space classes are a 20-way match: a representative alphabet
    lexer_job("consume_comment", "/*", "_block")
    lexer_job("consume_comment", "//", "_line")

    # user-defined function invocation with fewer / more arguments than parameters (kernel shared with C01: no panic edge, null instead)
    import checks.C01_ops as ops
    import feelvals as fv_
    crate_fe = MirCrate(mirror, ["feel-evaluator", "feel"], overflow_checks=True)
    ops.jobs_for(check, mirror, rb, crate_fe, None, fv_.Universe(mirror), jobs, tier, KNOWN_PRED, select={"function_positional_job"})
    run_parallel(check, jobs)

    # --- sort(list, precedes): the user-defined ordering function may be ANY function, also one that is no order at all -----------------------
    # std contract (since Rust 1.81): slice::sort_by may panic when the comparator does not implement a total order. The comparator core::sort
    # derives from the FEEL function is a total order only if cmp(a, b) = Less goes with cmp(b, a) = Greater and Equal with Equal.
    check.bounds.append("sort: lists of 0..3 items, the ordering function an oracle answering every (x, y) with an arbitrary Boolean or a non-Boolean")
    check.assumptions.append("sort: slice::sort_by / sort_unstable_by may panic whenever its comparator is not antisymmetric on some pair of items (std contract); a sort the "
                             "repository implements itself is executed from its MIR")

    def sort_job():
        Uv = fv.Universe(mirror)
        NUMI, BOOLI, NULLI, FDI, LISTI = Uv.idx("Number"), Uv.idx("Boolean"), Uv.idx("Null"), Uv.idx("FunctionDefinition"), Uv.idx("List")

        def setup(ex, st):
            n = ex.fresh_int(st, "usize", "list_len", constrain=False)
            ex.assume(st, z3.And(n.e >= 0, n.e <= 3))
            items = [En("Value", z3.IntVal(NUMI), {"Number": (Opaque("FeelNumber", z3.IntVal(100 + k)),)}) for k in range(3)]
            lst = En("Value", z3.IntVal(LISTI), {"List": (Adt("struct", "Values", (VecV(n.e, items, "Value"),)),)})
            params = VecV(z3.IntVal(2), [Adt("tuple", None, (Opaque("Name", z3.IntVal(20 + k)), Opaque("FeelType", ("param", k)))) for k in range(2)], "param")
            fd = En("Value", z3.IntVal(FDI), {"FunctionDefinition": (params, Opaque("FunctionBody"), Opaque("FeelType", "result"))})

            def m_body(ex, st, callee, a, dest_ty):
                k = ex.fresh_int(st, "u8", "answer", constrain=False)    # 0 true, 1 false, 2 no Boolean
                ex.assume(st, z3.And(k.e >= 0, k.e <= 2))
                st.log.append(("asked", k.e))
                yield st, En("Value", z3.If(k.e == 2, z3.IntVal(NULLI), z3.IntVal(BOOLI)), {"Boolean": (Sc(k.e == 0, "bool"),), "Null": (none(),)})

            def m_sort_total(ex, st, callee, args, dest_ty):
                """std's sort_by: fine (and delegated to the insertion-sort model) when the comparator is antisymmetric on every pair, else it may panic"""
                from mir.models import call_fn_value
                r, f = args
                sorted_or_panic.ctx = (callee, args, f)
                base = r
                while isinstance(ex.read(st, base.cell, base.projs), Ref):
                    base = ex.read(st, base.cell, base.projs)
                v0 = ex.read(st, base.cell, base.projs)
                for st_n, nn in ex.enum_values(st, v0.len, limit=len(v0.items) + 2):
                    v = VecV(z3.IntVal(nn), tuple(v0.items[:nn]), v0.elem_ty)
                    ex.write(st_n, base.cell, base.projs, v)
                    yield from sorted_or_panic(st_n, v, nn)

            def sorted_or_panic(st, v, nn, _unused=None):
                from mir.models import call_fn_value
                callee, args, f = sorted_or_panic.ctx

                def pairs(st, todo):
                    if not todo:
                        yield from fv.m_sort_by(ex, st, callee, args, None)
                        return
                    i, j = todo[0]
                    ra, rb_ = Ref(ex.new_cell(st, v.items[i], "cmp")), Ref(ex.new_cell(st, v.items[j], "cmp"))
                    for o1 in call_fn_value(ex, st, f, [ra, rb_]):
                        if o1.kind != "return":
                            yield o1
                            continue
                        for o2 in call_fn_value(ex, o1.st, f, [rb_, ra]):
                            if o2.kind != "return":
                                yield o2
                                continue
                            anti = z3.And((o1.value.disc == -1) == (o2.value.disc == 1), (o1.value.disc == 1) == (o2.value.disc == -1))
                            for st3 in ex.branch(o2.st, z3.Not(anti)):
                                yield Outcome("panic", st3, msg="slice::sort_by with a comparator that is no total order (Less one way, not Greater the other way): the standard library may panic")
                            for st3 in ex.branch(o2.st, anti):
                                yield from pairs(st3, todo[1:])
                yield from pairs(st, [(i, j) for i in range(nn) for j in range(i + 1, nn)])
            models = [(re.compile(r"^(dmntk_feel::)?FunctionBody::evaluate$"), m_body),
                      (re.compile(r"^(core|std)::slice::<impl \[.*\]>::sort(_unstable)?_by::<.*>$"), m_sort_total)]

            def runner(ex, st):
                ex.models[:0] = models
                yield from ex.run("sort", [Ref(ex.new_cell(st, lst, "list")), Ref(ex.new_cell(st, fd, "fn"))], st)
            return runner, None, {"list_len": n.e}

        WITNESS = ("sort([0,17,11,5,22,16,10,4,21,15,9,3,20,14,8,2,19,13,7,1,18,12,6,0,17,11,5,22,16,10,4,21,15,9,3,20,14,8,2,19], "
                   "function(x,y) modulo(x*7,11) < modulo(y*3,11))")

        def replay(i, rb):
            """std detects an inconsistent comparator only on longer inputs: the confirmation uses a 40-item list and an ordering function that is no order"""
            _, out, _ = replay_call(rb, ["feel", WITNESS])
            return out.startswith("PANIC"), "sort of 40 numbers by function(x,y) modulo(x*7,11) < modulo(y*3,11) -> %s" % out[:110]
        crate_s = MirCrate(mirror, ["feel-evaluator", "feel"], overflow_checks=True)
        jobs2.append(lambda c: decide(c, crate_s, "no_panic/sort", setup, no_post, replay, rb, models=SCOPE_MODELS_ + fv.VALUE_MODELS, unwind=40, describe=lambda m, v: {"list_len": model_value(m, v["list_len"])},
                                      min_paths=2, max_cex=1, budget_s=600))
    from checks.C13 import SCOPE_MODELS as SCOPE_MODELS_

    def no_post(ex, o, inputs):
        return []
    jobs2 = []
    sort_job()
    run_parallel(check, jobs2)

    # --- numeric aggregates over lists that mix numbers and nulls at any position: no panic (the obligations C02 decides: a panic on any path is a
    # counterexample there as well; they are run here under this property's name because "never a crash" is this property's statement)
    from checks import C02 as _c02
    saved = getattr(check, "only", None)
    agg = ["finite/%s" % f for f in _c02.BIFL]
    check.only = [a for a in agg if saved is None or any(s_ in "%s/M/%s" % (check.pid, a) for s_ in saved)]
    if check.only:
        _c02.run(check, mirror, tier)
    check.only = saved

    # --- K: the lexer's escape decoding never panics (the harnesses of C06 assert the denoted scalar; a panic fails them too) -----------
    from checks import C06 as c06
    kf = prepare_k_file(check, mirror, "parser_lexer.rs")
    mirror.inject("feel-parser/src/lexer.rs", kf, "verif_k")
    check.bounds.append("K: every pair \\uD8xx..DBxx \\uXXXX of escapes in a string literal (surrogate pairs and their malformed neighbours), unwind 16 with unwinding assertions")
    specs = [dict(harness="k_unicode_surrogates", timeout=2400, unwind=16, decode=c06.dec_pair, replay=c06.replay_escape)]
    if tier == "thorough":
        specs += [dict(harness="k_unicode_bmp", timeout=1500, unwind=8, decode=c06.dec_bmp, replay=c06.replay_escape),
                  dict(harness="k_unicode_long", timeout=2400, unwind=8, decode=c06.dec_long, replay=c06.replay_escape)]
    run_k(check, mirror, "dmntk-feel-parser", specs, par=3, rb=rb)


# ----------------------------------------------------------------------------- native replay (dev profile checks overflow, release wraps)


def num_text(fl, isint):
    return str(fl) if isint else "%d.5" % fl


def replay_bif(fn, i, rb):
    if "list_len" in i and i["list_len"] > 64:
        return False, "needs a list of %d elements" % i["list_len"]
    if "string_len" in i and i["string_len"] > 64:
        return False, "needs a string of %d characters" % i["string_len"]
    nums = []
    k = 0
    while "arg%d_floor" % k in i:
        nums.append(num_text(i["arg%d_floor" % k], i["arg%d_isint" % k]))
        k += 1
    lst = "[" + ",".join(str(x) for x in range(i.get("list_len", 0))) + "]"
    expr = {"sublist2": "sublist(%s, %s)", "sublist3": "sublist(%s, %s, %s)", "remove": "remove(%s, %s)", "insert_before": "insert before(%s, %s, null)",
            "substring": "substring(%s, %s, %s)"}[fn]
    first = lst if fn != "substring" else '"%s"' % ("x" * i.get("string_len", 0))
    expr = expr % tuple([first] + nums)
    _, out, _ = replay_call(rb, ["feel", expr])
    return out.startswith("PANIC"), "%s -> %s" % (expr, out[:120])


def replay_range(i, rb):
    expr = "for i in %d..%d return i" % (i["start"], i["end"])
    _, out, _ = replay_call(rb, ["feel", expr.replace("..-", "..(-").replace("in -", "in (-") if False else expr])
    return out.startswith("PANIC"), "%s -> %s" % (expr, out[:120])


def replay_ym_literal(i, rb):
    lit = ("-" if i["neg"] else "") + "P" + (str(i["years"]).rjust(i["ky"], "0") + "Y" if i["has_years"] else "") + \
          (str(i["months"]).rjust(i["km"], "0") + "M" if i["has_months"] else "")
    _, out, _ = replay_call(rb, ["feel", 'duration("%s")' % lit])
    return out.startswith("PANIC"), 'duration("%s") -> %s' % (lit, out[:120])


KNOWN_PRED = {}
