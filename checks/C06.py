"""C06 — parser precedence / associativity (DESIGN §3, §4 C06).

Engine T realised through engine M: the *real* driver loop `Parser::parse` (feel-parser/src/parser.rs) is executed
symbolically from its MIR over the *real* LALR tables (consts of feel-parser/src/lalr.rs evaluated from MIR), on a
token string whose operator tokens are symbolic.  The lexer is replaced by a token cursor and `lalr::reduce` by a
logger of the rule number (the rule -> action map is read from lalr.rs).  Oracle: the %left/%right/%nonassoc
declarations of feel-grammar/src/feel.y.  Engine K decides the string-literal escape kernels of the lexer.
"""
import re

import z3

from vcommon import *  # noqa
from mcheck import MirCrate, decide, run_parallel
from mir.sym import Adt, En, Opaque, Ref, Sc, StrV, VecV, UNIT, mk_int, mk_bool, ok
from mir.parser import MirUnsupported
import rsenum

ENGINE = "T/M (LALR driver + tables from MIR -> z3) + K (Kani/CBMC lexer kernels)"

OP_TEXT = {"Or": "or", "And": "and", "Eq": "=", "Nq": "!=", "Lt": "<", "Le": "<=", "Gt": ">", "Ge": ">=", "In": "in",
           "Minus": "-", "Plus": "+", "Mul": "*", "Div": "/", "Exp": "**"}


def camel(tok):
    return "".join(p.capitalize() for p in tok.split("_"))


# The precedence and associativity FEEL prescribes (DMN 1.3 §10.3.1.2: the nesting of grammar rules 2-4, i.e. for / if / quantified
# below disjunction below conjunction below comparison below + - below * / below ** below unary minus below instance of below path,
# filter and invocation), written as the declaration lines of the grammar file at the pinned commit.  This - not the working tree's
# feel.y - is the oracle: a change that edits feel.y and the generated tables consistently is still a change of the language.
REFERENCE_PRECEDENCE = """
%precedence RETURN EXTERNAL SATISFIES
%precedence ELSE
%left OR
%left AND
%nonassoc EQ NQ LT LE GT GE
%precedence BETWEEN
%precedence BETWEEN_AND
%right IN
%left MINUS PLUS
%left MUL DIV
%left EXP
%precedence PREC_NEG
%precedence INSTANCE
%precedence NAME NAME_DATE_TIME BUILT_IN_TYPE_NAME
%precedence LEFT_PAREN LEFT_BRACKET
%precedence DOT
"""


def _levels(text):
    prec = {}
    level = 0
    for m in re.finditer(r"^%(left|right|nonassoc|precedence)\s+(.*)$", text, re.M):
        level += 1
        for t in m.group(2).split():
            prec[t] = (level, m.group(1))
    return prec


def read_grammar(mirror):
    """precedence levels: token -> (level, assoc), from the reference declarations (the working tree's feel.y is only compared)"""
    return _levels(REFERENCE_PRECEDENCE)


def grammar_file_differs(mirror):
    return _levels(mirror.read("feel-grammar/src/feel.y")) != _levels(REFERENCE_PRECEDENCE)


def read_rules(mirror):
    """rule number -> (action, grammar text) from lalr::reduce; rules without an action are absent"""
    src = mirror.read("feel-parser/src/lalr.rs")
    body = src[src.index("pub fn reduce("):]
    rules = {}
    for m in re.finditer(r"^\s*(\d+)\s*=>\s*reduce_actions\.(\w+)\(\),\s*//\s*(.*)$", body, re.M):
        rules[int(m.group(1))] = (m.group(2), m.group(3).strip())
    return rules


class Grammar:
    def __init__(self, mirror):
        self.prec = read_grammar(mirror)
        self.rules = read_rules(mirror)
        self.tokens = rsenum.enums_of(mirror.read("feel-parser/src/lalr.rs"))["TokenType"]
        self.tv = rsenum.enums_of(mirror.read("feel-parser/src/lexer.rs"))["TokenValue"]
        self.binary = {}  # token variant -> rule number of `expression TOKEN expression`
        for n, (act, text) in self.rules.items():
            m = re.match(r"^textual_expression: expression ([A-Z_]+) expression$", text)
            if m:
                self.binary[camel(m.group(1))] = n
        self.gram_name = {camel(t): t for t in self.prec}

    def code(self, variant):
        return self.tokens[variant]

    def level(self, variant):
        return self.prec[self.gram_name[variant]]


def parser_value(ex, st, fields_order, tokens):
    """initial Parser struct (as Parser::new leaves it) around a token cursor"""
    lex = Opaque("Lexer", info=0)
    tv_empty = En("TokenValue", z3.IntVal(0), {"YyEmpty": ()})
    vals = {
        "scope": Opaque("Scope"), "input": StrV("<tokens>"), "yy_trace": mk_bool(False), "yy_lexer": lex,
        "yy_char": mk_int(-2, "i16"), "yy_value": tv_empty, "yy_token": mk_int(-2, "i16"), "yy_state": mk_int(0, "usize"),
        "yy_n": mk_int(0, "i16"), "yy_len": mk_int(0, "i16"),
        "yy_state_stack": VecV(z3.IntVal(1), (mk_int(0, "usize"),)),
        "yy_value_stack": VecV(z3.IntVal(1), (tv_empty,)),
        "yy_node_stack": VecV(z3.IntVal(0), ()),
    }
    missing = [f for f in fields_order if f not in vals]
    if missing:
        raise MirUnsupported("Parser struct has fields the token-cursor model does not know: %s" % missing)
    return Adt("struct", "Parser", [vals[f] for f in fields_order])


def make_models(tokens):
    """tokens: list of (code z3 Int, TokenValue En)"""
    def m_next_token(ex, st, callee, args, dest_ty):
        r = args[0]
        lex = ex.read(st, r.cell, r.projs)
        pos = lex.info
        code, val = tokens[min(pos, len(tokens) - 1)]
        ex.write(st, r.cell, r.projs, Opaque("Lexer", info=pos + 1))
        yield st, ok(Adt("tuple", None, (En("TokenType", code, {}), val)))

    def m_reduce(ex, st, callee, args, dest_ty):
        n = ex.concrete(args[1].e)
        if n is None:
            raise MirUnsupported("reduce with a symbolic rule number")
        st.log.append(("reduce", n))
        yield st, ok(UNIT)

    def m_syntax_error(ex, st, callee, args, dest_ty):
        yield st, Opaque("Error", info="accept-without-nodes" if "invalid_parse_result" in callee else "syntax")

    def m_print(ex, st, callee, args, dest_ty):
        yield st, UNIT

    return [(re.compile(r"^Lexer::<'_>::next_token$"), m_next_token),
            (re.compile(r"^lalr::reduce::<Parser<'_>>$"), m_reduce),
            (re.compile(r"^parser::errors::(syntax_error|invalid_parse_result)$"), m_syntax_error),
            (re.compile(r"^std::io::_print$"), m_print)]


# ----------------------------------------------------------------------------- reference precedence parser (oracle)


class RefError(Exception):
    pass


class RefParser:
    """Operator-precedence (Pratt) parser over token variants, driven only by the levels/associativity declared in feel.y.
    Produces the tree and the postorder of its operator nodes = the order in which an LR parser must reduce them."""

    def __init__(self, g, toks):
        self.g, self.toks, self.i = g, toks, 0
        self.post = []
        self.names = iter("abcdefghij")

    def peek(self):
        return self.toks[self.i] if self.i < len(self.toks) else "YyEof"

    def take(self, want=None):
        t = self.peek()
        if want is not None and t != want:
            raise RefError("expected %s, found %s" % (want, t))
        self.i += 1
        return t

    def lvl(self, gram_tok):
        return self.g.prec[gram_tok][0]

    def parse(self):
        t = self.expr(0)
        if self.peek() != "YyEof":
            raise RefError("trailing %s" % self.peek())
        return t

    def expr(self, minl):
        t = self.peek()
        if t == "Name":
            self.take()
            left = ("name", next(self.names))
        elif t == "Minus":
            self.take()
            operand = self.expr(self.lvl("PREC_NEG"))
            left = ("neg", operand)
            self.post.append(("neg",))
        elif t == "LeftParen":
            self.take()
            inner = self.expr(0)
            self.take("RightParen")
            left = ("paren", inner)
        elif t == "If":
            # IF expression THEN expression ELSE expression: the rule has the precedence of ELSE, every operator token binds tighter,
            # so the else branch extends as far to the right as it can
            self.take()
            cond = self.expr(0)
            self.take("Then")
            a = self.expr(0)
            self.take("Else")
            b = self.expr(self.lvl("ELSE"))
            left = ("if", cond, a, b)
            self.post.append(("if",))
        elif t in ("For", "Some", "Every"):
            # FOR NAME IN expression RETURN expression / SOME|EVERY NAME IN expression SATISFIES expression: precedence of RETURN / SATISFIES
            self.take()
            self.take("Name")
            var = next(self.names)
            self.take("In")
            dom = self.expr(self.lvl("IN") + 1)
            kw = "Return" if t == "For" else "Satisfies"
            self.take(kw)
            body = self.expr(self.lvl(kw.upper()))
            left = (t.lower(), var, dom, body)
            self.post.append((t.lower(),))
        else:
            raise RefError("unexpected %s" % t)
        last_nonassoc = None
        while True:
            t = self.peek()
            if t in self.g.binary:
                L, assoc = self.g.level(t)
                if L < minl:
                    break
                if last_nonassoc is not None and L == last_nonassoc:
                    raise RefError("non-associative operators of one level in a row")
                self.take()
                right = self.expr(L if assoc == "right" else L + 1)
                left = ("bin", t, left, right)
                self.post.append(("bin", t))
                last_nonassoc = L if assoc in ("nonassoc", "precedence") else None
                continue
            if t == "Between":
                L = self.lvl("BETWEEN")
                if L < minl:
                    break
                self.take()
                mid = self.expr(0)
                self.take("BetweenAnd")
                right = self.expr(self.lvl("BETWEEN_AND") + 1)
                left = ("between", left, mid, right)
                self.post.append(("between",))
                last_nonassoc = None
                continue
            if t == "Dot":
                if self.lvl("DOT") < minl:
                    break
                self.take()
                self.take("Name")
                left = ("dot", left, next(self.names))
                self.post.append(("dot",))
                continue
            if t == "LeftBracket":
                if self.lvl("LEFT_BRACKET") < minl:
                    break
                self.take()
                inner = self.expr(0)
                self.take("RightBracket")
                left = ("filter", left, inner)
                self.post.append(("filter",))
                continue
            if t == "Instance":
                if self.lvl("INSTANCE") < minl:
                    break
                self.take()
                self.take("Of")
                self.take("BuiltInTypeName")
                left = ("instance", left)
                self.post.append(("instance",))
                continue
            break
        return left


def render(t, full):
    """FEEL text of a reference tree; full=True parenthesises every operator node"""
    k = t[0]
    if k == "name":
        return t[1]
    if k == "paren":
        return "(" + render(t[1], full) + ")"
    w = (lambda s: "(" + s + ")") if full else (lambda s: s)
    if k == "neg":
        return w("-" + render(t[1], full))
    if k == "bin":
        return w("%s %s %s" % (render(t[2], full), OP_TEXT[t[1]], render(t[3], full)))
    if k == "between":
        return w("%s between %s and %s" % (render(t[1], full), render(t[2], full), render(t[3], full)))
    if k == "dot":
        return w("%s.%s" % (render(t[1], full), t[2]))
    if k == "filter":
        return w("%s[%s]" % (render(t[1], full), render(t[2], full)))
    if k == "instance":
        return w("%s instance of number" % render(t[1], full))
    if k == "if":
        return w("if %s then %s else %s" % (render(t[1], full), render(t[2], full), render(t[3], full)))
    if k in ("for", "some", "every"):
        return w("%s %s in %s %s %s" % (k, t[1], render(t[2], full), "return" if k == "for" else "satisfies", render(t[3], full)))
    raise ValueError(k)


def plain_text(toks):
    names = iter("abcdefghij")
    out = []
    for t in toks:
        if t == "Name":
            out.append(next(names))
        elif t in OP_TEXT:
            out.append(OP_TEXT[t])
        else:
            out.append({"Minus": "-", "LeftParen": "(", "RightParen": ")", "Between": "between", "BetweenAnd": "and", "Dot": ".",
                        "LeftBracket": "[", "RightBracket": "]", "Instance": "instance", "Of": "of", "BuiltInTypeName": "number",
                        "If": "if", "Then": "then", "Else": "else", "For": "for", "Some": "some", "Every": "every", "Return": "return",
                        "Satisfies": "satisfies"}[t])
    s = " ".join(out)
    return s.replace(" . ", ".").replace("( ", "(").replace(" )", ")").replace(" [ ", "[").replace(" ]", "]").replace("- ", "-")


TEMPLATES = {
    # S = symbolic binary operator slot
    "pairs": (["Name", "S", "Name", "S", "Name"], "quick"),
    "dot_after": (["Name", "S", "Name", "Dot", "Name", "Dot", "Name"], "quick"),
    "dot_before": (["Name", "Dot", "Name", "S", "Name", "Dot", "Name"], "quick"),
    "neg_first": (["Minus", "Name", "S", "Name"], "quick"),
    "neg_inner": (["Name", "S", "Minus", "Name", "S", "Name"], "quick"),
    "between_right": (["Name", "Between", "Name", "BetweenAnd", "Name", "S", "Name"], "quick"),
    "between_left": (["Name", "S", "Name", "Between", "Name", "BetweenAnd", "Name"], "quick"),
    "between_middle": (["Name", "Between", "Name", "S", "Name", "BetweenAnd", "Name"], "quick"),
    "between_dot": (["Name", "Between", "Name", "BetweenAnd", "Name", "Dot", "Name", "Dot", "Name"], "quick"),
    "filter_after": (["Name", "S", "Name", "LeftBracket", "Name", "S", "Name", "RightBracket"], "quick"),
    "filter_before": (["Name", "LeftBracket", "Name", "RightBracket", "S", "Name"], "quick"),
    "parens_left": (["LeftParen", "Name", "S", "Name", "RightParen", "S", "Name"], "quick"),
    "parens_right": (["Name", "S", "LeftParen", "Name", "S", "Name", "RightParen"], "quick"),
    "instance_after": (["Name", "S", "Name", "Instance", "Of", "BuiltInTypeName"], "quick"),
    "instance_before": (["Name", "Instance", "Of", "BuiltInTypeName", "S", "Name"], "quick"),
    "if_else_tail": (["If", "Name", "Then", "Name", "Else", "Name", "S", "Name"], "quick"),
    "if_condition": (["If", "Name", "S", "Name", "Then", "Name", "Else", "Name"], "quick"),
    "if_then": (["If", "Name", "Then", "Name", "S", "Name", "Else", "Name"], "quick"),
    "if_operand": (["Name", "S", "If", "Name", "Then", "Name", "Else", "Name", "S", "Name"], "quick"),
    "for_body": (["For", "Name", "In", "Name", "Return", "Name", "S", "Name"], "quick"),
    "some_body": (["Some", "Name", "In", "Name", "Satisfies", "Name", "S", "Name"], "quick"),
    "every_body": (["Every", "Name", "In", "Name", "Satisfies", "Name", "S", "Name"], "quick"),
    "triples": (["Name", "S", "Name", "S", "Name", "S", "Name"], "thorough"),
    "neg_triple": (["Minus", "Name", "S", "Name", "S", "Minus", "Name"], "thorough"),
    "parens_mid": (["Name", "S", "LeftParen", "Name", "S", "Name", "RightParen", "S", "Name"], "thorough"),
}

SIGNIFICANT = {22: ("between",), 38: ("neg",), 40: ("instance",), 41: ("dot",), 42: ("dot",), 43: ("filter",), 15: ("for",), 16: ("if",), 18: ("some",), 20: ("every",)}


def run(check, mirror, tier):
    rb = replay_build(mirror)
    g = Grammar(mirror)
    crate = MirCrate(mirror, "feel-parser", overflow_checks=True)
    fields = rsenum.struct_fields(mirror.read("feel-parser/src/parser.rs"), "Parser")
    ops = sorted(g.binary, key=lambda v: g.code(v))
    inv = {c: v for v, c in g.tokens.items()}
    sig = dict(SIGNIFICANT)
    for v, n in g.binary.items():
        sig[n] = ("bin", v)
    for n, kind in SIGNIFICANT.items():
        if n not in g.rules:
            raise MirUnsupported("rule %d (%s) no longer has an action in lalr::reduce" % (n, kind))
    check.samples.append(dict(binary_operator_rules={v: g.binary[v] for v in ops}, precedence={v: list(g.level(v)) for v in ops}))
    check.bounds += ["token templates %s with every S slot ranging over the %d binary operator tokens %s" % (
                         sorted(k for k, (t, tr) in TEMPLATES.items() if tier == "thorough" or tr == "quick"), len(ops), ops),
                     "driver loop unwound up to 120 visits per block; state/value stacks as bounded Vec models"]
    check.assumptions += ["the lexer is replaced by a token cursor (scope-dependent name splitting and lexer flags are outside: C10)",
                          "lalr::reduce is replaced by a logger of the rule number; the rule -> action map is read from lalr.rs, the actions' tree building is not executed",
                          "oracle: operator-precedence parser driven by the reference %left/%right/%nonassoc/%precedence declarations (checks/C06.py REFERENCE_PRECEDENCE = feel.y at the pinned commit)"]
    if grammar_file_differs(mirror):
        check.samples.append(dict(note="the precedence declarations of feel-grammar/src/feel.y differ from the reference declarations; the reference is the oracle"))
    name_tv = En("TokenValue", z3.IntVal(g.tv["Name"]), {"Name": (Opaque("Name"),)})
    other_tv = En("TokenValue", z3.IntVal(g.tv["YyEmpty"]), {"YyEmpty": ()})

    def job(tname, template, first_fixed):
        nslots = template.count("S")

        def setup(ex, st):
            slots = []
            toks = [(z3.IntVal(g.code("StartExpression")), other_tv)]
            for t in template:
                if t == "S":
                    if first_fixed is not None and not slots:
                        c = z3.IntVal(g.code(first_fixed))
                    else:
                        c = ex.fresh_int(st, "i16", "op%d" % (len(slots) + 1), constrain=False).e
                        ex.assume(st, z3.Or([c == g.code(v) for v in ops]))
                    slots.append(c)
                    toks.append((c, other_tv))
                else:
                    toks.append((z3.IntVal(g.code(t)), name_tv if t in ("Name", "BuiltInTypeName") else other_tv))
            toks.append((z3.IntVal(g.code("YyEof")), other_tv))
            ex.models = make_models(toks) + ex.models
            cell = ex.new_cell(st, parser_value(ex, st, fields, toks))
            inputs = {"op%d" % (k + 1): c for k, c in enumerate(slots)}
            inputs["_template"] = tname
            return "Parser::parse", [Ref(cell)], inputs

        def post(ex, o, v):
            # every path fixes its operator tokens (the translate-table lookup forks on them): read them from a model,
            # let the solver confirm they are the only ones, then compare with the reference parser
            slots = [v["op%d" % (k + 1)] for k in range(nslots)]
            if ex.check() != z3.sat:
                return []
            m = ex.solver.model()
            vals = [m.eval(c, model_completion=True).as_long() for c in slots]
            unique = z3.And([c == val for c, val in zip(slots, vals)]) if slots else z3.BoolVal(True)
            it = iter(vals)
            toks = [inv[next(it)] if t == "S" else t for t in template]
            ref = RefParser(g, toks)
            try:
                ref.parse()
                want = ref.post
            except RefError:
                want = None
            res = o.value
            accepted = ex.concrete(res.disc) == 0 or (ex.concrete(res.disc) == 1 and "Err" in res.alts and
                                                       getattr(res.alts["Err"][0], "info", None) == "accept-without-nodes")
            got = [sig[n] for k, n in o.st.log if k == "reduce" and n in sig]
            props = [("the path determines its operator tokens", unique)]
            props.append(("accepted exactly when feel.y's declarations allow the combination", z3.BoolVal(accepted == (want is not None))))
            if accepted and want is not None:
                props.append(("operators are reduced in the order dictated by precedence and associativity", z3.BoolVal(got == want)))
            return props

        def replay(i, rb):
            return replay_template(g, template, i, rb, inv)

        oid = "%s/%s" % (tname, "op1=" + first_fixed if first_fixed else "all")
        return lambda c: decide(c, crate, oid, setup, post, replay, rb, unwind=120, min_paths=1, budget_s=1500, timeout_ms=20000)

    jobs = []
    for tname, (template, ttier) in TEMPLATES.items():
        if ttier == "thorough" and tier != "thorough":
            continue
        n = template.count("S")
        if n >= 2:
            jobs += [job(tname, template, v) for v in ops]
        else:
            jobs.append(job(tname, template, None))
    from checks import C06_layout
    C06_layout.jobs_for(check, mirror, rb, crate, jobs, tier, {})
    run_parallel(check, jobs, par=14)

    if getattr(check, "only", None) and not any("K" in o_ or "k_" in o_ for o_ in check.only):
        return
    # ---------------------------------------------------------------- K: string-literal escapes of the lexer
    kf = prepare_k_file(check, mirror, "parser_lexer.rs")
    mirror.inject("feel-parser/src/lexer.rs", kf, "verif_k")
    check.functions += [dict(fn=f, file="feel-parser/src/lexer.rs", sha=file_hash(mirror.path("feel-parser/src/lexer.rs")))
                        for f in ("Lexer::consume_unicode", "Lexer::consume_unicode_literal", "Lexer::consume_hex_digit", "hex_to_decimal", "is_hex_digit")]
    check.bounds += ["K: every \\uXXXX (4 symbolic hex digits, either case), every \\UXXXXXX (6 digits), every pair \\uD8xx..DBxx \\uXXXX; unwind 8/16 with unwinding assertions"]
    specs = [dict(harness="k_unicode_bmp", timeout=1500, unwind=8, decode=dec_bmp, replay=replay_escape),
             dict(harness="k_unicode_surrogates", timeout=2400, unwind=16, decode=dec_pair, replay=replay_escape)]
    if tier == "thorough":
        specs.append(dict(harness="k_unicode_long", timeout=2400, unwind=8, decode=dec_long, replay=replay_escape))
    run_k(check, mirror, "dmntk-feel-parser", specs, par=3, rb=rb)


def _hex(n, up):
    return ("%X" if up else "%x") % (n & 0xF)


def dec_bmp(vals):
    d = [v[0] for v in vals[:4]]
    up = [bool(v[0]) for v in vals[4:8]]
    return dict(text="\\u" + "".join(_hex(x, u) for x, u in zip(d, up)), value=(d[0] << 12) | (d[1] << 8) | (d[2] << 4) | d[3], kind="bmp")


def dec_long(vals):
    d = [v[0] for v in vals[:6]]
    up = bool(vals[6][0])
    v = 0
    for x in d:
        v = (v << 4) | (x & 0xF)
    return dict(text="\\U" + "".join(_hex(x, up) for x in d), value=v, kind="long")


def dec_pair(vals):
    hi, lo, up = le_int(vals[0]), le_int(vals[1]), bool(vals[2][0])
    f = "%04X" if up else "%04x"
    return dict(text="\\u" + f % hi + "\\u" + f % lo, hi=hi, lo=lo, kind="pair")


def replay_escape(i, rb):
    if i["kind"] == "pair":
        okpair = 0xDC00 <= i["lo"] <= 0xDFFF
        want = chr(0x10000 + ((i["hi"] - 0xD800) << 10) + (i["lo"] - 0xDC00)) if okpair else None
    else:
        v = i["value"]
        want = None if (0xD800 <= v <= 0xDFFF or v > 0x10FFFF) else chr(v)
    _, out, _ = replay_call(rb, ["feel", '"%s"' % i["text"]])
    if want is None:
        bad = out.startswith("VALUE") or out.startswith("PANIC")     # an invalid escape is an error, never a crash
    else:
        bad = out != 'VALUE "%s"' % want
    return bad, 'the string literal "%s" evaluates to %s, it denotes %s' % (i["text"], out[:40], ("U+%04X" % ord(want)) if want else "no scalar (error)")


def replay_template(g, template, i, rb, inv):
    vals = [i[k] for k in sorted(k for k in i if k.startswith("op"))]
    it = iter(vals)
    toks = [inv[next(it)] if t == "S" else t for t in template]
    plain = plain_text(toks)
    ref = RefParser(g, toks)
    try:
        tree = ref.parse()
        full = render(tree, True)
    except RefError:
        tree, full = None, None
    names = "a,b,c,d,e,f,g"
    if tree is None:
        _, out, _ = replay_call(rb, ["parse_cmp", names, plain, plain])
        return out.strip() != "ERR", "parse(%r): %s, feel.y's declarations make it a syntax error" % (plain, out.strip()[:60])
    _, out, _ = replay_call(rb, ["parse_cmp", names, plain, full])
    return out.strip() != "LEFT", "parse(%r) %s parse(%r): %s" % (plain, "==" if out.strip() == "LEFT" else "!=", full, out.strip()[:160])
