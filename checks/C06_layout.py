"""C06, layout between tokens (DESIGN §4 C06): `Lexer::read_input` - the routine every token read starts with - executed from MIR on an
input of 0..N symbolic Unicode scalar values with the cursor at 0.  Obligation: afterwards the cursor stands behind ALL the layout
at the start of the text, however it is composed: white space, `// ...` comments up to the end of the line, `/* ... */` comments up
to the first `*/` (an unterminated comment extends to the end of the input), in any number and order; and it does not move past
anything else.  The oracle walks the text by character class (slash, asterisk, line feed, other white space, anything else, end of
input) and is built per path over the classes the path leaves open.

Replay: `1 <layout> + 2` must evaluate to 3 (or, when the layout ends in an unterminated comment, `1 <layout>` to 1)."""
import z3

from vcommon import *  # noqa
from mcheck import decide, model_value
from mir.sym import Adt, En, FnV, Opaque, Outcome, Ref, Sc, StrV, VecV, UNIT, mk_bool, mk_int, none, some
from mir.parser import MirUnsupported
import rsenum as _rs
from checks.C10 import z_ws, in_ranges, WS_RANGES

SL, AST, LF, WSP, OTHER, END = range(6)


def z_cls(c):
    return z3.If(c == 0x2F, SL, z3.If(c == 0x2A, AST, z3.If(c == 0x0A, LF, z3.If(z_ws(c), WSP, OTHER))))


def py_cls(c):
    return SL if c == 0x2F else AST if c == 0x2A else LF if c == 0x0A else WSP if any(a <= c <= b for a, b in WS_RANGES) else OTHER


def py_skip(cps):
    """index behind the layout at the start of the text; second value: the layout ends in an unterminated block comment"""
    i, n = 0, len(cps)
    while i < n:
        k = py_cls(cps[i])
        if k in (LF, WSP):
            i += 1
        elif k == SL and i + 1 < n and py_cls(cps[i + 1]) == SL:
            i += 2
            while i < n and py_cls(cps[i]) != LF:
                i += 1
        elif k == SL and i + 1 < n and py_cls(cps[i + 1]) == AST:
            j = i + 2
            while j + 1 < n and not (py_cls(cps[j]) == AST and py_cls(cps[j + 1]) == SL):
                j += 1
            if j + 1 < n:
                i = j + 2
            else:
                return n, True
        else:
            break
    return i, False


def m_arr_iter_mut(ex, st, callee, args, dest_ty):
    """iter_mut() over a fixed-size array (the 12 character look-ahead buffer): a cursor over its element places"""
    base = args[0]
    while isinstance(ex.read(st, base.cell, base.projs), Ref):
        base = ex.read(st, base.cell, base.projs)
    arr = ex.read(st, base.cell, base.projs)
    n = len(arr.fields) if isinstance(arr, Adt) else ex.concrete(arr.len)
    yield st, Opaque("ArrEnum", info=(base, 0, n))


def m_arr_enum_next(ex, st, callee, args, dest_ty):
    r = args[0]
    it = ex.read(st, r.cell, r.projs)
    base, pos, n = it.info
    if pos < n:
        ex.write(st, r.cell, r.projs, Opaque("ArrEnum", info=(base, pos + 1, n)))
        yield st, some(Adt("tuple", None, (mk_int(pos, "usize"), Ref(base.cell, base.projs + (("index", pos),)))))
    else:
        yield st, none()


import re as _re
ARR_MODELS = [
    (_re.compile(r"^core::slice::<impl \[char\]>::iter_mut$"), m_arr_iter_mut),
    (_re.compile(r"^<std::slice::IterMut<'_, char> as Iterator>::enumerate$"), lambda ex, st, c, a, d: iter([(st, a[0])])),
    (_re.compile(r"^<Enumerate<std::slice::IterMut<'_, char>> as IntoIterator>::into_iter$"), lambda ex, st, c, a, d: iter([(st, a[0])])),
    (_re.compile(r"^<Enumerate<std::slice::IterMut<'_, char>> as Iterator>::next$"), m_arr_enum_next),
]


def jobs_for(check, mirror, rb, crate, jobs, tier, KNOWN_PRED):
    lf = _rs.struct_fields(mirror.read("feel-parser/src/lexer.rs"), "Lexer")
    N = 6 if tier == "quick" else 7
    check.bounds.append("layout: input of 0..%d symbolic Unicode scalar values, cursor at 0; loop bound %d visits per block" % (N, N + 16))
    check.assumptions.append("layout: the character classes of the oracle (white space list of DMN 1.3 grammar rule 61/62) are written independently of the lexer's predicates")

    def setup(ex, st):
        n = ex.fresh_int(st, "usize", "len", constrain=False)
        ex.assume(st, z3.And(n.e >= 0, n.e <= N))
        chars = []
        for k in range(N):
            c = ex.fresh_int(st, "char", "c%d" % k, constrain=False)
            ex.assume(st, z3.And(c.e >= 0, c.e <= 0x10FFFF, z3.Or(c.e < 0xD800, c.e > 0xDFFF)))
            chars.append(c)
        vals = {"scope": Ref(ex.new_cell(st, Opaque("Scope"), "scope")), "start_token_type": none(), "input": VecV(n.e, chars, "char"),
                "position": mk_int(0, "usize"), "unary_tests": mk_bool(False), "between": mk_bool(False), "type_name": mk_bool(False), "till_in": mk_bool(False)}
        missing = [f for f in lf if f not in vals]
        if missing:
            raise MirUnsupported("Lexer has fields the model does not know: %s" % missing)
        lx = Ref(ex.new_cell(st, Adt("struct", "Lexer", [vals[f] for f in lf]), "lexer"))
        inputs = dict(len=n.e, _lexer=lx, _chars=chars)
        for k in range(N):
            inputs["c%d" % k] = chars[k].e
        return "Lexer::read_input", [lx], inputs

    def post(ex, o, v):
        lx = ex.read(o.st, v["_lexer"].cell, v["_lexer"].projs)
        pos = lx.fields[lf.index("position")].e
        n, chars = v["len"], v["_chars"]
        cls = [z3.If(n <= i, END, z_cls(chars[i].e)) for i in range(N)] + [z3.IntVal(END)]
        memo = {}

        def feas(i):
            if i >= N:
                return [END]
            if i not in memo:
                out, rest = [], z3.BoolVal(True)
                while len(out) < 6:
                    if ex.check(rest) != z3.sat:
                        break
                    k = ex.solver.model().eval(cls[i], model_completion=True).as_long()
                    out.append(k)
                    rest = z3.And(rest, cls[i] != k)
                memo[i] = sorted(out)
            return memo[i]

        def each(i, f):
            """conjunction over the classes possible at i of (class -> f(class))"""
            return z3.And([z3.Implies(cls[i] == k, f(k)) for k in feas(i)] + [z3.BoolVal(True)])

        def skip(i):
            def on(k):
                if k in (LF, WSP):
                    return skip(i + 1)
                if k == SL:
                    return each(i + 1, lambda k2: line(i + 2) if k2 == SL else block(i + 2) if k2 == AST else (pos == i))
                return pos == i
            return each(i, on)

        def line(i):
            return each(i, lambda k: skip(i) if k in (LF, END) else line(i + 1))

        def block(i):
            def on(k):
                if k == END:
                    return pos == i      # unterminated: the comment runs to the end of the input (i == len on this branch)
                if k == AST:
                    return each(i + 1, lambda k2: skip(i + 2) if k2 == SL else block(i + 1))
                return block(i + 1)
            return each(i, on)
        body = skip(0)
        return [("the cursor stands behind all the white space and comments at the start of the text, and no further", body),
                ("reach:a layout of six characters", pos >= 6)]

    def desc(m, v):
        n = model_value(m, v["len"])
        return {"text": [model_value(m, v["c%d" % k]) for k in range(n)]}

    def prefer(v):
        ok_ = lambda c: z3.Or([c == ord(x) for x in "/* \nab"])
        return z3.And([ok_(v["c%d" % k]) for k in range(N)])

    def replay(i, rb):
        cps = i["text"]
        p, open_ = py_skip(cps)
        layout = "".join(chr(c) for c in cps[:p])
        if open_:
            text, want = "1 " + layout, "VALUE 1"
        else:
            text, want = "1 " + layout + " + 2", "VALUE 3"
        import subprocess
        try:
            _, out, _ = replay_call(rb, ["feel", text], timeout=10)
        except subprocess.TimeoutExpired:
            return True, "parsing %r does not return within 10 s" % text
        return out.strip() != want, "%r -> %s, specified %s (the layout is %r)" % (text, out[:80], want[6:], layout)

    jobs.append(lambda c: decide(c, crate, "layout/read_input", setup, post, replay, rb, models=ARR_MODELS, unwind=N + 16, describe=desc, prefer=prefer,
                                 merge=r"is_whitespace|is_vertical_space", unwound_is_violation=True, need_reach=["reach:a layout of six characters"], max_cex=4, budget_s=900,
                                 known_predicates=KNOWN_PRED, timeout_ms=20000))
