"""C07 — numbers print as plain decimal text denoting exactly their value (DESIGN §4 C07).

Engine M over feel-number/src/number.rs `scientific_to_plain` (the rewriting every Display / jsonify of a FEEL number goes
through): the library's to-scientific-string output is modelled by its documented grammar (General Decimal Arithmetic
specification) as a structured string with symbolic sign, symbolic coefficient digits and symbolic exponent; the code is
executed from MIR over these structured strings and its output must be, atom by atom, the plain rendering of
(-1)^s * c * 10^e: optional minus, the digits, the right number of zeros, no exponent.
"""
import re

import z3

from vcommon import *  # noqa
from mcheck import MirCrate, decide, run_parallel, model_value
from mir.sym import Adt, En, FnV, Opaque, Outcome, Ref, Sc, StrV, VecV, UNIT, mk_bool, mk_int
from mir.parser import MirUnsupported
import atomstr as A
from mir.models import deref

ENGINE = "M (MIR -> SMT, z3) over structured (atom) strings"


def _same_concrete(got, want):
    got, want = A.normalize(got), A.normalize(want)
    if len(got) != len(want):
        return z3.BoolVal(False)
    c = []
    for g, w in zip(got, want):
        if g[0] != w[0]:
            return z3.BoolVal(False)
        if g[0] == "lit":
            c.append(z3.BoolVal(g[1] == w[1]))
        elif g[0] == "digits":
            if g[2] != w[2]:
                return z3.BoolVal(False)
            c.append(g[1] == w[1])
        elif g[0] == "rep":
            if g[1] != w[1]:
                return z3.BoolVal(False)
            c.append(g[2] == w[2])
    return z3.And(c) if c else z3.BoolVal(True)


def same_atoms(got, want):
    """z3 Bool: the two atom lists denote the same text.  Sign atoms ("-" or nothing) are resolved by case split over their
    Booleans; within a case the structure (literals, digit groups, repetitions) must match and the Int components be equal."""
    import itertools
    signs = []
    for a in list(got) + list(want):
        if a[0] == "sign" and not any(a[1].eq(x) for x in signs):
            signs.append(a[1])
    cases = []
    for vals in itertools.product([True, False], repeat=len(signs)):
        def conc(atoms):
            out = []
            for a in atoms:
                if a[0] == "sign":
                    v = vals[[i for i, x in enumerate(signs) if a[1].eq(x)][0]]
                    if v:
                        out.append(("lit", "-"))
                else:
                    out.append(a)
            return out
        cond = z3.And([s if v else z3.Not(s) for s, v in zip(signs, vals)]) if signs else z3.BoolVal(True)
        cases.append(z3.Implies(cond, _same_concrete(conc(got), conc(want))))
    return z3.And(cases)


def run(check, mirror, tier):
    rb = replay_build(mirror)
    crate = MirCrate(mirror, ["feel-number"], overflow_checks=True, enum_crates=("common",))
    Ls = list(range(1, 35))
    check.bounds += ["coefficients of L digits for L in %s (digits symbolic, first digit 1..9 for L>1 / 0..9 for L=1), either sign, "
                     "every exponent the decimal128 format admits for the E+ form (1..6144) and the E- form (adjusted exponent -6176..-7)" % Ls]
    check.assumptions += ["decQuadToString follows the to-scientific-string grammar of the General Decimal Arithmetic specification "
                          "(trusted: the C library is outside this family's reach, DESIGN §4 C02); plain-notation outputs of the library (no exponent) pass through unchanged",
                          "str::contains/split/len, usize::from_str, (a..b).map(|_| c).collect::<String>() and format! by their std contracts over structured strings"]
    jobs = []

    def mk(form, L):
        oid = "scientific_to_plain/%s/L%d" % (form, L)

        def setup(ex, st):
            neg = z3.Bool(ex.fresh_name("neg"))
            d1 = ex.fresh_int(st, "u8", "d1", constrain=False)
            ex.assume(st, z3.And(d1.e >= (0 if L == 1 else 1), d1.e <= 9))
            atoms = [("sign", neg), ("digits", d1.e, 1)]
            inputs = dict(neg=neg, d1=d1.e, L=L, form=form)
            coeff = d1.e
            if L > 1:
                rest = ex.fresh_int(st, "u128", "rest", constrain=False)
                ex.assume(st, z3.And(rest.e >= 0, rest.e < 10 ** (L - 1)))
                atoms += [("lit", "."), ("digits", rest.e, L - 1)]
                inputs["rest"] = rest.e
                coeff = d1.e * 10 ** (L - 1) + rest.e
            adj = ex.fresh_int(st, "i32", "adjusted", constrain=False)   # |adjusted exponent| printed after E+ / E-
            if form == "Eplus":
                # scientific notation with a positive exponent is produced when the exponent e = adj - (L-1) is > 0
                ex.assume(st, z3.And(adj.e >= L, adj.e <= 6144))
            else:
                ex.assume(st, z3.And(adj.e >= 7, adj.e <= 6176))
            ndig = None
            for k in range(1, 5):
                lo, hi = (10 ** (k - 1) if k > 1 else 0), 10 ** k
                c = z3.And(adj.e >= lo, adj.e < hi)
                ndig = k if ndig is None else ndig
            inputs["adjusted"] = adj.e
            # the exponent digits: value adj, 1..4 digits without leading zeros -> one obligation path per digit count
            def runner(ex, st):
                for k in range(1, 5):
                    lo, hi = (10 ** (k - 1) if k > 1 else 1), 10 ** k
                    for st2 in ex.branch(st, z3.And(adj.e >= lo, adj.e < hi)):
                        s = A.mk(atoms + [("lit", "E+" if form == "Eplus" else "E-"), ("digits", adj.e, k)])
                        yield from ex.run("scientific_to_plain", [s], st2)
            inputs["_coeff"] = coeff
            return runner, None, inputs

        def post(ex, o, v):
            out = o.value
            got = A.atoms_of(out)
            neg, coeff, adj = v["neg"], v["_coeff"], v["adjusted"]
            if form == "Eplus":
                want = [("sign", neg), ("digits", coeff, L), ("rep", "0", adj - (L - 1))]
            else:
                want = [("sign", neg), ("lit", "0."), ("rep", "0", adj - 1), ("digits", coeff, L)]
            if form == "Eplus" and L == 1:
                # a zero coefficient: the value is zero whatever the exponent; a run of zeros is not a valid JSON number (and not how 0 is written)
                zero = [("sign", neg), ("digits", z3.IntVal(0), 1)]
                return [("plain text = optional minus, the coefficient digits and exactly the zeros the exponent calls for", z3.Implies(v["d1"] != 0, same_atoms(got, want))),
                        ("zero with a positive exponent prints as 0, not as a run of zeros (a valid JSON number)", z3.Implies(v["d1"] == 0, same_atoms(got, zero)))]
            return [("plain text = optional minus, the coefficient digits and exactly the zeros the exponent calls for", same_atoms(got, want))]

        def desc(m, inputs):
            return {k: model_value(m, x) for k, x in inputs.items() if not k.startswith("_")}
        jobs.append(lambda c: decide(c, crate, oid, setup, post, replay_number, rb, models=A.ATOM_MODELS, unwind=6, describe=desc,
                                     budget_s=600, min_paths=1, timeout_ms=20000, known_predicates=KNOWN_PRED, max_cex=3,
                                     prefer=(lambda v: v["d1"] >= 1) if not (form == "Eplus" and L == 1) else (lambda v: z3.And(z3.Not(v["neg"]), v["adjusted"] <= 3))))

    for L in Ls:
        mk("Eplus", L)
        mk("Eminus", L)
    # --- the whole printing pipeline: Display::fmt and Jsonify::jsonify of FeelNumber ----------------------------------------------
    # what they write must be the plain rendering of the number THEY WERE GIVEN: decQuadToString is applied to self.0 itself; any other
    # decimal operation on the way (rescale, reduce, quantize ..) is outside the contract known here and yields an arbitrary decimal,
    # whose text is arbitrary (NaN is one admissible instance) - a counterexample through it is confirmed or refuted by the native replay
    # over a pool of exponents
    check.bounds.append("display pipeline: <FeelNumber as Display>::fmt and <FeelNumber as Jsonify>::jsonify for coefficients of 1, 2, 17 and 34 digits, both exponent forms and the plain form")

    dec_fns = sorted(set(re.findall(r"\bfn (dec_\w+)", mirror.read("feel-number/src/dec.rs"))) - {"dec_to_string"})
    DEC_RE = re.compile(r"^(dec::)?(%s)$" % "|".join(dec_fns))

    def mk_pipeline(entry, form, L):
        oid = "pipeline/%s/%s/L%d" % (entry, form, L)

        def setup(ex, st):
            neg = z3.Bool(ex.fresh_name("neg"))
            d1 = ex.fresh_int(st, "u8", "d1", constrain=False)
            ex.assume(st, z3.And(d1.e >= 1, d1.e <= 9))
            atoms = [("sign", neg), ("digits", d1.e, 1)]
            inputs = dict(neg=neg, d1=d1.e, L=L, form=form)
            coeff = d1.e
            if L > 1:
                rest = ex.fresh_int(st, "u128", "rest", constrain=False)
                ex.assume(st, z3.And(rest.e >= 0, rest.e < 10 ** (L - 1)))
                atoms += [("lit", "."), ("digits", rest.e, L - 1)]
                inputs["rest"] = rest.e
                coeff = d1.e * 10 ** (L - 1) + rest.e
            adj = ex.fresh_int(st, "i32", "adjusted", constrain=False)
            if form == "Eplus":
                ex.assume(st, z3.And(adj.e >= L, adj.e <= 6144))
            elif form == "Eminus":
                ex.assume(st, z3.And(adj.e >= 7, adj.e <= 6176))
            else:
                ex.assume(st, adj.e == 0)
            inputs["adjusted"] = adj.e
            inputs["_coeff"] = coeff
            inputs["_plain_atoms"] = atoms
            me = Ref(ex.new_cell(st, Adt("struct", "FeelNumber", (Opaque("DecQuad", "self"),)), "self"))

            def runner(ex, st):
                for k in range(1, 5):
                    lo, hi = (10 ** (k - 1) if k > 1 else 1), 10 ** k
                    if form == "plain" and k > 1:
                        break
                    cond = z3.And(adj.e >= lo, adj.e < hi) if form != "plain" else z3.BoolVal(True)
                    for st2 in ex.branch(st, cond):
                        text = A.mk(atoms + ([("lit", "E+" if form == "Eplus" else "E-"), ("digits", adj.e, k)] if form != "plain" else []))

                        def m_to_string(ex, st, callee, args, dest_ty, text=text):
                            q = deref(ex, st, args[0])
                            if isinstance(q, Opaque) and q.sort == "DecQuad" and q.e == "self":
                                yield st, text
                            else:
                                st.log.append(("havoc", callee))
                                yield st, A.mk([("lit", "NaN")])

                        def m_dec_other(ex, st, callee, args, dest_ty):
                            st.log.append(("havoc", callee))
                            yield st, Opaque("DecQuad", "arbitrary")
                        ex.models[:0] = [(re.compile(r"^(dec::)?dec_to_string$"), m_to_string), (DEC_RE, m_dec_other)]
                        if entry == "jsonify":
                            yield from ex.run("<FeelNumber as Jsonify>::jsonify", [me], st2)
                        else:
                            fc = ex.new_cell(st2, Opaque("Formatter", info=()), "fmt")
                            for o in ex.run("<FeelNumber as Display>::fmt", [me, Ref(fc)], st2):
                                if o.kind != "return":
                                    yield o
                                    continue
                                pieces = o.st.cells[fc].info
                                if len(pieces) == 1 and pieces[0][0] == "arg" and isinstance(pieces[0][2], StrV):
                                    yield Outcome("return", o.st, pieces[0][2])
                                elif all(p_[0] == "lit" for p_ in pieces):
                                    yield Outcome("return", o.st, StrV("".join(p_[1] for p_ in pieces)))
                                else:
                                    raise MirUnsupported("Display wrote %r" % (pieces,))
                        del ex.models[:2]
            return runner, None, inputs

        def post(ex, o, v):
            got = A.atoms_of(o.value)
            neg, coeff, adj = v["neg"], v["_coeff"], v["adjusted"]
            if form == "Eplus":
                want = [("sign", neg), ("digits", coeff, L), ("rep", "0", adj - (L - 1))]
            elif form == "Eminus":
                want = [("sign", neg), ("lit", "0."), ("rep", "0", adj - 1), ("digits", coeff, L)]
            else:
                want = v["_plain_atoms"]
            v["_havoc"] = any(e[0] == "havoc" for e in o.st.log)
            return [("what is written is the plain rendering of the number itself: optional minus, its digits, exactly the zeros its exponent calls for", same_atoms(got, want))]

        def desc(m, inputs):
            d = {k: model_value(m, x) for k, x in inputs.items() if not k.startswith("_")}
            d["entry"] = entry
            return d

        def replay(i, rb):
            pool = [i["adjusted"]] if i["form"] == "plain" else [i["adjusted"], L, 34, 35, 40, 100, 6144] if i["form"] == "Eplus" else [i["adjusted"], 7, 20, 40, 100, 6176]
            last = (False, "")
            for adj in dict.fromkeys(pool):
                if i["form"] == "Eplus" and adj < L:
                    continue
                j = dict(i, adjusted=adj)
                if i["form"] == "plain":
                    coeff = str(i["d1"]) + (str(i.get("rest", 0)).rjust(L - 1, "0") if L > 1 else "")
                    txt = ("-" if i["neg"] else "") + coeff[0] + ("." + coeff[1:] if L > 1 else "")
                    _, out, _ = replay_call(rb, ["number_display", txt])
                    last = (out.strip() != txt, "FeelNumber::from_str(%s).to_string() = %s" % (txt, out.strip()[:80]))
                else:
                    last = replay_number(j, rb)
                if last[0]:
                    return last
            return last
        jobs.append(lambda c: decide(c, crate, oid, setup, post, replay, rb, models=A.ATOM_MODELS, unwind=6, describe=desc, budget_s=600, min_paths=1, timeout_ms=20000, max_cex=2))

    for entry in ("display", "jsonify"):
        for form in ("Eplus", "Eminus", "plain"):
            for L in (1, 2, 17, 34):
                mk_pipeline(entry, form, L)
    # --- numeric literal -> the text handed to the decimal library (feel-evaluator build_numeric) ------------------------------------
    crate_fe = MirCrate(mirror, ["feel-evaluator", "feel"], overflow_checks=True)
    check.bounds.append("numeric literals: integer part of 1 or 5 digits, fraction of 1, 33, 34, 35 or 40 digits (digits symbolic)")
    check.assumptions.append("literal side: the decimal library reads the text it is given exactly (trusted C code); decided here: the text build_numeric "
                             "hands over is `<integer digits>.<fraction digits>` with no digit dropped or altered")

    def mk_literal(ki, kf):
        def setup(ex, st):
            a = ex.fresh_int(st, "u128", "int_digits", constrain=False)
            b = ex.fresh_int(st, "u128", "frac_digits", constrain=False)
            ex.assume(st, z3.And(a.e >= 0, a.e < 10 ** ki, b.e >= 0, b.e < 10 ** kf))
            lhs, rhs = A.mk([("digits", a.e, ki)]), A.mk([("digits", b.e, kf)])
            inputs = dict(int_digits=a.e, frac_digits=b.e, ki=ki, kf=kf)

            def m_parse_number(ex, st, callee, args, dest_ty):
                t = deref(ex, st, args[0])
                st.log.append(("parsed", tuple(A.normalize(A.atoms_of(t)))))
                yield st, En("Result", z3.IntVal(0), {"Ok": (Opaque("FeelNumber", z3.IntVal(0)),)})

            def runner(ex, st):
                ex.models.insert(0, (re.compile(r"^core::str::<impl str>::parse::<(dmntk_feel_number::)?FeelNumber>$|^<FeelNumber as FromStr>::from_str$"), m_parse_number))
                yield from ex.run("build_numeric", [lhs, rhs], st)
            return runner, None, inputs

        def post(ex, o, v):
            calls = [e[1] for e in o.st.log if e[0] == "parsed"]
            want = A.normalize([("digits", v["int_digits"], ki), ("lit", "."), ("digits", v["frac_digits"], kf)])
            same = len(calls) == 1 and len(calls[0]) == len(want)
            conj = []
            if same:
                for g, w in zip(calls[0], want):
                    if g[0] != w[0] or (g[0] == "digits" and g[2] != w[2]) or (g[0] == "lit" and g[1] != w[1]):
                        same = False
                        break
                    if g[0] == "digits":
                        conj.append(g[1] == w[1])
            return [("the text given to the number parser is the integer digits, a dot and ALL the fraction digits", z3.And([z3.BoolVal(bool(same))] + conj))]

        def desc(m, v):
            return {k: model_value(m, x) for k, x in v.items()}

        def replay(i, rb):
            lit = "%s.%s" % (str(i["int_digits"]).rjust(ki, "0"), str(i["frac_digits"]).rjust(kf, "0"))
            from fractions import Fraction
            want = Fraction(int(str(i["int_digits"]) + str(i["frac_digits"]).rjust(kf, "0")), 10 ** kf)
            # exact comparison through scaling by a power of ten (exact in decimal arithmetic while the digits fit)
            _, out, _ = replay_call(rb, ["feel", "%s * 10**%d" % (lit, kf)])
            got = out[6:].strip() if out.startswith("VALUE ") else out
            digits = (str(i["int_digits"]) + str(i["frac_digits"]).rjust(kf, "0")).lstrip("0") or "0"
            exact = len(digits) <= 34
            try:
                bad = exact and Fraction(got) != want * 10 ** kf
            except Exception:
                bad = True
            return bad, "%s * 10**%d -> %s (written value %s%s)" % (lit, kf, got[:60], digits[:40], "" if exact else ", more than 34 significant digits: not compared")
        jobs.append(lambda c: decide(c, crate_fe, "literal/build_numeric/%d_%d" % (ki, kf), setup, post, replay, rb, models=A.ATOM_MODELS, unwind=6, describe=desc,
                                     known_predicates=KNOWN_PRED, prefer=lambda v: z3.And(v["int_digits"] == 0, v["frac_digits"] >= 1, v["frac_digits"] <= 99)))
    for ki, kf in ((1, 1), (5, 33), (1, 34), (1, 35), (1, 40)):
        mk_literal(ki, kf)

    # --- typed input data: xsd:integer / xsd:decimal / xsd:double text -> number ----------------------------------------------------
    crate_feel = MirCrate(mirror, ["feel"], overflow_checks=True)
    check.bounds.append("typed input: Value::try_from_xsd_{integer,decimal,double} on texts `<1..20 integer digits>[.<1..34 fraction digits>]` (digits symbolic, optional minus)")
    check.assumptions.append("typed input: the decimal library reads the text it is given exactly (trusted C code); decided here: the text handed to it is the input text, "
                             "unchanged; a detour through a binary double (str::parse::<f64> followed by to_string) yields a text unrelated to the input, "
                             "confirmed or refuted natively over a pool of inputs")

    def mk_xsd(kind, ki, kf):
        def setup(ex, st):
            neg = z3.Bool(ex.fresh_name("neg"))
            a = ex.fresh_int(st, "u128", "int_digits", constrain=False)
            ex.assume(st, z3.And(a.e >= (10 ** (ki - 1) if ki > 1 else 0), a.e < 10 ** ki))
            atoms = [("sign", neg), ("digits", a.e, ki)]
            inputs = dict(neg=neg, int_digits=a.e, ki=ki, kf=kf, kind=kind)
            if kf:
                b = ex.fresh_int(st, "u128", "frac_digits", constrain=False)
                ex.assume(st, z3.And(b.e >= 0, b.e < 10 ** kf))
                atoms += [("lit", "."), ("digits", b.e, kf)]
                inputs["frac_digits"] = b.e
            inputs["_atoms"] = atoms
            text = A.mk(atoms)

            def m_parse_number(ex, st, callee, args, dest_ty):
                t = deref(ex, st, args[0])
                st.log.append(("parsed", t))
                yield st, En("Result", z3.IntVal(0), {"Ok": (Opaque("FeelNumber", "parsed"),)})

            def m_parse_f64(ex, st, callee, args, dest_ty):
                st.log.append(("binary", callee))
                yield st, En("Result", z3.IntVal(0), {"Ok": (Opaque("f64", "binary"),)})

            def m_f64_pred(ex, st, callee, args, dest_ty):
                yield st, mk_bool(callee.endswith("is_finite"))

            def m_f64_text(ex, st, callee, args, dest_ty):
                yield st, A.mk([("lit", "<shortest round-trip text of a binary double>")])

            def m_trim(ex, st, callee, args, dest_ty):
                yield st, args[0]

            def runner(ex, st):
                ex.models[:0] = [(re.compile(r"^core::str::<impl str>::parse::<(dmntk_feel_number::)?FeelNumber>$|^<FeelNumber as FromStr>::from_str$"), m_parse_number),
                                 (re.compile(r"^core::str::<impl str>::parse::<f(32|64)>$|^<f(32|64) as FromStr>::from_str$"), m_parse_f64),
                                 (re.compile(r"^(std|core)::f(32|64)::<impl f(32|64)>::(is_finite|is_nan|is_infinite)$"), m_f64_pred),
                                 (re.compile(r"^<f(32|64) as ToString>::to_string$"), m_f64_text),
                                 (re.compile(r"^core::str::<impl str>::trim(_start|_end)?$"), m_trim)]
                yield from ex.run("Value::try_from_xsd_" + kind, [text], st)
            return runner, None, inputs

        def post(ex, o, v):
            calls = [e[1] for e in o.st.log if e[0] == "parsed"]
            r = o.value
            same = z3.BoolVal(False)
            if len(calls) == 1:
                same = same_atoms(A.atoms_of(calls[0]), v["_atoms"])
            okv = z3.BoolVal(False)
            if "Ok" in r.alts:
                val = r.alts["Ok"][0]
                if isinstance(val, En) and "Number" in val.alts and isinstance(val.alts["Number"][0], Opaque) and val.alts["Number"][0].e == "parsed":
                    okv = z3.And(r.disc == 0, val.disc == U_NUMBER)
            return [("the text given to the decimal library is the typed input text itself, digit for digit", same),
                    ("the typed value is the number parsed from it", okv)]

        def desc(m, v):
            return {k: model_value(m, x) for k, x in v.items() if not k.startswith("_")}

        def replay(i, rb):
            from fractions import Fraction
            cands = []
            base = ("-" if i["neg"] else "") + str(i["int_digits"]).rjust(ki, "0") + (("." + str(i.get("frac_digits", 0)).rjust(kf, "0")) if kf else "")
            cands.append(base)
            # same shape, digits that a binary double cannot hold
            pat = "9007199254740993123456789012345678"
            cands.append(("-" if i["neg"] else "") + (pat[:ki] if ki > 1 else "7") + (("." + "1234567890123456789012345678901234"[:kf]) if kf else ""))
            last = (False, "")
            for t in dict.fromkeys(cands):
                _, out, _ = replay_call(rb, ["xsd", kind, t])
                got = out[6:].strip() if out.startswith("VALUE ") else None
                digits = t.replace("-", "").replace(".", "").lstrip("0")
                try:
                    bad = got is None or Fraction(got) != Fraction(t)
                except Exception:
                    bad = True
                if len(digits) > 34:
                    bad = False
                last = (bad, "xsd:%s %s -> %s" % (kind, t, out[:70]))
                if bad:
                    return last
            return last
        jobs.append(lambda c: decide(c, crate_feel, "typed_input/xsd_%s/%d_%d" % (kind, ki, kf), setup, post, replay, rb, models=A.ATOM_MODELS, unwind=6, describe=desc, max_cex=2))
    # --- text -> decimal library: dec_from_string hands the library the text it was given, all of it ---------------------------------------
    check.bounds.append("text_to_library: dec_from_string on texts `<ki integer digits>[.<kf fraction digits>]` for (ki, kf) in (1,0), (34,0), (45,0), (1,44), (20,25): up to 46 characters")

    def mk_from_string(ki, kf):
        def setup(ex, st):
            a = ex.fresh_int(st, "u128", "int_digits", constrain=False)
            ex.assume(st, z3.And(a.e >= 0, a.e < 10 ** ki))
            atoms = [("digits", a.e, ki)]
            inputs = dict(int_digits=a.e, ki=ki, kf=kf)
            if kf:
                b = ex.fresh_int(st, "u128", "frac_digits", constrain=False)
                ex.assume(st, z3.And(b.e >= 0, b.e < 10 ** kf))
                atoms += [("lit", "."), ("digits", b.e, kf)]
                inputs["frac_digits"] = b.e
            inputs["_atoms"] = atoms
            text = A.mk(atoms)
            val = lambda st, x: deref(ex, st, x) if isinstance(x, Ref) else x

            def m_cstring_new(ex, st, callee, args, dest_ty):
                yield st, En("Result", z3.IntVal(0), {"Ok": (Opaque("CString", info=val(st, args[0])),), "Err": (Opaque("NulError"),)})

            def m_unwrap_or_default(ex, st, callee, args, dest_ty):
                yield st, args[0].alts["Ok"][0]

            def m_as_ptr(ex, st, callee, args, dest_ty):
                c = val(st, args[0])
                yield st, (c if isinstance(c, Opaque) and c.sort in ("CString", "ptr") else Opaque("ptr", info=c))

            def m_from_string(ex, st, callee, args, dest_ty):
                p_ = val(st, args[1])
                st.log.append(("library_text", p_.info if isinstance(p_, Opaque) else p_))
                yield st, Opaque("ptr")
            ffi = [(re.compile(r"^CString::new::<.*>$"), m_cstring_new), (re.compile(r"^Result::<CString, NulError>::unwrap_or_default$"), m_unwrap_or_default),
                   (re.compile(r"^<CString as Deref>::deref$|^CStr::as_ptr$|^CString::as_ptr$|^CString::as_c_str$"), m_as_ptr),
                   (re.compile(r"^<(dec::)?DEFAULT_CONTEXT as Deref>::deref$|^<(dec::)?DecContext as Clone>::clone$"), lambda ex, st, c, a, d: iter([(st, Opaque("ffi"))])),
                   (re.compile(r"^<(dec::)?DecQuad as Default>::default$"), lambda ex, st, c, a, d: iter([(st, Opaque("DecQuad", "result"))])),
                   (re.compile(r"(^|::)decQuadFromString$"), m_from_string)]

            def runner(ex, st):
                ex.models[:0] = ffi
                try:
                    yield from ex.run("dec_from_string", [text], st)
                except MirUnsupported as e:
                    # code between the text and the library call that no model covers (byte buffers, copies): what reaches the library is then
                    # arbitrary as far as this obligation knows; the native replay over long texts decides
                    st2 = st.fork()
                    st2.log.append(("beyond_model", str(e)[:200]))
                    yield Outcome("return", st2, None)
            return runner, None, inputs

        def post(ex, o, v):
            texts = [e[1] for e in o.st.log if e[0] == "library_text"]
            beyond = [e for e in o.st.log if e[0] == "beyond_model"]
            same = z3.BoolVal(False)
            if len(texts) == 1 and isinstance(texts[0], StrV) and not beyond:
                same = same_atoms(A.atoms_of(texts[0]), v["_atoms"])
            return [("the decimal library is handed the text itself, every character of it", same)]

        def replay(i, rb):
            from decimal import Decimal, getcontext
            getcontext().prec = 200
            pool = ["1" + "0" * (ki - 1) + (("." + "0" * (kf - 1) + "1") if kf and ki == 1 else ("." + "0" * kf if kf else "")), "7" * min(ki, 30) + "0" * max(ki - 30, 0) + ("." + "5" + "0" * (kf - 1) if kf else "")]
            last = (False, "")
            for t in pool:
                sig = t.replace(".", "").strip("0")
                if len(sig) > 34:
                    continue
                _, out, _ = replay_call(rb, ["number_display", t])
                try:
                    bad = Decimal(out.strip()) != Decimal(t)
                except Exception:
                    bad = True
                last = (bad, "FeelNumber::from_str(%s) prints %s" % (t, out.strip()[:70]))
                if bad:
                    return last
            return last
        jobs.append(lambda c: decide(c, crate, "text_to_library/dec_from_string/%d_%d" % (ki, kf), setup, post, replay, rb, models=A.ATOM_MODELS, unwind=8, max_cex=1,
                                     describe=lambda m, v: {k: model_value(m, x) for k, x in v.items() if not k.startswith("_")}))
    for ki, kf in ((1, 0), (34, 0), (45, 0), (1, 44), (20, 25)):
        mk_from_string(ki, kf)
    import feelvals as _fv
    U_NUMBER = _fv.Universe(mirror).idx("Number")
    for kind in ("integer", "decimal", "double"):
        for ki, kf in ((1, 0), (20, 0)) if kind == "integer" else ((1, 1), (1, 33), (17, 17), (20, 0)):
            mk_xsd(kind, ki, kf)
    run_parallel(check, jobs)


def replay_number(i, rb):
    """build the decimal with that coefficient/exponent through FeelNumber::from_str of its scientific text and print it"""
    L = i["L"]
    coeff = str(i["d1"]) + (str(i.get("rest", 0)).rjust(L - 1, "0") if L > 1 else "")
    adj = i["adjusted"]
    sci = ("-" if i["neg"] else "") + coeff[0] + ("." + coeff[1:] if L > 1 else "") + ("E+%d" % adj if i["form"] == "Eplus" else "E-%d" % adj)
    _, out, _ = replay_call(rb, ["number_display", sci])
    if i["form"] == "Eplus":
        want = ("-" if i["neg"] else "") + coeff + "0" * (adj - (L - 1))
    else:
        want = ("-" if i["neg"] else "") + "0." + "0" * (adj - 1) + coeff
    got = out.strip()
    # the library may render the value in plain notation itself or reduce it; compare as exact decimals
    from decimal import Decimal, getcontext
    getcontext().prec = 12000
    try:
        same_value = Decimal(got) == Decimal(sci)
        # plain decimal text that is also a JSON number: no superfluous leading zero
        plain = re.match(r"^-?(0|[1-9][0-9]*)(\.[0-9]+)?$", got) is not None
    except Exception:
        same_value, plain = False, False
    return not (same_value and plain), "FeelNumber::from_str(%s).to_string() = %s (plain decimal text: %s, same value: %s)" % (sci, got[:80], plain, same_value)


KNOWN_PRED = {}
