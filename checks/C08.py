"""C08 — built-in functions: named invocation = positional invocation (DESIGN §4 C08, part 1: dispatch agreement).

Engine M: for every built-in of the table below and every admitted arity, the positional wrapper
(feel-evaluator/src/bifs/positional.rs `bif_x(&[Value])`) and the named wrapper (bifs/named.rs `bif_x(&NamedParameters)`) are
executed from MIR on the same symbolic argument values, the named map being {DMN parameter name of position i -> argument i};
every `core::*` implementation is an uninterpreted logger.  Both runs must reach the same core function with the same arguments
in the same order (or both produce no call).  The DMN 1.3 parameter names per position are the oracle (table PARAMS).
The position arithmetic of sublist/substring/remove/insert before is decided for panics in C05; their functional
post-conditions and the string/regex/aggregate built-ins' own results are NOT decided by this check.
"""
import re

import z3

from vcommon import *  # noqa
from mcheck import MirCrate, decide, run_parallel, model_value
from mir.sym import Adt, En, FnV, Opaque, Outcome, Ref, Sc, StrV, VecV, UNIT, mk_bool, mk_int, none, some
from mir.models import deref, m_format_stub, R
from mir.parser import MirUnsupported
import feelvals as fv

ENGINE = "M (MIR -> SMT, z3): positional vs named dispatch with uninterpreted core functions"

# Bif variant -> (wrapper function name, [parameter names by position], minimal arity)   -- DMN 1.3, tables 72-79
PARAMS = {
    "Substring": ("bif_substring", ["string", "start position", "length"], 2),
    "StringLength": ("bif_string_length", ["string"], 1),
    "UpperCase": ("bif_upper_case", ["string"], 1),
    "LoweCase": ("bif_lower_case", ["string"], 1),
    "SubstringBefore": ("bif_substring_before", ["string", "match"], 2),
    "SubstringAfter": ("bif_substring_after", ["string", "match"], 2),
    "Replace": ("bif_replace", ["input", "pattern", "replacement", "flags"], 3),
    "Contains": ("bif_contains", ["string", "match"], 2),
    "StartsWith": ("bif_starts_with", ["string", "match"], 2),
    "EndsWith": ("bif_ends_with", ["string", "match"], 2),
    "Matches": ("bif_matches", ["input", "pattern", "flags"], 2),
    "Split": ("bif_split", ["string", "delimiter"], 2),
    "ListContains": ("bif_list_contains", ["list", "element"], 2),
    "Count": ("bif_count", ["list"], 1),
    "Min": ("bif_min", ["list"], 1),
    "Max": ("bif_max", ["list"], 1),
    "Sum": ("bif_sum", ["list"], 1),
    "Mean": ("bif_mean", ["list"], 1),
    "Median": ("bif_median", ["list"], 1),
    "Stddev": ("bif_stddev", ["list"], 1),
    "Mode": ("bif_mode", ["list"], 1),
    "Product": ("bif_product", ["list"], 1),
    "All": ("bif_all", ["list"], 1),
    "Any": ("bif_any", ["list"], 1),
    "Sublist": ("bif_sublist", ["list", "start position", "length"], 2),
    "InsertBefore": ("bif_insert_before", ["list", "position", "newItem"], 3),
    "Remove": ("bif_remove", ["list", "position"], 2),
    "Reverse": ("bif_reverse", ["list"], 1),
    "IndexOf": ("bif_index_of", ["list", "match"], 2),
    "DistinctValues": ("bif_distinct_values", ["list"], 1),
    "Flatten": ("bif_flatten", ["list"], 1),
    "Sort": ("bif_sort", ["list", "precedes"], 2),
    "Not": ("bif_not", ["negand"], 1),
    "Number": ("bif_number", ["from", "grouping separator", "decimal separator"], 3),
    "String": ("bif_string", ["from"], 1),
    "Decimal": ("bif_decimal", ["n", "scale"], 2),
    "Floor": ("bif_floor", ["n"], 1),
    "Ceiling": ("bif_ceiling", ["n"], 1),
    "Abs": ("bif_abs", ["n"], 1),
    "Modulo": ("bif_modulo", ["dividend", "divisor"], 2),
    "Sqrt": ("bif_sqrt", ["number"], 1),
    "Log": ("bif_log", ["number"], 1),
    "Exp": ("bif_exp", ["number"], 1),
    "Odd": ("bif_odd", ["number"], 1),
    "Even": ("bif_even", ["number"], 1),
    "GetValue": ("bif_get_value", ["m", "key"], 2),
    "GetEntries": ("bif_get_entries", ["m"], 1),
}


def read_names(mirror):
    src = mirror.read("feel-evaluator/src/bifs/named.rs")
    names = {}
    for m in re.finditer(r"static ref (NAME_\w+): Name = Name::(?:from\(\"([^\"]*)\"\)|new\(&\[([^\]]*)\]\));", src):
        names[m.group(1)] = m.group(2) if m.group(2) is not None else " ".join(x.strip().strip('"') for x in m.group(3).split(","))
    return names


def run(check, mirror, tier):
    rb = replay_build(mirror)
    crate = MirCrate(mirror, ["feel-evaluator", "feel"], overflow_checks=True)
    U = fv.Universe(mirror)
    names = read_names(mirror)
    rank = {}
    for t in sorted(set(names.values()) | {p for v in PARAMS.values() for p in v[1]}):
        rank[t] = len(rank)
    check.bounds += ["%d built-ins x every arity from the minimal one to the number of DMN parameters; argument values of any of the kinds "
                     "list / string / number / boolean / null / context" % len(PARAMS)]
    check.assumptions += ["oracle: DMN 1.3 parameter names per position (table PARAMS in checks/C08.py)",
                          "every core::* implementation is an uninterpreted function of its argument identities"]
    check.samples.append(dict(parameter_names_read_from_named_rs=names))

    pos_bodies = {}
    named_bodies = {}
    for key, b in crate.bodies.items():
        base = key.split("{dup#")[0].split("::")[-1]
        if base.startswith("bif_") and b.args and "{closure" not in key:
            ty = b.args[0][1].replace(" ", "")
            if ty.startswith("&["):
                pos_bodies[base] = b
            elif ty in ("&Value", "&dmntk_feel::values::Value"):
                named_bodies[base] = b

    def m_core(ex, st, callee, args, dest_ty):
        ids = []
        for a in args:
            ids.append(identify(ex, st, a))
        st.log.append(("core", callee.split("::")[-1], tuple(ids)))
        yield st, En("Value", z3.IntVal(U.idx("Irrelevant")), {"Irrelevant": ()})

    def identify(ex, st, a):
        """identity of an argument handed to a core function: which marker (or which marker's list payload / sub-slice) it is"""
        v = a
        hops = 0
        while isinstance(v, Ref):
            tag = st.cells.get(("marker-of", v.cell, v.projs))
            if tag is not None:
                return tag
            v = ex.read(st, v.cell, v.projs)
            hops += 1
        for tag, obj in ex.markers:
            if v is obj:
                return tag
            if isinstance(obj, En) and "List" in obj.alts and obj.alts["List"][0].fields[0] is v:
                return tag + ".items"
        if isinstance(v, VecV) and getattr(v, "elem_ty", None) and str(v.elem_ty).startswith("slice:"):
            return v.elem_ty
        if isinstance(v, En) and "Null" in v.alts and ex.concrete(v.disc) == U.idx("Null"):
            return "null"
        if isinstance(v, VecV):
            return "params[%s..]" % "?"
        return "other:%s" % type(v).__name__

    def m_subslice(ex, st, callee, args, dest_ty):
        """&parameters[k..]: identified by its start (the positional wrappers of variadic functions)"""
        v = deref(ex, st, args[0])
        lo = ex.concrete(args[1].fields[0].e)
        yield st, Ref(ex.new_cell(st, VecV(z3.simplify(v.len - lo), tuple(v.items[lo:]), "slice:params[%d..]" % lo), "subslice"))

    core_fns = sorted(set(re.findall(r"^pub fn (\w+)\(", mirror.read("feel-evaluator/src/bifs/core.rs"), re.M)))
    MODELS = [(re.compile(r"(^|::)(%s)$" % "|".join(core_fns)), m_core),
              (re.compile(r"^<\[Value\] as Index<(std::ops::)?RangeFrom<usize>>>::index$"), m_subslice),
              (re.compile(r"^format$|^std::fmt::format$|^alloc::fmt::format$"), m_format_stub)] + fv.VALUE_MODELS
    jobs = []

    def mk(variant, fn, pnames, k):
        oid = "dispatch/%s/%d" % (fn[4:], k)

        def setup(ex, st):
            if fn not in pos_bodies or fn not in named_bodies:
                raise MirUnsupported("wrapper %s not found in both dispatch modules" % fn)
            for nm, text in names.items():
                st.cells[("static", nm)] = Opaque("Name", z3.IntVal(rank[text]))
            # an argument bound to a parameter the DMN table calls `list` is a list (its contents arbitrary); the others are of any kind
            markers = [U.fresh(ex, st, 1, "arg%d" % i, kinds=(["List"] if pnames[i] == "list" else ["List", "String", "Number", "Boolean", "Null", "Context"]),
                               list_len=3, ctx_len=1) for i in range(k)]
            ex.markers = [("arg%d" % i, m) for i, m in enumerate(markers)]
            pvec = VecV(z3.IntVal(k), markers, "Value")
            pcell = ex.new_cell(st, pvec, "params")
            for i in range(k):
                st.cells[("marker-of", pcell, (("index", i),))] = "arg%d" % i
            ents = sorted([(rank[pnames[i]], i) for i in range(k)])
            mapv = fv.MapV(z3.IntVal(k), [Adt("tuple", None, (Opaque("Name", z3.IntVal(r)), Adt("tuple", None, (markers[i], mk_int(i + 1, "usize"))))) for r, i in ents], "kv")
            ncell = ex.new_cell(st, En("Value", z3.IntVal(U.idx("NamedParameters")), {"NamedParameters": (mapv,)}), "named")
            for pos, (r, i) in enumerate(ents):
                st.cells[("marker-of", ncell, (("downcast", "NamedParameters"), ("field", 0, None), ("index", pos), ("field", 1, None), ("field", 0, None)))] = "arg%d" % i

            def runner(ex, st):
                for o1 in ex.run_body(st, pos_bodies[fn], [Ref(pcell)]):
                    if o1.kind != "return":
                        yield o1
                        continue
                    n1 = len(o1.st.log)
                    for o2 in ex.run_body(o1.st, named_bodies[fn], [Ref(ncell)]):
                        if o2.kind != "return":
                            yield o2
                            continue
                        yield Outcome("return", o2.st, value=(tuple(o2.st.log[:n1]), tuple(o2.st.log[n1:])))
            return runner, None, {"_k": k, "_markers": markers}

        def post(ex, o, inputs):
            pos_calls = [e for e in o.value[0] if e[0] == "core"]
            named_calls = [e for e in o.value[1] if e[0] == "core"]
            norm = lambda calls: [(c[1], tuple(x.replace(".items", "") if False else x for x in c[2])) for c in calls]
            return [("positional and named invocation reach the same core function with the same arguments",
                     z3.BoolVal(norm(pos_calls) == norm(named_calls)))]

        def desc(m, inputs):
            return {"k": inputs["_k"], "args": [U.describe(m, x, model_value) for x in inputs["_markers"]]}
        def prefer(inputs):
            # a witness whose lists are [1, 2, 9] and whose strings/numbers are small tells functions apart in the native replay
            c = []
            for mk_ in inputs["_markers"]:
                if "List" in mk_.alts:
                    vec = mk_.alts["List"][0].fields[0]
                    c.append(z3.Implies(mk_.disc == U.idx("List"), vec.len == 3))
                    for it, r in zip(vec.items, (1, 2, 9)):
                        if "Number" in it.alts:
                            c.append(z3.Implies(mk_.disc == U.idx("List"), z3.And(it.disc == U.idx("Number"), it.alts["Number"][0].e == r)))
                if "Number" in mk_.alts:
                    c.append(z3.Implies(mk_.disc == U.idx("Number"), mk_.alts["Number"][0].e == 2))
            return z3.And(c) if c else z3.BoolVal(True)
        jobs.append(lambda c: decide(c, crate, oid, setup, post, lambda i, rb: replay_dispatch(variant, fn, pnames, i, rb), rb, models=MODELS, unwind=8,
                                     describe=desc, budget_s=600, min_paths=1, timeout_ms=20000, known_predicates=KNOWN_PRED, prefer=prefer))

    for variant, (fn, pnames, kmin) in sorted(PARAMS.items()):
        for k in range(kmin, len(pnames) + 1):
            mk(variant, fn, pnames, k)

    # --- variadic aggregates, positional form: f(list) works on the list's items, f(a, b, ..) on the arguments themselves --------------
    def mk_variadic(fn, k):
        oid = "variadic/%s/%d" % (fn, k)

        def setup(ex, st):
            if "bif_" + fn not in pos_bodies:
                raise MirUnsupported("positional wrapper bif_%s not found" % fn)
            markers = [U.fresh(ex, st, 1, "arg%d" % i, kinds=["List", "Number", "Boolean", "Null"], list_len=3, ctx_len=1) for i in range(k)]
            ex.markers = [("arg%d" % i, m) for i, m in enumerate(markers)]
            pvec = VecV(z3.IntVal(k), markers, "slice:all arguments")
            pcell = ex.new_cell(st, pvec, "params")
            for i in range(k):
                st.cells[("marker-of", pcell, (("index", i),))] = "arg%d" % i

            def runner(ex, st):
                yield from ex.run_body(st, pos_bodies["bif_" + fn], [Ref(pcell)])
            return runner, None, {"_k": k, "_markers": markers}

        def post(ex, o, inputs):
            calls = [e for e in o.st.log if e[0] == "core"]
            first_is_list = inputs["_markers"][0].disc == U.idx("List")
            got = [(c[1], c[2]) for c in calls]
            on_items = got == [(fn, ("arg0.items",))]
            on_args = got == [(fn, ("slice:all arguments",))]
            if k == 1:
                return [("%s(list) aggregates the items of the list, %s(x) the single argument" % (fn, fn),
                         z3.And(z3.Implies(first_is_list, z3.BoolVal(on_items)), z3.Implies(z3.Not(first_is_list), z3.BoolVal(on_args))))]
            return [("%s(a, b, ..) aggregates the arguments themselves (a leading list is one of the values, not the list of values)" % fn, z3.BoolVal(on_args))]

        def desc(m, inputs):
            return {"k": inputs["_k"], "args": [U.describe(m, x, model_value) for x in inputs["_markers"]]}

        def replay(i, rb):
            fname = fn
            kinds = [d["kind"] for d in i["args"]]
            telling = {"Number": ["3", "100", "7"], "List": ["[1, 2]", "[4]", "[5]"], "Boolean": ["true", "false", "true"], "Null": ["null"] * 3}
            args = [telling.get(kd, ["null"] * 3)[j] for j, kd in enumerate(kinds)]
            e1 = "%s(%s)" % (fname, ", ".join(args))
            # the same values as one explicit list: f(a, b, ..) must equal f([a, b, ..]); f([..]) alone is its own reference
            e2 = "%s([%s])" % (fname, ", ".join(args)) if len(args) > 1 or kinds[0] != "List" else e1
            _, o1, _ = replay_call(rb, ["feel", e1])
            _, o2, _ = replay_call(rb, ["feel", e2])
            n1, n2 = re.sub(r"null\(.*\)$", "null", o1), re.sub(r"null\(.*\)$", "null", o2)
            return n1 != n2, "%s -> %s ; %s -> %s" % (e1, o1[:80], e2, o2[:80])
        jobs.append(lambda c: decide(c, crate, oid, setup, post, replay, rb, models=MODELS, unwind=8, describe=desc, budget_s=600, min_paths=1,
                                     timeout_ms=20000, known_predicates=KNOWN_PRED))
    for fn in ("max", "min", "sum", "mean", "median", "mode", "all", "any"):
        for k in (1, 2, 3):
            mk_variadic(fn, k)
    from checks import C08_core
    C08_core.jobs_for(check, mirror, rb, crate, U, jobs, tier, KNOWN_PRED)
    run_parallel(check, jobs)


FEEL_NAME = {"LoweCase": "lower case"}


def replay_dispatch(variant, fn, pnames, i, rb):
    """positional vs named FEEL invocation.  The dispatch wrappers only look at the KIND of their arguments, so besides the
    solver's values a second witness with 'telling' contents of the same kinds is tried (still confirmed natively)."""
    fname = FEEL_NAME.get(variant) or re.sub(r"(?<!^)([A-Z])", lambda m: " " + m.group(1).lower(), variant).lower()
    cands = []
    if all(fv.replayable(d) for d in i["args"]):
        cands.append([fv.feel_text(d) for d in i["args"]])
    telling = {"String": ['"1,000.21"', '","', '"."', '"x"'], "Number": ["3", "1", "2", "5"], "List": ["[1,2,9]", "[2,3]", "[4]", "[5]"],
               "Boolean": ["true", "false", "true", "false"], "Null": ["null"] * 4, "Context": ["{a: 1}", "{b: 2}", "{c: 3}", "{d: 4}"]}
    cands.append([telling.get(d["kind"], ["null"] * 4)[k] for k, d in enumerate(i["args"])])
    last = ""
    for args in cands:
        e1 = "%s(%s)" % (fname, ", ".join(args))
        e2 = "%s(%s)" % (fname, ", ".join("%s: %s" % (n, a) for n, a in zip(pnames, args)))
        _, o1, _ = replay_call(rb, ["feel", e1])
        _, o2, _ = replay_call(rb, ["feel", e2])
        n1 = re.sub(r"null\(.*\)$", "null", o1)
        n2 = re.sub(r"null\(.*\)$", "null", o2)
        last = "%s -> %s ; %s -> %s" % (e1, o1[:80], e2, o2[:80])
        if n1 != n2:
            return True, last
    return False, last


KNOWN_PRED = {}
