"""C08, results of the core built-ins (DESIGN §4 C08) — the part of "returns the value the DMN specification defines" that can be
stated without the decimal library: list surgery by position, list membership / de-duplication, boolean aggregation, and the
string functions whose only arithmetic is over character positions.

Engine M: `bifs::core::<fn>` is executed from MIR on
  * lists of symbolic length 0..N whose items are numbers with symbolic ranks (item identity is tracked, equality of items is the
    real `evaluate_equals` on those ranks);
  * position / length arguments that are ANY number (floor + integrality contract, lib/numvals.py);
  * strings as sequences of 0..N symbolic Unicode scalar values (lib/charseq.py): byte lengths, char counts, find / slicing at byte
    offsets follow UTF-8 (1..4 bytes per scalar), so confusing bytes with characters shows up as a wrong result or a slicing panic.

Only the clear-cut part of the specification is asserted (positions 1..n and -n..-1, lengths that stay inside the value; wrong kinds
of arguments give null); what the specification leaves open at the edges (position n+1, length 0, lengths running past the end,
fractional positions) is NOT asserted either way.
"""
import re

import z3

from vcommon import *  # noqa
from mcheck import decide, model_value
from mir.sym import Adt, En, FnV, Opaque, Outcome, Ref, Sc, StrV, VecV, UNIT, mk_bool, mk_int, none, some
from mir.models import deref, m_format_stub, R, _base_ref
from mir.parser import MirUnsupported
import feelvals as fv
import numvals as nv
import charseq as cs


# --- content-aware Vec models (positions are enumerated: the lists are short) --------------------------------------------------


def m_vec_index_range(ex, st, callee, args, dest_ty):
    r = _base_ref(ex, st, args[0])
    v = deref(ex, st, r)
    rng = args[1]
    kind = re.search(r"Index<(?:std::ops::)?(RangeFrom|RangeTo|Range)<usize>>", callee).group(1)
    lo = rng.fields[0].e if kind in ("RangeFrom", "Range") else z3.IntVal(0)
    hi = rng.fields[-1].e if kind in ("RangeTo", "Range") else v.len
    bad = z3.Or(lo > hi, hi > v.len)
    for st2 in ex.branch(st, bad):
        yield Outcome("panic", st2, msg="slice index out of range (%s)" % callee)
    for st2 in ex.branch(st, z3.Not(bad)):
        for st3, a in ex.enum_values(st2, lo, limit=len(v.items) + 2):
            for st4, b in ex.enum_values(st3, hi, limit=len(v.items) + 2):
                yield st4, Ref(ex.new_cell(st4, VecV(z3.IntVal(b - a), tuple(v.items[a:b]), v.elem_ty), "subslice"))


def m_to_vec(ex, st, callee, args, dest_ty):
    yield st, deref(ex, st, args[0])


def m_vec_remove(ex, st, callee, args, dest_ty):
    r = _base_ref(ex, st, args[0])
    v = deref(ex, st, r)
    i = args[1]
    for st2 in ex.branch(st, i.e >= v.len):
        yield Outcome("panic", st2, msg="Vec::remove: removal index is out of bounds")
    for st2 in ex.branch(st, i.e < v.len):
        for st3, n in ex.enum_values(st2, v.len, limit=len(v.items) + 2):
            for st4, k in ex.enum_values(st3, i.e, limit=n + 2):
                v2 = deref(ex, st4, r)
                ex.write(st4, r.cell, r.projs, VecV(z3.IntVal(n - 1), tuple(v2.items[:k]) + tuple(v2.items[k + 1:n]), v2.elem_ty))
                yield st4, v2.items[k]


def m_iter_all(ex, st, callee, args, dest_ty):
    """Iterator::all(closure) over a slice iterator: short-circuit conjunction, the closure is the real code"""
    from mir.models import call_fn_value
    it = args[0]
    it = deref(ex, st, it) if isinstance(it, Ref) else it
    f = args[1]

    def rec(st, cur):
        for st2, it2, r in fv.iter_next(ex, st, cur):
            if ex.concrete(r.disc) == 0:
                yield st2, mk_bool(True)
                continue
            for o in call_fn_value(ex, st2, f, [r.alts["Some"][0]]):
                if o.kind != "return":
                    yield o
                    continue
                b = o.value
                for st3 in ex.branch(o.st, z3.Not(b.e)):
                    yield st3, mk_bool(False)
                for st3 in ex.branch(o.st, b.e):
                    yield from rec(st3, it2)
    yield from rec(st, it)


LIST_MODELS = [
    (R(r"^<(Vec<.*>|\[.*\]) as Index<(std::ops::)?Range(From|To)?<usize>>>::index$"), m_vec_index_range),
    (R(r"^(core|std)::slice::<impl \[.*\]>::to_vec$|^<\[.*\] as ToOwned>::to_owned$"), m_to_vec),
    (R(r"^Vec::<.*>::remove$"), m_vec_remove),
    (R(r"^<std::slice::Iter<.*> as Iterator>::all::<.*>$"), m_iter_all),
    (R(r"^format$|^std::fmt::format$|^alloc::fmt::format$"), m_format_stub),
]


def jobs_for(check, mirror, rb, crate, U, jobs, tier, KNOWN_PRED):
    N = 3 if tier == "quick" else 4
    check.bounds += ["core results: lists of length 0..%d of numbers with symbolic values (duplicates possible), a second list / extra items of length 0..2; "
                     "position and length arguments any number; strings of 0..%d symbolic Unicode scalar values (match strings 0..2), each 1..4 UTF-8 bytes"
                     % (N, N)]
    check.assumptions += ["core results: FeelNumber by its floor/integrality contract; str::find / contains / starts_with / ends_with / chars / slicing by their std "
                          "contracts over a sequence of scalar values (lib/charseq.py)",
                          "reference semantics: DMN 1.3 §10.3.4 tables for the listed functions, clear-cut region only (see the module docstring)"]
    MODELS = LIST_MODELS + cs.STR_MODELS + nv.NUM_MODELS + fv.VALUE_MODELS

    def num_item(ex, st, hint):
        return En("Value", z3.IntVal(U.idx("Number")), {"Number": (Opaque("FeelNumber", z3.Int(ex.fresh_name(hint + "_num"))),)})

    def list_value(ex, st, hint, nmax):
        n = ex.fresh_int(st, "usize", hint + "_len", constrain=False)
        ex.assume(st, z3.And(n.e >= 0, n.e <= nmax))
        items = [num_item(ex, st, "%s_i%d" % (hint, k)) for k in range(nmax)]
        return En("Value", z3.IntVal(U.idx("List")), {"List": (Adt("struct", "Values", (VecV(n.e, items, "Value"),)),)}), n.e, items

    def number_value(ex, st, hint):
        n = nv.fresh_number(ex, st, hint)
        return En("Value", z3.IntVal(U.idx("Number")), {"Number": (n,)}), n

    def rank(item):
        return item.alts["Number"][0].e

    def is_null(ex, v):
        return isinstance(v, En) and v.ty == "Value" and ex.concrete(v.disc) == U.idx("Null")

    def result_items(ex, res):
        """python list of the item objects of a List result (None if the result is not a list of concrete length)"""
        if not (isinstance(res, En) and res.ty == "Value" and ex.concrete(res.disc) == U.idx("List")):
            return None
        vec = res.alts["List"][0].fields[0]
        return vec.len, list(vec.items)

    def picks(ex, res, items, n, idx_of_k, count):
        """z3: res is the list [items[idx_of_k(0)], items[idx_of_k(1)], ...] of `count` items (idx / count are z3 Ints over the inputs;
        the result's own length may be symbolic)"""
        got = result_items(ex, res)
        if got is None:
            return z3.BoolVal(False)
        rlen, ritems = got
        conj = [count == rlen, rlen <= len(ritems)]
        for k, g in enumerate(ritems):
            where = [j for j, it in enumerate(items) if it is g]
            conj.append(z3.Implies(rlen > k, z3.Or([idx_of_k(k) == j for j in where] + [z3.BoolVal(False)])))
        return z3.And(conj)

    def desc_list(m, inputs):
        d = {}
        for k, v in inputs.items():
            if k.startswith("_"):
                continue
            d[k] = model_value(m, v)
        for lname in ("list", "list2"):
            if "_" + lname in inputs:
                n = d[lname + "_len"]
                d[lname] = [model_value(m, rank(it)) for it in inputs["_" + lname][:n]]
        return d

    def small(inputs):
        c = []
        for lname in ("list", "list2"):
            for it in inputs.get("_" + lname, []):
                c.append(z3.And(rank(it) >= 0, rank(it) <= 9))
        if "element" in inputs:
            c.append(z3.And(inputs["element"] >= 0, inputs["element"] <= 9))
        # telling witnesses: different items have different values (only a preference: dropped when the violation needs duplicates)
        allr = [rank(it) for lname in ("list", "list2") for it in inputs.get("_" + lname, [])] + ([rank(inputs["_new"])] if "_new" in inputs else [])
        if len(allr) > 1 and "element" not in inputs:
            c.append(z3.Distinct(allr))
        return z3.And(c) if c else z3.BoolVal(True)

    def add(oid, setup, post, replay, unwind=12, min_paths=2, reach=("non-null",)):
        def post2(ex, o, v):
            nul = is_null(ex, o.value)
            return post(ex, o, v) + [("reach:non-null result", z3.BoolVal(not nul)), ("reach:null result", z3.BoolVal(bool(nul)))]
        jobs.append(lambda c: decide(c, crate, "core/" + oid, setup, post2, replay, rb, models=MODELS, unwind=unwind, describe=desc_list, budget_s=900,
                                     min_paths=min_paths, timeout_ms=20000, known_predicates=KNOWN_PRED, prefer=small,
                                     need_reach=["reach:%s result" % r for r in reach]))

    def start_index(p, n):
        """0-based index denoted by the 1-based / from-the-end position p in a value of n items"""
        return z3.If(p > 0, p - 1, n + p)

    def in_domain(p, pint, n):
        return z3.And(pint, z3.Or(z3.And(p >= 1, p <= n), z3.And(p <= -1, p >= -n)))

    # ------------------------------------------------------------------------------------------------------------ sublist
    def setup_sublist(with_len):
        def setup(ex, st):
            lst, n, items = list_value(ex, st, "list", N)
            pv, p = number_value(ex, st, "position")
            inputs = {"list_len": n, "_list": items, "position_floor": p.e, "position_isint": p.info["int"]}
            args = [Ref(ex.new_cell(st, lst)), Ref(ex.new_cell(st, pv))]
            if with_len:
                lv, l = number_value(ex, st, "length")
                inputs.update(length_floor=l.e, length_isint=l.info["int"])
                args.append(Ref(ex.new_cell(st, lv)))
            return ("sublist3" if with_len else "sublist2"), args, inputs
        return setup

    def post_sublist(with_len):
        def post(ex, o, v):
            res, n, p, pint = o.value, v["list_len"], v["position_floor"], v["position_isint"]
            s = start_index(p, n)
            dom = in_domain(p, pint, n)
            props = []
            if with_len:
                l, lint = v["length_floor"], v["length_isint"]
                inside = z3.And(dom, lint, l >= 1, s + l <= n)
                props.append(("sublist(list, p, l) with the range inside the list is items p .. p+l-1", z3.Implies(inside, picks(ex, res, v["_list"], n, lambda k: s + k, l))))
                props.append(("a range running past the end of the list or a negative length gives null", z3.Implies(z3.And(dom, lint, z3.Or(l < 0, s + l > n)), z3.BoolVal(is_null(ex, res)))))
            else:
                props.append(("sublist(list, p) is the items from position p to the end", z3.Implies(dom, picks(ex, res, v["_list"], n, lambda k: s + k, n - s))))
            props.append(("position 0 or a position beyond the list gives null", z3.Implies(z3.And(pint, z3.Or(p == 0, p > n, p < -n)), z3.BoolVal(is_null(ex, res)))))
            return props
        return post

    add("sublist2", setup_sublist(False), post_sublist(False), lambda i, rb: replay_list("sublist", i, rb), reach=("non-null", "null"))
    add("sublist3", setup_sublist(True), post_sublist(True), lambda i, rb: replay_list("sublist", i, rb), reach=("non-null", "null"))

    # ------------------------------------------------------------------------------------------------------------ remove / insert before
    def setup_remove(ex, st):
        lst, n, items = list_value(ex, st, "list", N)
        pv, p = number_value(ex, st, "position")
        return "remove", [Ref(ex.new_cell(st, lst)), Ref(ex.new_cell(st, pv))], {"list_len": n, "_list": items, "position_floor": p.e, "position_isint": p.info["int"]}

    def post_remove(ex, o, v):
        res, n, p, pint = o.value, v["list_len"], v["position_floor"], v["position_isint"]
        s = start_index(p, n)
        return [("remove(list, p) is the list without its item at position p", z3.Implies(in_domain(p, pint, n), picks(ex, res, v["_list"], n, lambda k: z3.If(k < s, k, k + 1), n - 1))),
                ("position 0 or a position beyond the list gives null", z3.Implies(z3.And(pint, z3.Or(p == 0, p > n, p < -n)), z3.BoolVal(is_null(ex, res))))]
    add("remove", setup_remove, post_remove, lambda i, rb: replay_list("remove", i, rb), reach=("non-null", "null"))

    def setup_insert(ex, st):
        lst, n, items = list_value(ex, st, "list", N)
        pv, p = number_value(ex, st, "position")
        new = num_item(ex, st, "new_item")
        inputs = {"list_len": n, "_list": items, "position_floor": p.e, "position_isint": p.info["int"], "_new": new, "new_item": rank(new)}
        return "insert_before", [Ref(ex.new_cell(st, lst)), Ref(ex.new_cell(st, pv)), Ref(ex.new_cell(st, new))], inputs

    def post_insert(ex, o, v):
        res, n, p, pint = o.value, v["list_len"], v["position_floor"], v["position_isint"]
        s = start_index(p, n)
        ext = list(v["_list"]) + [v["_new"]]
        new_at = len(ext) - 1
        return [("insert before(list, p, x) is the list with x in front of the item at position p",
                 z3.Implies(in_domain(p, pint, n), picks(ex, res, ext, n, lambda k: z3.If(k < s, k, z3.If(k == s, new_at, k - 1)), n + 1))),
                ("position 0 or a position more than one beyond the list gives null", z3.Implies(z3.And(pint, z3.Or(p == 0, p > n + 1, p < -n)), z3.BoolVal(is_null(ex, res))))]
    add("insert_before", setup_insert, post_insert, lambda i, rb: replay_list("insert before", i, rb), reach=("non-null", "null"))

    # ------------------------------------------------------------------------------------------------------------ reverse / count / append / concatenate
    def setup_one_list(fn):
        def setup(ex, st):
            lst, n, items = list_value(ex, st, "list", N)
            return fn, [Ref(ex.new_cell(st, lst))], {"list_len": n, "_list": items}
        return setup

    add("reverse", setup_one_list("reverse"), lambda ex, o, v: [("reverse(list) is the items in opposite order", picks(ex, o.value, v["_list"], v["list_len"], lambda k: v["list_len"] - 1 - k, v["list_len"]))],
        lambda i, rb: replay_list("reverse", i, rb))

    def post_count(ex, o, v):
        res = o.value
        okk = isinstance(res, En) and ex.concrete(res.disc) == U.idx("Number")
        return [("count(list) is the number of items", z3.And(z3.BoolVal(bool(okk)), res.alts["Number"][0].e == v["list_len"]) if okk else z3.BoolVal(False))]
    add("count", setup_one_list("count"), post_count, lambda i, rb: replay_list("count", i, rb), min_paths=1)

    def setup_two(fn):
        def setup(ex, st):
            lst, n, items = list_value(ex, st, "list", N)
            lst2, n2, items2 = list_value(ex, st, "list2", 2)
            inputs = {"list_len": n, "_list": items, "list2_len": n2, "_list2": items2}
            if fn == "append":  # append(list, item...): the FEEL call needs at least one item
                ex.assume(st, n2 >= 1)
                args = [Ref(ex.new_cell(st, lst)), Ref(ex.new_cell(st, VecV(n2, items2, "Value")))]
            else:               # concatenate(list...) / union(list...)
                args = [Ref(ex.new_cell(st, VecV(z3.IntVal(2), (lst, lst2), "Value")))]
            return fn, args, inputs
        return setup

    def post_concat(ex, o, v):
        n, n2 = v["list_len"], v["list2_len"]
        both = list(v["_list"]) + list(v["_list2"])
        off = len(v["_list"])
        return [("the result is the items of the first list followed by the others, in order", picks(ex, o.value, both, n, lambda k: z3.If(k < n, k, off + (k - n)), n + n2))]
    add("append", setup_two("append"), post_concat, lambda i, rb: replay_list("append", i, rb))
    add("concatenate", setup_two("concatenate"), post_concat, lambda i, rb: replay_list("concatenate", i, rb))

    # ------------------------------------------------------------------------------------------------------------ index of / list contains / distinct values / union
    def setup_elem(fn):
        def setup(ex, st):
            lst, n, items = list_value(ex, st, "list", N)
            e = num_item(ex, st, "element")
            return fn, [Ref(ex.new_cell(st, lst)), Ref(ex.new_cell(st, e))], {"list_len": n, "_list": items, "element": rank(e)}
        return setup

    def post_index_of(ex, o, v):
        got = result_items(ex, o.value)
        if got is None:
            return [("index of(list, x) is a list", z3.BoolVal(False))]
        n, items, e = v["list_len"], v["_list"], v["element"]
        rlen, ritems = got
        hits = [z3.And(n > j, rank(it) == e) for j, it in enumerate(items)]
        cnt = z3.Sum([z3.If(h, 1, 0) for h in hits]) if hits else z3.IntVal(0)
        conj = [cnt == rlen, rlen <= len(ritems)]
        for k, g in enumerate(ritems):
            if not (isinstance(g, En) and "Number" in g.alts):
                return [("index of(list, x) is a list of numbers", z3.BoolVal(False))]
            pos = g.alts["Number"][0].e
            # the k-th reported position is the (k+1)-th hit
            conj.append(z3.Implies(rlen > k, z3.Or([z3.And(pos == j + 1, hits[j], z3.Sum([z3.If(h, 1, 0) for h in hits[:j]] + [z3.IntVal(0)]) == k)
                                                    for j in range(len(items))] + [z3.BoolVal(False)])))
        return [("index of(list, x) lists the 1-based positions of the items equal to x, ascending", z3.And(conj))]
    add("index_of", setup_elem("index_of"), post_index_of, lambda i, rb: replay_list("index of", i, rb))

    def post_list_contains(ex, o, v):
        res = o.value
        if not (isinstance(res, En) and ex.concrete(res.disc) == U.idx("Boolean")):
            return [("list contains(list, x) is a boolean", z3.BoolVal(False))]
        hit = z3.Or([z3.And(v["list_len"] > j, rank(it) == v["element"]) for j, it in enumerate(v["_list"])] + [z3.BoolVal(False)])
        return [("list contains(list, x) is true iff some item equals x", res.alts["Boolean"][0].e == hit)]
    add("list_contains", setup_elem("list_contains"), post_list_contains, lambda i, rb: replay_list("list contains", i, rb))

    def first_occurrences(ex, res, items, count_expr_len):
        """z3: res is the list of the items that equal no earlier item, in order"""
        got = result_items(ex, res)
        if got is None:
            return z3.BoolVal(False)
        rlen, ritems = got
        keep = []
        for j, it in enumerate(items):
            keep.append(z3.And(count_expr_len(j), *[z3.Not(z3.And(count_expr_len(i), rank(items[i]) == rank(it))) for i in range(j)]))
        conj = [z3.Sum([z3.If(kp, 1, 0) for kp in keep] + [z3.IntVal(0)]) == rlen, rlen <= len(ritems)]
        for k, g in enumerate(ritems):
            where = [j for j, it in enumerate(items) if it is g]
            conj.append(z3.Implies(rlen > k, z3.Or([z3.And(keep[j], z3.Sum([z3.If(kp, 1, 0) for kp in keep[:j]] + [z3.IntVal(0)]) == k) for j in where] + [z3.BoolVal(False)])))
        return z3.And(conj)

    add("distinct_values", setup_one_list("distinct_values"),
        lambda ex, o, v: [("distinct values(list) keeps the first occurrence of every value, in order",
                           first_occurrences(ex, o.value, v["_list"], lambda j: v["list_len"] > j))], lambda i, rb: replay_list("distinct values", i, rb), unwind=24)

    def post_union(ex, o, v):
        both = list(v["_list"]) + list(v["_list2"])
        off = len(v["_list"])
        return [("union(list, list2) is the concatenation without later duplicates",
                 first_occurrences(ex, o.value, both, lambda j: (v["list_len"] > j) if j < off else (v["list2_len"] > j - off)))]
    add("union", setup_two("union"), post_union, lambda i, rb: replay_list("union", i, rb), unwind=24)

    # ------------------------------------------------------------------------------------------------------------ flatten
    def setup_flatten(ex, st):
        inner1, n1, items1 = list_value(ex, st, "list", 2)
        inner2, n2, items2 = list_value(ex, st, "list2", 2)
        a = num_item(ex, st, "first")
        shape = ex.fresh_int(st, "u8", "shape", constrain=False)
        ex.assume(st, z3.And(shape.e >= 0, shape.e <= 2))
        deep = En("Value", z3.IntVal(U.idx("List")), {"List": (Adt("struct", "Values", (VecV(z3.IntVal(1), (inner2,), "Value"),)),)})
        # shape 0: [a, list, list2]   shape 1: [list, [list2], a]   shape 2: [[list2], a]
        outer = {0: (a, inner1, inner2), 1: (inner1, deep, a), 2: (deep, a)}
        inputs = {"list_len": n1, "_list": items1, "list2_len": n2, "_list2": items2, "first": rank(a), "_first": a, "shape": shape.e}

        def runner(ex, st):
            for st2, s in ex.enum_values(st, shape.e, limit=4):
                o_ = outer[s]
                lst = En("Value", z3.IntVal(U.idx("List")), {"List": (Adt("struct", "Values", (VecV(z3.IntVal(len(o_)), o_, "Value"),)),)})
                yield from ex.run("flatten", [Ref(ex.new_cell(st2, lst))], st2)
        return runner, None, inputs

    def post_flatten(ex, o, v):
        got = result_items(ex, o.value)
        if got is None:
            return [("flatten(list) is a list", z3.BoolVal(False))]
        n1, n2 = v["list_len"], v["list2_len"]
        a, l1, l2 = [v["_first"]], list(v["_list"]), list(v["_list2"])
        props = []
        for s, order in ((0, [("a", a), ("l1", l1), ("l2", l2)]), (1, [("l1", l1), ("l2", l2), ("a", a)]), (2, [("l2", l2), ("a", a)])):
            # expected sequence under shape s: the present items of the parts in this order
            seq = []
            for nm, part in order:
                for j, it in enumerate(part):
                    present = z3.BoolVal(True) if nm == "a" else ((n1 > j) if nm == "l1" else (n2 > j))
                    seq.append((it, present))
            total = z3.Sum([z3.If(p, 1, 0) for _, p in seq] + [z3.IntVal(0)])
            rlen, ritems = got
            conj = [total == rlen, rlen <= len(ritems)]
            for k, g in enumerate(ritems):
                conj.append(z3.Implies(rlen > k, z3.Or([z3.And(p, z3.Sum([z3.If(q, 1, 0) for _, q in seq[:j]] + [z3.IntVal(0)]) == k)
                                                        for j, (it, p) in enumerate(seq) if it is g] + [z3.BoolVal(False)])))
            props.append(z3.Implies(v["shape"] == s, z3.And(conj)))
        return [("flatten(list) lists the non-list items of all nesting levels in document order", z3.And(props))]
    add("flatten", setup_flatten, post_flatten, lambda i, rb: replay_flatten(i, rb), unwind=24)

    # ------------------------------------------------------------------------------------------------------------ all / not
    def setup_all(ex, st):
        n = ex.fresh_int(st, "usize", "list_len", constrain=False)
        ex.assume(st, z3.And(n.e >= 0, n.e <= N))
        items = [U.fresh(ex, st, 0, "item%d" % k, kinds=["Boolean", "Null", "Number"]) for k in range(N)]
        return "all", [Ref(ex.new_cell(st, VecV(n.e, items, "Value")))], {"list_len": n.e, "_items": items}

    def post_all(ex, o, v):
        res, n, items = o.value, v["list_len"], v["_items"]
        isb = [it.disc == U.idx("Boolean") for it in items]
        anyfalse = z3.Or([z3.And(n > j, isb[j], z3.Not(it.alts["Boolean"][0].e)) for j, it in enumerate(items)] + [z3.BoolVal(False)])
        alltrue = z3.And([z3.Implies(n > j, z3.And(isb[j], it.alts["Boolean"][0].e)) for j, it in enumerate(items)])
        rb_ = isinstance(res, En) and ex.concrete(res.disc) == U.idx("Boolean")
        val = res.alts["Boolean"][0].e if rb_ else None
        return [("all(list) is false if any item is false", z3.Implies(anyfalse, z3.And(z3.BoolVal(bool(rb_)), z3.Not(val)) if rb_ else z3.BoolVal(False))),
                ("all(list) is true if the list is empty or all items are true", z3.Implies(alltrue, z3.And(z3.BoolVal(bool(rb_)), val) if rb_ else z3.BoolVal(False))),
                ("all(list) is null otherwise", z3.Implies(z3.And(z3.Not(anyfalse), z3.Not(alltrue)), z3.BoolVal(is_null(ex, res))))]

    def desc_all(m, inputs):
        n = model_value(m, inputs["list_len"])
        return {"items": [U.describe(m, it, model_value) for it in inputs["_items"][:n]]}
    jobs.append(lambda c: decide(c, crate, "core/all", setup_all, post_all, replay_all, rb, models=MODELS, unwind=12, describe=desc_all, budget_s=600, min_paths=2,
                                 timeout_ms=20000, known_predicates=KNOWN_PRED,
                                 prefer=lambda inp: z3.And([U.replayable_pref(it) for it in inp["_items"]])))

    def setup_not(ex, st):
        x = U.fresh(ex, st, 0, "x")
        return "not", [Ref(ex.new_cell(st, x))], {"_x": x}

    def post_not(ex, o, v):
        res, x = o.value, v["_x"]
        isb = x.disc == U.idx("Boolean")
        rb_ = isinstance(res, En) and ex.concrete(res.disc) == U.idx("Boolean")
        return [("not(b) negates a boolean", z3.Implies(isb, (res.alts["Boolean"][0].e == z3.Not(x.alts["Boolean"][0].e)) if rb_ else z3.BoolVal(False))),
                ("not(x) of anything else is null", z3.Implies(z3.Not(isb), z3.BoolVal(is_null(ex, res))))]
    jobs.append(lambda c: decide(c, crate, "core/not", setup_not, post_not, lambda i, rb: replay_generic("not", [i["x"]], rb), rb, models=MODELS, unwind=8,
                                 describe=lambda m, inp: {"x": U.describe(m, inp["_x"], model_value)}, budget_s=600, min_paths=2, timeout_ms=20000,
                                 known_predicates=KNOWN_PRED, prefer=lambda inp: U.replayable_pref(inp["_x"])))

    cs.string_jobs(check, mirror, rb, crate, U, jobs, tier, KNOWN_PRED, MODELS, N, in_domain, start_index, is_null)


# ----------------------------------------------------------------------------- native replay


def num_text(fl, isint):
    if isint:
        return str(fl) if fl >= 0 else "(%d)" % fl
    return "%d.5" % fl if fl >= 0 else "(%d.5)" % fl if fl < -1 else "(-0.5)"


def py_ref_list(fn, i):
    """reference result as FEEL text (None: the specification's clear-cut region does not cover this input)"""
    L = list(i.get("list", []))
    n = len(L)

    def pos():
        if not i.get("position_isint", True):
            return None
        p = i["position_floor"]
        if p == 0 or p > n or p < -n:
            return "null" if not (fn == "insert before" and p == n + 1) else None
        return p - 1 if p > 0 else n + p

    def txt(xs):
        return "[" + ",".join(str(x) if x >= 0 else "(%d)" % x for x in xs) + "]"
    if fn == "sublist":
        s = pos()
        if s is None or s == "null":
            return s
        if "length_floor" in i:
            if not i["length_isint"] or i["length_floor"] == 0:
                return None
            l = i["length_floor"]
            return txt(L[s:s + l]) if l >= 1 and s + l <= n else "null"
        return txt(L[s:])
    if fn == "remove":
        s = pos()
        return s if s is None or s == "null" else txt(L[:s] + L[s + 1:])
    if fn == "insert before":
        s = pos()
        return s if s is None or s == "null" else txt(L[:s] + [i["new_item"]] + L[s:])
    if fn == "reverse":
        return txt(L[::-1])
    if fn == "count":
        return str(n)
    if fn in ("append", "concatenate"):
        return txt(L + list(i.get("list2", [])))
    if fn == "index of":
        return txt([k + 1 for k, x in enumerate(L) if x == i["element"]])
    if fn == "list contains":
        return "true" if i["element"] in L else "false"
    if fn in ("distinct values", "union"):
        out = []
        for x in L + list(i.get("list2", [])):
            if x not in out:
                out.append(x)
        return txt(out)
    return None


def replay_list(fn, i, rb):
    def txt(xs):
        return "[" + ",".join(str(x) if x >= 0 else "(%d)" % x for x in xs) + "]"
    if any(abs(x) > 10 ** 9 for x in list(i.get("list", [])) + list(i.get("list2", []))):
        return False, "ranks not expressible"
    args = [txt(i.get("list", []))]
    if fn in ("sublist", "remove", "insert before"):
        args.append(num_text(i["position_floor"], i["position_isint"]))
    if fn == "sublist" and "length_floor" in i:
        args.append(num_text(i["length_floor"], i["length_isint"]))
    if fn == "insert before":
        args.append(str(i["new_item"]) if i["new_item"] >= 0 else "(%d)" % i["new_item"])
    if fn == "append":
        args += [str(x) if x >= 0 else "(%d)" % x for x in i.get("list2", [])]
    if fn in ("concatenate", "union"):
        args.append(txt(i.get("list2", [])))
    if fn in ("index of", "list contains"):
        args.append(str(i["element"]) if i["element"] >= 0 else "(%d)" % i["element"])
    expr = "%s(%s)" % (fn, ", ".join(args))
    ref = py_ref_list(fn, i)
    _, out, _ = replay_call(rb, ["feel", expr])
    if ref is None:
        return False, "%s -> %s (outside the asserted region)" % (expr, out[:100])
    _, want, _ = replay_call(rb, ["feel", ref])
    from checks.C11_itemdef import strip_null_text
    bad = out.startswith("VALUE") and want.startswith("VALUE") and strip_null_text(out.strip()) != strip_null_text(want.strip())
    return bad or out.startswith("PANIC"), "%s -> %s, reference %s" % (expr, out[:120], ref)


def replay_flatten(i, rb):
    def txt(xs):
        return "[" + ",".join(str(x) if x >= 0 else "(%d)" % x for x in xs) + "]"
    a, l1, l2 = i["first"], list(i.get("list", [])), list(i.get("list2", []))
    at = str(a) if a >= 0 else "(%d)" % a
    expr, ref = {0: ("[%s, %s, %s]" % (at, txt(l1), txt(l2)), [a] + l1 + l2),
                 1: ("[%s, [%s], %s]" % (txt(l1), txt(l2), at), l1 + l2 + [a]),
                 2: ("[[%s], %s]" % (txt(l2), at), l2 + [a])}[i["shape"]]
    _, out, _ = replay_call(rb, ["feel", "flatten(%s)" % expr])
    _, want, _ = replay_call(rb, ["feel", txt(ref)])
    return (out.strip() != want.strip() and out.startswith("VALUE")) or out.startswith("PANIC"), "flatten(%s) -> %s, reference %s" % (expr, out[:120], txt(ref))


def replay_all(i, rb):
    items = i["items"]
    if not all(fv.replayable(d) for d in items):
        return False, "not expressible"
    expr = "all([%s])" % ",".join(fv.feel_text(d) for d in items)
    anyfalse = any(d["kind"] == "Boolean" and not d["v"] for d in items)
    alltrue = all(d["kind"] == "Boolean" and d["v"] for d in items)
    ref = "false" if anyfalse else "true" if alltrue else "null"
    _, out, _ = replay_call(rb, ["feel", expr])
    from checks.C11_itemdef import strip_null_text
    return strip_null_text(out.strip()) != "VALUE " + ref, "%s -> %s, DMN: %s" % (expr, out[:100], ref)


def replay_generic(fn, ds, rb):
    if not all(fv.replayable(d) for d in ds):
        return False, "not expressible"
    expr = "%s(%s)" % (fn, ", ".join(fv.feel_text(d) for d in ds))
    _, out, _ = replay_call(rb, ["feel", expr])
    from checks.C11_itemdef import strip_null_text
    if fn == "not":
        d = ds[0]
        ref = ("false" if d["v"] else "true") if d["kind"] == "Boolean" else "null"
        return strip_null_text(out.strip()) != "VALUE " + ref, "%s -> %s, DMN: %s" % (expr, out[:100], ref)
    return False, "%s -> %s" % (expr, out[:100])
