"""C09 — three-valued logic, equality and ordering laws (DESIGN §4 C09).

Engine M: the operator closures of feel-evaluator/src/builders.rs (build_and/or/eq/nq/lt/le/gt/ge/between, eval_in_range,
eval_ternary_equality) are executed from MIR on symbolic `Value`s (lib/feelvals.py); FeelDate comparison is inlined from the
feel crate's MIR down to the chrono contract.  The laws are checked between the results of two symbolic runs.
"""
import re

import z3

from vcommon import *  # noqa
from mcheck import MirCrate, decide, run_parallel, model_value
from mir.sym import Adt, En, FnV, Opaque, Outcome, Ref, Sc, StrV, VecV, UNIT, mk_bool
from mir.parser import MirUnsupported
import feelvals as fv

ENGINE = "M (MIR -> SMT, z3) over symbolic FEEL values"


def const_eval(v):
    return FnV("@const", (v,))


def closure_env(ex, st, name, evaluators):
    """environment of a `build_xxx::{closure#0}`: the captured sub-evaluators in capture order"""
    env = Adt("closure", name, [Ref(ex.new_cell(st, e, "box")) for e in evaluators])
    return Ref(ex.new_cell(st, env, "env"))


def run_op(ex, st, builder, operands):
    """generator of Outcome: the closure of `builder` applied to constant sub-evaluators"""
    body = "%s::{closure#0}" % builder
    if body not in ex.bodies:
        raise MirUnsupported("no MIR body %s" % body)
    # the closure captures its sub-evaluators by name (lhe / mhe / rhe); a capture the closure does not use is not in its
    # environment, so the environment is built from the capture list of the builder's MIR, not from the operand count
    names = {1: ["lhe"], 2: ["lhe", "rhe"], 3: ["lhe", "mhe", "rhe"]}.get(len(operands))
    m = re.search(r"\{closure@[^}]*\} \{ ([^}]*) \}", ex.bodies[builder].text) if builder in ex.bodies else None
    caps = [x.split(":")[0].strip() for x in m.group(1).split(",")] if m else None
    if caps is not None and names is not None:
        if not set(caps) <= set(names):
            raise MirUnsupported("%s's closure captures %s, expected a subset of %s" % (builder, caps, names))
        byname = dict(zip(names, operands))
        env = closure_env(ex, st, body, [const_eval(byname[c]) for c in caps])
    else:
        env = closure_env(ex, st, body, [const_eval(v) for v in operands])
    scope = Ref(ex.new_cell(st, Opaque("Scope"), "scope"))
    yield from ex.run_body(st, ex.bodies[body], [env, scope])


def tri(U, v):
    """three-valued reading of a Value: 1 true, 0 false, -1 null (every non-boolean)"""
    b = v.alts["Boolean"][0].e if "Boolean" in v.alts else z3.BoolVal(False)
    return z3.If(v.disc == U.idx("Boolean"), z3.If(b, z3.IntVal(1), z3.IntVal(0)), z3.IntVal(-1))


def is_bool_or_null(U, v):
    return z3.Or(v.disc == U.idx("Boolean"), v.disc == U.idx("Null"))


def same_result(U, r1, r2):
    return z3.And(is_bool_or_null(U, r1), is_bool_or_null(U, r2), tri(U, r1) == tri(U, r2))


def two_runs(builder1, ops1, builder2, ops2):
    def runner(ex, st):
        for o1 in run_op(ex, st, builder1, ops1):
            if o1.kind != "return":
                yield o1
                continue
            for o2 in run_op(ex, o1.st, builder2, ops2):
                if o2.kind != "return":
                    yield o2
                    continue
                yield Outcome("return", o2.st, value=(o1.value, o2.value))
    return runner


def n_runs(specs):
    """specs: list of (builder, operands) -> Outcome.value = tuple of results"""
    def runner(ex, st):
        def rec(st, k, acc):
            if k == len(specs):
                yield Outcome("return", st, value=tuple(acc))
                return
            b, ops = specs[k]
            for o in run_op(ex, st, b, ops):
                if o.kind != "return":
                    yield o
                    continue
                yield from rec(o.st, k + 1, acc + [o.value])
        yield from rec(st, 0, [])
    return runner


def run(check, mirror, tier):
    rb = replay_build(mirror)
    crate = MirCrate(mirror, ["feel-evaluator", "feel"], overflow_checks=True)
    U = fv.Universe(mirror)
    depth = 1
    LL = 2 if tier == "quick" else 3
    check.bounds += ["operands: every Value kind in {%s, List, Context, one non-comparable representative}; lists/contexts of length <= %d "
                     "whose elements are scalar kinds (nesting depth 1)" % (", ".join(fv.SCALAR_KINDS), LL),
                     "numbers, strings, durations, times: payload abstracted to a total order (rank); dates: real (year, month, day)"]
    check.assumptions += ["FeelNumber/String/duration ==, <: total order contract (rank model)",
                          "FeelTime/FeelDateTime equal/before/..: Option<bool> contract, None unless both comparable",
                          "chrono: a date converts iff calendar date with |year| <= 262143; instants of UTC midnights ordered as (y, m, d)",
                          "sub-expressions are arbitrary: constant evaluators returning the symbolic operand"]
    from mir.models import m_format_stub
    def m_is_valid_date_contract(ex, st, callee, args, dest_ty):
        yield st, mk_bool(U.cal_valid(args[0].e, args[1].e, args[2].e))
    MODELS = [(re.compile(r"^format$|^std::fmt::format$|^alloc::fmt::format$"), m_format_stub),
              (re.compile(r"^is_valid_date$"), m_is_valid_date_contract)] + fv.VALUE_MODELS
    check.assumptions.append("is_valid_date is replaced by its contract (calendar validity), decided for all inputs by K/k_is_valid_date in C14/C15")
    jobs = []

    def describe(names):
        def d(m, inputs):
            return {k: U.describe(m, inputs[k], model_value) for k in names}
        return d

    def mk(oid, nvals, specs_fn, post_fn, kinds=None, vdepth=0, unwind=8, budget=900, replay_fn=None):
        names = ["a", "b", "c"][:nvals]

        def setup(ex, st):
            vals = {n: U.fresh(ex, st, vdepth, n, kinds=kinds, list_len=LL, ctx_len=LL) for n in names}
            return n_runs(specs_fn(vals)), None, vals

        def post(ex, o, vals):
            return post_fn(o.value, vals)

        jobs.append(lambda c: decide(c, crate, oid, setup, post, replay_fn or (lambda i, rb: replay_law(oid, i, rb)), rb, models=MODELS, unwind=unwind,
                                     describe=describe(names), budget_s=budget, min_paths=1, timeout_ms=20000,
                                     known_predicates=KNOWN_PRED))

    # A. and / or truth tables ---------------------------------------------------------------------------------
    def tt(op):
        def post(res, v):
            r = res[0]
            a, b = tri(U, v["a"]), tri(U, v["b"])
            if op == "and":
                want = z3.If(z3.Or(a == 0, b == 0), 0, z3.If(z3.And(a == 1, b == 1), 1, -1))
            else:
                want = z3.If(z3.Or(a == 1, b == 1), 1, z3.If(z3.And(a == 0, b == 0), 0, -1))
            return [("%s follows the three-valued truth table (non-booleans count as null)" % op,
                     z3.And(is_bool_or_null(U, r), tri(U, r) == want))]
        return post
    mk("and_truth_table", 2, lambda v: [("build_and", [v["a"], v["b"]])], tt("and"))
    mk("or_truth_table", 2, lambda v: [("build_or", [v["a"], v["b"]])], tt("or"))

    # B/C. equality symmetric, != its negation -----------------------------------------------------------------
    def eq_post(res, v):
        e_ab, e_ba, n_ab = res
        return [("a = b and b = a give the same result", same_result(U, e_ab, e_ba)),
                ("a != b is the negation of a = b", z3.And(is_bool_or_null(U, n_ab),
                                                           tri(U, n_ab) == z3.If(tri(U, e_ab) == -1, -1, 1 - tri(U, e_ab))))]
    eq_specs = lambda v: [("build_eq", [v["a"], v["b"]]), ("build_eq", [v["b"], v["a"]]), ("build_nq", [v["a"], v["b"]])]
    mk("equality_scalars", 2, eq_specs, eq_post)
    mk("equality_lists", 2, eq_specs, eq_post, kinds=["List", "Null", "Number"], vdepth=1, unwind=LL + 3)
    mk("equality_contexts", 2, eq_specs, eq_post, kinds=["Context", "Null", "Number"], vdepth=1, unwind=LL + 3)

    # D. ordering mirror images ------------------------------------------------------------------------------------
    def ord_post(res, v):
        lt_ab, gt_ba, le_ab, ge_ba = res
        return [("a < b equals b > a", same_result(U, lt_ab, gt_ba)), ("a <= b equals b >= a", same_result(U, le_ab, ge_ba))]
    mk("ordering_mirror", 2, lambda v: [("build_lt", [v["a"], v["b"]]), ("build_gt", [v["b"], v["a"]]),
                                        ("build_le", [v["a"], v["b"]]), ("build_ge", [v["b"], v["a"]])], ord_post)

    # E. one ordered kind: trichotomy and <= ------------------------------------------------------------------------
    # the ordered kinds of the property: numbers, strings, dates (the ordering operators are defined for exactly these)
    for kind in ["Number", "String", "Date"]:
        def tri_post(res, v):
            lt, eq, gt, le = [tri(U, r) for r in res]
            return [("exactly one of a < b, a = b, a > b is true", z3.And(lt >= 0, eq >= 0, gt >= 0, lt + eq + gt == 1)),
                    ("a <= b is (a < b or a = b)", le == z3.If(z3.Or(lt == 1, eq == 1), 1, 0))]
        mk("trichotomy/%s" % kind, 2, lambda v: [("build_lt", [v["a"], v["b"]]), ("build_eq", [v["a"], v["b"]]),
                                                 ("build_gt", [v["a"], v["b"]]), ("build_le", [v["a"], v["b"]])], tri_post, kinds=[kind])

    # F. between = conjunction of comparisons ----------------------------------------------------------------------
    def btw_post(res, v):
        btw, le1, le2 = res
        conj = z3.If(z3.Or(tri(U, le1) == 0, tri(U, le2) == 0), 0, z3.If(z3.And(tri(U, le1) == 1, tri(U, le2) == 1), 1, -1))
        return [("x between a and b agrees with a <= x and x <= b", z3.And(is_bool_or_null(U, btw), tri(U, btw) == conj))]
    for kind in ["Number", "String", "Date"]:
        mk("between/%s" % kind, 3, lambda v: [("build_between", [v["a"], v["b"], v["c"]]), ("build_le", [v["b"], v["a"]]),
                                              ("build_le", [v["a"], v["c"]])], btw_post, kinds=[kind])
    # G. x in [a..b] / (a..b) ... = comparisons with the matching strictness ---------------------------------------
    def in_range_job(kind):
        names = ["a", "b", "c"]

        def setup(ex, st):
            vals = {n: U.fresh(ex, st, 0, n, kinds=[kind]) for n in names}
            lc, rc = ex.fresh_bool("l_closed"), ex.fresh_bool("r_closed")
            rng = En("Value", z3.IntVal(U.idx("Range")), {"Range": (Ref(ex.new_cell(st, vals["b"], "box")), lc,
                                                                   Ref(ex.new_cell(st, vals["c"], "box")), rc)})
            xa = Ref(ex.new_cell(st, vals["a"]))
            xr = Ref(ex.new_cell(st, rng))

            def runner(ex, st):
                for o0 in ex.run("eval_in_range", [xa, xr], st):
                    if o0.kind != "return":
                        yield o0
                        continue
                    for o in n_runs([("build_le", [vals["b"], vals["a"]]), ("build_lt", [vals["b"], vals["a"]]),
                                     ("build_le", [vals["a"], vals["c"]]), ("build_lt", [vals["a"], vals["c"]])])(ex, o0.st):
                        if o.kind != "return":
                            yield o
                            continue
                        yield Outcome("return", o.st, value=(o0.value,) + o.value)
            inputs = dict(vals)
            inputs["l_closed"], inputs["r_closed"] = lc.e, rc.e
            return runner, None, inputs

        def post(ex, o, v):
            inr, le1, lt1, le2, lt2 = o.value
            left = z3.If(v["l_closed"], tri(U, le1), tri(U, lt1))
            right = z3.If(v["r_closed"], tri(U, le2), tri(U, lt2))
            conj = z3.If(z3.Or(left == 0, right == 0), 0, z3.If(z3.And(left == 1, right == 1), 1, -1))
            return [("x in range agrees with the comparisons, an open end being the strict one", z3.And(is_bool_or_null(U, inr), tri(U, inr) == conj))]

        def desc(m, inputs):
            d = {k: U.describe(m, inputs[k], model_value) for k in names}
            d["l_closed"], d["r_closed"] = model_value(m, inputs["l_closed"]), model_value(m, inputs["r_closed"])
            return d

        def prefer(v):
            # a range endpoint is written as a plain literal: witnesses without negative numbers
            c = []
            for n in names:
                x = v[n]
                if isinstance(x, En) and "Number" in x.alts and isinstance(x.alts["Number"][0], Opaque) and isinstance(x.alts["Number"][0].e, z3.ExprRef):
                    c.append(x.alts["Number"][0].e >= 0)
            return z3.And(c) if c else z3.BoolVal(True)

        return lambda c: decide(c, crate, "in_range/%s" % kind, setup, post, replay_in_range, rb, models=MODELS, describe=desc,
                                budget_s=900, min_paths=1, timeout_ms=20000, prefer=prefer)
    for kind in ["Number", "String", "Date"]:
        jobs.append(in_range_job(kind))

    run_parallel(check, jobs)


# ----------------------------------------------------------------------------- native replay through FEEL


LAW_EXPRS = {
    "and_truth_table": (["{a} and {b}"], None),
    "or_truth_table": (["{a} or {b}"], None),
    "equality": (["{a} = {b}", "{b} = {a}", "{a} != {b}"], None),
    "ordering_mirror": (["{a} < {b}", "{b} > {a}", "{a} <= {b}", "{b} >= {a}"], None),
    "trichotomy": (["{a} < {b}", "{a} = {b}", "{a} > {b}", "{a} <= {b}"], None),
    "between": (["{a} between {b} and {c}", "{b} <= {a}", "{a} <= {c}"], None),
}


def tri_text(s):
    s = s.strip()
    if s == "VALUE true":
        return 1
    if s == "VALUE false":
        return 0
    if s.startswith("VALUE null"):
        return -1
    return s


def replay_law(oid, i, rb):
    fam = oid.split("/")[0]
    fam = "equality" if fam.startswith("equality") else fam
    if not all(fv.replayable(d) for d in i.values()):
        return False, "counterexample uses payload ranks that FEEL literals cannot express: %r" % (i,)
    txt = {k: fv.feel_text(d) for k, d in i.items()}
    outs = []
    for e in LAW_EXPRS[fam][0]:
        expr = e.format(**txt)
        _, out, _ = replay_call(rb, ["feel", expr])
        outs.append((expr, tri_text(out)))
    r = [o[1] for o in outs]
    bad = False
    if any(not isinstance(x, int) for x in r):
        bad = True
    elif fam in ("and_truth_table", "or_truth_table"):
        a, b = [tri_of_desc(i[k]) for k in ("a", "b")]
        if fam.startswith("and"):
            want = 0 if (a == 0 or b == 0) else 1 if (a == 1 and b == 1) else -1
        else:
            want = 1 if (a == 1 or b == 1) else 0 if (a == 0 and b == 0) else -1
        bad = r[0] != want
    elif fam == "equality":
        bad = r[0] != r[1] or r[2] != (-1 if r[0] == -1 else 1 - r[0])
    elif fam == "ordering_mirror":
        bad = r[0] != r[1] or r[2] != r[3]
    elif fam == "trichotomy":
        bad = min(r[:3]) < 0 or sum(r[:3]) != 1 or r[3] != (1 if (r[0] == 1 or r[1] == 1) else 0)
    elif fam == "between":
        conj = 0 if (r[1] == 0 or r[2] == 0) else 1 if (r[1] == 1 and r[2] == 1) else -1
        bad = r[0] != conj
    return bad, "; ".join("%s -> %s" % (e, {1: "true", 0: "false", -1: "null"}.get(v, v)) for e, v in outs)


def replay_in_range(i, rb):
    vals = {k: i[k] for k in ("a", "b", "c")}
    if not all(fv.replayable(d) for d in vals.values()):
        return False, "not expressible"
    t = {k: fv.feel_text(d) for k, d in vals.items()}
    bare = lambda x: x[1:-1] if x.startswith("(-") and x.endswith(")") else x   # a range endpoint is a simple value: -1, not (-1)
    rng = "%s%s..%s%s" % ("[" if i["l_closed"] else "(", bare(t["b"]), bare(t["c"]), "]" if i["r_closed"] else ")")
    exprs = ["%s in %s" % (t["a"], rng), "%s %s %s" % (t["b"], "<=" if i["l_closed"] else "<", t["a"]),
             "%s %s %s" % (t["a"], "<=" if i["r_closed"] else "<", t["c"])]
    outs = []
    for e in exprs:
        _, out, _ = replay_call(rb, ["feel", e])
        outs.append((e, tri_text(out)))
    r = [o[1] for o in outs]
    if any(not isinstance(x, int) for x in r):
        # a panic reproduces; a text the parser rejects is a shortcoming of this rendering, not of the repository
        return any(str(x).startswith("PANIC") for x in r), str(outs)
    conj = 0 if (r[1] == 0 or r[2] == 0) else 1 if (r[1] == 1 and r[2] == 1) else -1
    return r[0] != conj, "; ".join("%s -> %s" % (e, {1: "true", 0: "false", -1: "null"}.get(v, v)) for e, v in outs)


def tri_of_desc(d):
    return (1 if d["v"] else 0) if d["kind"] == "Boolean" else -1


KNOWN_PRED = {}
