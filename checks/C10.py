"""C10 — names with spaces and symbols: the lexer's longest-match kernel (DESIGN §4 C10).

Decided fragment: `Lexer::consume_name` (feel-parser/src/lexer.rs) together with `flatten_name_parts` and `Name::new`
(`<Name as From<Vec<String>>>::from`, feel/src/names.rs) executed from MIR on

  * an input of 1..N symbolic Unicode scalar values (the first one a name start character), cursor at 0;
  * a parsing scope whose set of flattened keys is an *uninterpreted set of normalised names*: every membership question the code asks
    is answered by a fresh Boolean, constrained only to be consistent (equal strings, equal answers) and to be true only for strings
    in the normal form bound names have (words separated by one space, no space around the additional name symbols).

Oracle (written from DMN 1.3 §10.3.1.2, grammar rules 27-30, independently of the repository's predicates): the candidate is the
maximal sequence of parts (words = runs of name part characters, single additional symbols, white space between parts skipped);
the token must be the *longest* prefix of parts whose normalised name is bound, with the cursor right behind its last character, or
- when no prefix is bound - the whole candidate.  The expected formula is built per path over the character classes the path leaves
open, so a character the code never looked at is still quantified over.

Replay: a shim injected into the scratch mirror calls the real `consume_name` natively on the witness text with a scope built
programmatically from the witness key set (engines/shims/lexer_name.rs); the answer is compared with a Python re-implementation of
the oracle.
"""
import os
import re

import z3

from vcommon import *  # noqa
from mcheck import MirCrate, decide, run_parallel, model_value
from mir.sym import Adt, En, FnV, Opaque, Outcome, Ref, Sc, StrV, VecV, UNIT, mk_bool, mk_int, none, some
from mir.models import deref, R
from mir.parser import MirUnsupported
import charseq as cs
import feelvals as fv
import rsenum as _rs

ENGINE = "M (MIR -> SMT, z3): Lexer::consume_name + flatten_name_parts + Name::new over symbolic character sequences and an uninterpreted key set"

MERGE = r"is_name_part_char|is_name_start_char|is_additional_name_symbol|is_whitespace|is_vertical_space|is_digit|^flatten_name_parts$|names\.rs:\d+:\d+: \d+:\d+>::new$"

# ----------------------------------------------------------------------------- character classes from the DMN grammar (oracle side)

NAME_START_RANGES = [(0x3F, 0x3F), (0x41, 0x5A), (0x5F, 0x5F), (0x61, 0x7A), (0xC0, 0xD6), (0xD8, 0xF6), (0xF8, 0x2FF), (0x370, 0x37D), (0x37F, 0x1FFF),
                     (0x200C, 0x200D), (0x2070, 0x218F), (0x2C00, 0x2FEF), (0x3001, 0xD7FF), (0xF900, 0xFDCF), (0xFDF0, 0xFFFD), (0x10000, 0xEFFFF)]
NAME_PART_EXTRA = [(0x30, 0x39), (0xB7, 0xB7), (0x300, 0x36F), (0x203F, 0x2040)]
SYMBOLS = [0x2E, 0x2F, 0x2D, 0x27, 0x2B, 0x2A]
WS_RANGES = [(0x0A, 0x0D), (0x09, 0x09), (0x20, 0x20), (0x85, 0x85), (0xA0, 0xA0), (0x1680, 0x1680), (0x180E, 0x180E), (0x2000, 0x200B), (0x2028, 0x2029),
             (0x202F, 0x202F), (0x205F, 0x205F), (0x3000, 0x3000), (0xFEFF, 0xFEFF)]
# Unicode White_Space (what str::trim strips)
RUST_WS = [(0x09, 0x0D), (0x20, 0x20), (0x85, 0x85), (0xA0, 0xA0), (0x1680, 0x1680), (0x2000, 0x200A), (0x2028, 0x2029), (0x202F, 0x202F), (0x205F, 0x205F), (0x3000, 0x3000)]


def in_ranges(c, rs):
    return z3.Or([c == a if a == b else z3.And(c >= a, c <= b) for a, b in rs])


def z_name_start(c):
    return in_ranges(c, NAME_START_RANGES)


def z_name_part(c):
    return in_ranges(c, NAME_START_RANGES + NAME_PART_EXTRA)


def z_symbol(c):
    return z3.Or([c == s for s in SYMBOLS])


def z_ws(c):
    return in_ranges(c, WS_RANGES)


def z_class(c):
    """0 name part, 1 additional symbol, 2 white space, 3 anything else"""
    return z3.If(z_name_part(c), 0, z3.If(z_symbol(c), 1, z3.If(z_ws(c), 2, 3)))


def py_class(c):
    inr = lambda rs: any(a <= c <= b for a, b in rs)
    return 0 if inr(NAME_START_RANGES + NAME_PART_EXTRA) else 1 if c in SYMBOLS else 2 if inr(WS_RANGES) else 3


# ----------------------------------------------------------------------------- std models over character sequences


def _items(ex, st, s):
    q = cs.seq_of(s)
    n = ex.concrete(q.len)
    if n is None:
        raise MirUnsupported("string of symbolic length in the name kernel")
    return list(q.items[:n])


def _mk(items):
    return StrV(None, seq=VecV(z3.IntVal(len(items)), tuple(items), "char"))


def _base(ex, st, r):
    base = r
    while isinstance(ex.read(st, base.cell, base.projs), Ref):
        base = ex.read(st, base.cell, base.projs)
    return base


def m_string_new(ex, st, callee, args, dest_ty):
    yield st, _mk([])


def m_string_push(ex, st, callee, args, dest_ty):
    base = _base(ex, st, args[0])
    items = _items(ex, st, ex.read(st, base.cell, base.projs))
    ex.write(st, base.cell, base.projs, _mk(items + [args[1]]))
    yield st, UNIT


def m_string_push_str(ex, st, callee, args, dest_ty):
    base = _base(ex, st, args[0])
    items = _items(ex, st, ex.read(st, base.cell, base.projs)) + _items(ex, st, deref(ex, st, args[1]))
    ex.write(st, base.cell, base.projs, _mk(items))
    yield st, UNIT


def m_str_is_empty(ex, st, callee, args, dest_ty):
    yield st, mk_bool(len(_items(ex, st, deref(ex, st, args[0]))) == 0)


def m_trim(ex, st, callee, args, dest_ty):
    """str::trim: strips Unicode White_Space from both ends (forks on the class of the end characters)"""
    items = _items(ex, st, deref(ex, st, args[0]))

    def front(st, its):
        if not its:
            yield st, its
            return
        w = in_ranges(its[0].e, RUST_WS)
        for st2 in ex.branch(st, w):
            yield from front(st2, its[1:])
        for st2 in ex.branch(st, z3.Not(w)):
            yield st2, its

    def back(st, its):
        if not its:
            yield st, its
            return
        w = in_ranges(its[-1].e, RUST_WS)
        for st2 in ex.branch(st, w):
            yield from back(st2, its[:-1])
        for st2 in ex.branch(st, z3.Not(w)):
            yield st2, its
    for st1, its in front(st, items):
        for st2, its2 in back(st1, its):
            yield st2, _mk(its2)


def _vec_items(ex, st, v):
    if not isinstance(v, VecV):
        raise MirUnsupported("join on %r" % (v,))
    n = ex.concrete(v.len)
    if n is None:
        raise MirUnsupported("vector of symbolic length in the name kernel")
    return list(v.items[:n])


def m_join(ex, st, callee, args, dest_ty):
    parts = _vec_items(ex, st, deref(ex, st, args[0]))
    sep = _items(ex, st, deref(ex, st, args[1]))
    out = []
    for k, p in enumerate(parts):
        if k:
            out += sep
        out += _items(ex, st, p if isinstance(p, StrV) else deref(ex, st, p))
    yield st, _mk(out)


def m_replace(ex, st, callee, args, dest_ty):
    """str::replace(pat: &str, to: &str): non-overlapping matches, left to right"""
    items = _items(ex, st, deref(ex, st, args[0]))
    pat = _items(ex, st, deref(ex, st, args[1]))
    to = _items(ex, st, deref(ex, st, args[2]))
    if not pat:
        raise MirUnsupported("replace with an empty pattern")

    def scan(st, j, acc):
        if j + len(pat) > len(items):
            yield st, acc + items[j:]
            return
        hit = z3.And([items[j + t].e == pat[t].e for t in range(len(pat))])
        for st2 in ex.branch(st, hit):
            yield from scan(st2, j + len(pat), acc + to)
        for st2 in ex.branch(st, z3.Not(hit)):
            yield from scan(st2, j + 1, acc + [items[j]])
    for st2, out in scan(st, 0, []):
        yield st2, _mk(out)


def m_str_eq(ex, st, callee, args, dest_ty):
    a, b = deref(ex, st, args[0]), deref(ex, st, args[1])
    while isinstance(a, Ref):
        a = deref(ex, st, a)
    while isinstance(b, Ref):
        b = deref(ex, st, b)
    ia, ib = _items(ex, st, a), _items(ex, st, b)
    if len(ia) != len(ib):
        r = z3.BoolVal(False)
    else:
        r = z3.simplify(z3.And([x.e == y.e for x, y in zip(ia, ib)] + [z3.BoolVal(True)]))
    if callee.endswith("::ne"):
        r = z3.simplify(z3.Not(r))
    yield st, mk_bool(r)


def m_name_to_string(ex, st, callee, args, dest_ty):
    nm = deref(ex, st, args[0])
    yield st, nm.fields[0]


def z_normal_form(items):
    """the normal form of a bound name (what Name::new produces from parts): words of name part characters and single additional
    symbols, one space exactly between two words, nothing else"""
    cs_ = [x.e for x in items]
    if not cs_:
        return z3.BoolVal(False)
    conj = [z_name_start(cs_[0]), cs_[-1] != 0x20]
    for k, c in enumerate(cs_):
        conj.append(z3.Or(z_name_part(c), z_symbol(c), c == 0x20))
        if 0 < k < len(cs_) - 1:
            conj.append(z3.Implies(c == 0x20, z3.And(z_name_part(cs_[k - 1]), z_name_part(cs_[k + 1]))))
    return z3.And(conj)


def _member(ex, st, items, assume_fn, tag="member"):
    """the membership Boolean of a string in the key set of this path (consistent with every earlier question)"""
    for ev in st.log:
        if ev[0] == tag and len(ev[1]) == len(items) and all(z3.eq(z3.simplify(a.e), z3.simplify(b.e)) for a, b in zip(ev[1], items)):
            return ev[2]
    b = z3.Bool(ex.fresh_name("bound"))
    assume_fn(z3.Implies(b, z_normal_form(items)))
    # an aggregate the code took over the key set (the longest key, say) bounds every member: a bound name's measure is at most that maximum
    agg = st.aux.get("keyset_max") if tag == "member" else None
    if agg is not None:
        from mir.models import call_fn_value
        f, m_, nonempty = agg
        cell = ex.new_cell(st, StrV(None, seq=VecV(z3.IntVal(len(items)), tuple(items), "char")), "key")
        outs = [o for o in call_fn_value(ex, st, f, [Ref(cell)]) if o.kind == "return"]
        if len(outs) == 1 and isinstance(outs[0].value, Sc):
            assume_fn(z3.Implies(b, z3.And(nonempty, outs[0].value.e <= m_)))
        else:
            raise MirUnsupported("the measure the code takes over the key set could not be applied to a candidate name")
    for ev in st.log:
        if ev[0] == tag and len(ev[1]) == len(items):
            assume_fn(z3.Implies(z3.And([x.e == y.e for x, y in zip(ev[1], items)] + [z3.BoolVal(True)]), b == ev[2]))
    st.log.append((tag, list(items), b))
    return b


def m_flatten_keys(ex, st, callee, args, dest_ty):
    yield st, Opaque("KeySet")


def m_keyset_contains(ex, st, callee, args, dest_ty):
    items = _items(ex, st, deref(ex, st, args[1]))
    which = deref(ex, st, args[0]) if isinstance(args[0], Ref) else args[0]
    if isinstance(which, Opaque) and which.sort == "KeySet" and isinstance(which.e, str) and which.e.startswith("state:"):
        # a set the lexer keeps itself (not the scope's keys): after an arbitrary history of tokens it holds an arbitrary set of names
        b = _member(ex, st, items, lambda c: ex.assume(st, c), tag="member:" + which.e)
        st.log.append(("asked_state", which.e))
        yield st, mk_bool(b)
        return
    b = _member(ex, st, items, lambda c: ex.assume(st, c))
    st.log.append(("asked", list(items), b))
    yield st, mk_bool(b)


def m_keyset_iter(ex, st, callee, args, dest_ty):
    yield st, Opaque("KeySetIter")


def m_keyset_map(ex, st, callee, args, dest_ty):
    yield st, Opaque("KeySetMap", info=args[1])


def m_keyset_max(ex, st, callee, args, dest_ty):
    """max of a measure over the (unknown) key set: some number that bounds the measure of every member; None for the empty set"""
    it = args[0]
    m_ = ex.fresh_int(st, "usize", "keyset_max")
    nonempty = z3.Bool(ex.fresh_name("keyset_nonempty"))
    st.aux["keyset_max"] = (it.info, m_.e, nonempty)
    yield st, En("Option", z3.If(nonempty, z3.IntVal(1), z3.IntVal(0)), {"None": (), "Some": (m_,)})


def m_vec_range_to(ex, st, callee, args, dest_ty):
    """&v[..k] with its contents (k concrete on the path)"""
    v = deref(ex, st, args[0])
    while isinstance(v, Ref):
        v = deref(ex, st, v)
    items = _vec_items(ex, st, v)
    hi = args[1].fields[-1].e
    if "RangeToInclusive" in callee:   # &v[..=k]
        hi = z3.simplify(hi + 1)
    for st2 in ex.branch(st, hi > len(items)):
        yield Outcome("panic", st2, msg="slice index out of range (%s)" % callee)
    for st2 in ex.branch(st, hi <= len(items)):
        for st3, k in ex.enum_values(st2, hi, limit=len(items) + 2):
            yield st3, Ref(ex.new_cell(st3, VecV(z3.IntVal(k), tuple(items[:k]), v.elem_ty), "subslice"))


def m_vec_truncate(ex, st, callee, args, dest_ty):
    base = _base(ex, st, args[0])
    v = ex.read(st, base.cell, base.projs)
    items = _vec_items(ex, st, v)
    for st2, k in ex.enum_values(st, args[1].e, limit=64):
        if k < len(items):
            ex.write(st2, base.cell, base.projs, VecV(z3.IntVal(k), tuple(items[:k]), v.elem_ty))
        yield st2, UNIT


def m_to_vec(ex, st, callee, args, dest_ty):
    v = deref(ex, st, args[0])
    while isinstance(v, Ref):
        v = deref(ex, st, v)
    yield st, v


def m_slice_contains_char(ex, st, callee, args, dest_ty):
    v = deref(ex, st, args[0])
    while isinstance(v, Ref):
        v = deref(ex, st, v)
    x = deref(ex, st, args[1])
    if isinstance(v, Adt):
        items = list(v.fields)
    else:
        items = _vec_items(ex, st, v)
    yield st, mk_bool(z3.simplify(z3.Or([i.e == x.e for i in items] + [z3.BoolVal(False)])))


def m_adapt_next(ex, st, callee, args, dest_ty):
    """next() on a filter / map chain: the chain is materialised once by running the real (pure) closures, then stepped through"""
    r = args[0]
    it = ex.read(st, r.cell, r.projs)
    if it.sort == "Adapt":
        for st2, items in fv.adapt_items(ex, st, it):
            base = Ref(ex.new_cell(st2, VecV(z3.IntVal(len(items)), tuple(items), "adapted"), "adapted"))
            ex.write(st2, r.cell, r.projs, Opaque("SliceIter", "owned", (base, 0)))
            yield from fv.m_iter_next(ex, st2, callee, args, dest_ty)
        return
    yield from fv.m_iter_next(ex, st, callee, args, dest_ty)


def m_chars_all(ex, st, callee, args, dest_ty):
    """Chars::all(f): short-circuit over the characters, f is the real code"""
    from mir.models import call_fn_value
    it = args[0]
    it = ex.read(st, it.cell, it.projs) if isinstance(it, Ref) else it
    seq = it.info
    n = ex.concrete(seq.len)
    if n is None:
        raise MirUnsupported("Chars::all over a string of symbolic length")

    def rec(st, k):
        if k == n:
            yield st, mk_bool(True)
            return
        for o in call_fn_value(ex, st, args[1], [seq.items[k]]):
            if o.kind != "return":
                yield o
                continue
            for st2 in ex.branch(o.st, z3.Not(o.value.e)):
                yield st2, mk_bool(False)
            for st2 in ex.branch(o.st, o.value.e):
                yield from rec(st2, k + 1)
    yield from rec(st, 0)


def m_map_enumerate(ex, st, callee, args, dest_ty):
    """Map<Iter<..>, closure>::enumerate(): the mapped items are produced by running the real closure, then enumerated"""
    for st2, items in fv.adapt_items(ex, st, args[0]):
        base = Ref(ex.new_cell(st2, VecV(z3.IntVal(len(items)), tuple(items), "mapped"), "mapped"))
        yield st2, Opaque("Enumerate", info=(Opaque("SliceIter", "owned", (base, 0)), 0))


NAME_MODELS = [
    (R(r"^<(std::iter::)?(Map|Filter|FilterMap)<.*> as Iterator>::(filter|map|filter_map)::<.*>$"), fv.m_iter_adapt),
    (R(r"^<(std::iter::)?(Map|Filter|FilterMap)<.*> as IntoIterator>::into_iter$"), fv.m_into_iter_id),
    (R(r"^<(std::iter::)?(Map|Filter|FilterMap)<.*> as Iterator>::next$"), m_adapt_next),
    (R(r"^<Chars<'_> as Iterator>::all::<.*>$"), m_chars_all),
    (R(r"^core::slice::<impl \[char\]>::contains$"), m_slice_contains_char),
    (R(r"^<Map<std::slice::Iter<.*>, .*> as Iterator>::enumerate$"), m_map_enumerate),
    (R(r"^<Enumerate<Map<.*>> as Iterator>::next$"), fv.m_iter_next),
    (R(r"^<Enumerate<Map<.*>> as IntoIterator>::into_iter$"), fv.m_into_iter_id),
    (R(r"^<(Vec<.*>|\[.*\]) as Index<(std::ops::)?RangeTo(Inclusive)?<usize>>>::index$"), m_vec_range_to),
    (R(r"^Vec::<.*>::truncate$"), m_vec_truncate),
    (R(r"^(core::|std::|alloc::)?slice::<impl \[.*\]>::to_vec$|^<\[.*\] as ToOwned>::to_owned$"), m_to_vec),
    (R(r"^(std::string::)?String::(new|with_capacity)$"), m_string_new),
    (R(r"^(std::string::)?String::push$"), m_string_push),
    (R(r"^(std::string::)?String::push_str$"), m_string_push_str),
    (R(r"^core::str::<impl str>::is_empty$|^(std::string::)?String::is_empty$"), m_str_is_empty),
    (R(r"^core::str::<impl str>::trim$"), m_trim),
    (R(r"^(std::|alloc::|core::)?slice::<impl \[(std::string::)?String\]>::join::<&str>$"), m_join),
    (R(r"^(alloc::|std::|core::)?str::<impl str>::replace::<&str>$"), m_replace),
    (R(r"^<(str|&str|String|std::string::String|&String|&std::string::String) as PartialEq(<&?(str|String|std::string::String)>)?>::(eq|ne)$"), m_str_eq),
    (R(r"^<(dmntk_feel::)?Name as ToString>::to_string$"), m_name_to_string),
    (R(r"^(dmntk_feel::)?Scope::flatten_keys$"), m_flatten_keys),
    (R(r"^HashSet::<(std::string::)?String>::contains::<(std::string::)?String>$"), m_keyset_contains),
    (R(r"^HashSet::<(std::string::)?String>::iter$"), m_keyset_iter),
    (R(r"^<std::collections::hash_set::Iter<'_, (std::string::)?String> as Iterator>::map::<.*>$"), m_keyset_map),
    (R(r"^<(std::iter::)?Map<std::collections::hash_set::Iter<'_, (std::string::)?String>, .*> as Iterator>::max$"), m_keyset_max),
] + cs.STR_MODELS + fv.VALUE_MODELS

# ----------------------------------------------------------------------------- python oracle (replay side)


def py_parts(text):
    """the maximal candidate: list of (part string, index of its last character); stop index"""
    parts, i, n = [], 0, len(text)
    cur = text[0]
    i = 1
    while i < n and py_class(ord(text[i])) == 0:
        cur += text[i]
        i += 1
    parts.append((cur, i - 1))
    while True:
        while i < n and py_class(ord(text[i])) == 2:
            i += 1
        if i < n and py_class(ord(text[i])) == 0:
            cur = ""
            while i < n and py_class(ord(text[i])) == 0:
                cur += text[i]
                i += 1
            parts.append((cur, i - 1))
        elif i < n and py_class(ord(text[i])) == 1:
            parts.append((text[i], i))
            i += 1
        else:
            return parts, i


def py_norm(parts):
    out, prev_sym = "", False
    for k, p in enumerate(parts):
        sym = len(p) == 1 and ord(p) in SYMBOLS
        if k and not prev_sym and not sym:
            out += " "
        out += p
        prev_sym = sym
    return out


def py_expected(text, keys, till_in=False):
    parts, stop = py_parts(text)
    words = [p for p, _ in parts]
    if till_in and "in" in words[1:]:
        k = words.index("in", 1)
        return py_norm(words[:k]), parts[k - 1][1] + 1, parts[k - 1][1] + 1
    for k in range(len(parts), 0, -1):
        if py_norm(words[:k]) in keys:
            return py_norm(words[:k]), parts[k - 1][1] + 1, parts[k - 1][1] + 1
    if words[0] == "item":
        return "item", parts[0][1] + 1, parts[0][1] + 1
    return py_norm(words), parts[-1][1] + 1, stop


# ----------------------------------------------------------------------------- the check


def run(check, mirror, tier):
    with open(mirror.path("feel-parser/src/lexer.rs"), "a") as f:
        f.write('\n#[cfg(dmntk_verif_lexer)]\n#[path = "%s"]\npub mod verif_lexer_name;\n' % os.path.join(VERIF, "engines/shims/lexer_name.rs"))
    with open(mirror.path("feel-parser/src/lib.rs"), "a") as f:
        f.write('\n#[cfg(dmntk_verif_lexer)]\npub use lexer::verif_lexer_name::verif_lex_name;\n')
    rb = replay_build(mirror, extra_cfg="--cfg dmntk_verif_lexer")
    crate = MirCrate(mirror, ["feel-parser", "feel"], overflow_checks=True)
    lf = _rs.struct_fields(mirror.read("feel-parser/src/lexer.rs"), "Lexer")
    N = 5 if tier == "quick" else 6
    check.bounds += ["input text of 1..%d symbolic Unicode scalar values (any scalar; the first a name start character), cursor at 0" % N,
                     "key set of the parsing scope: any set of normalised names (uninterpreted membership, consistent per string)",
                     "loop bound: %d visits per block of the part-collecting state machine (two transitions per character)" % (3 * N + 6)]
    check.assumptions += ["characters that DMN's grammar lists both as name characters and as white space (U+1680, U+180E) are excluded",
                          "bound names are in the normal form Name::new gives them (names bound from raw text with spaces around symbols are outside)",
                          "String/Vec<String>/str::trim/join/replace/== by their std contracts over character sequences; HashSet::contains as "
                          "uninterpreted membership; Scope::flatten_keys not executed (the key set is the unknown)",
                          "a candidate whose first word is `item` and none of whose prefixes is bound is the filter variable `item` alone (the lexer's filter tweak)"]
    jobs = []

    def mk_setup(till_in, first=None, split=None):
        def setup(ex, st):
            n = ex.fresh_int(st, "usize", "len", constrain=False)
            ex.assume(st, z3.And(n.e >= 1, n.e <= N))
            chars = []
            for k in range(N):
                c = ex.fresh_int(st, "char", "c%d" % k, constrain=False)
                ex.assume(st, z3.And(c.e >= 0, c.e <= 0x10FFFF, z3.Or(c.e < 0xD800, c.e > 0xDFFF)))
                ex.assume(st, z3.Not(z3.And(z_name_part(c.e), z_ws(c.e))))
                chars.append(c)
            ex.assume(st, z_name_start(chars[0].e))
            if first is not None:
                for k, chs in enumerate(first):
                    ex.assume(st, z3.Or([chars[k].e == ord(x) for x in chs]))
            if split is not None:
                for k, want in enumerate(split):
                    if k + 1 < N:
                        ex.assume(st, z3.If(n.e <= k + 1, 4, z_class(chars[k + 1].e)) == want)
            if till_in and N >= 2:
                # the iteration variable does not start with the keyword `in` (words of names are not keywords)
                is_in = z3.And(chars[0].e == ord("i"), chars[1].e == ord("n"), n.e >= 2)
                after = z3.Or(n.e == 2, z3.Not(z_name_part(chars[2].e))) if N > 2 else z3.BoolVal(True)
                ex.assume(st, z3.Not(z3.And(is_in, after)))
            vals = {"scope": Ref(ex.new_cell(st, Opaque("Scope"), "scope")), "start_token_type": none(), "input": VecV(n.e, chars, "char"),
                    "position": mk_int(0, "usize"), "unary_tests": mk_bool(False), "between": mk_bool(False), "type_name": mk_bool(False),
                    "till_in": mk_bool(till_in)}
            missing = [f for f in lf if f not in vals]
            import interior
            ftypes = interior.struct_field_types(mirror.read("feel-parser/src/lexer.rs"), "Lexer")
            state_fields = []
            for f in list(missing):
                # a set of names the lexer maintains itself (a cache of the scope's keys, say): one token is an inductive step from an
                # arbitrary history of earlier tokens, so the set is arbitrary - the scope alone must decide what a name is
                if re.match(r"^(std::collections::)?(HashSet|BTreeSet)<(std::string::)?String>$", ftypes.get(f, "")):
                    vals[f] = Opaque("KeySet", "state:" + f)
                    state_fields.append(f)
                    missing.remove(f)
            if missing:
                raise MirUnsupported("Lexer has fields the model does not know: %s" % missing)
            lx = Ref(ex.new_cell(st, Adt("struct", "Lexer", [vals[f] for f in lf]), "lexer"))
            inputs = dict(len=n.e, _lexer=lx, _chars=chars, _till_in=till_in, _state_fields=state_fields)
            for k in range(N):
                inputs["c%d" % k] = chars[k].e
            return "Lexer::consume_name", [lx], inputs
        return setup

    def token_of(ex, o):
        """-> (token type name, list of name characters) of an Ok((TokenType, TokenValue::Name..(Name))) result, else None"""
        r = o.value
        if not isinstance(r, En) or ex.concrete(r.disc) != 0:
            return None
        tup = r.alts["Ok"][0]
        tt, tv = tup.fields[0], tup.fields[1]
        cands = [(nm, p) for nm, p in tv.alts.items() if p]
        name = None
        for nm, p in cands:
            if nm in ("Name", "NameDateTime", "BuiltInTypeName"):
                name = (nm, p[0])
        if name is None:
            return None
        return name[0], _items(ex, o.st, name[1].fields[0])

    def post(ex, o, v):
        st = o.st
        lx = ex.read(st, v["_lexer"].cell, v["_lexer"].projs)
        pos = lx.fields[lf.index("position")].e
        flag_after = lx.fields[lf.index("till_in")].e
        tok = token_of(ex, o)
        if tok is None:
            return [("a name start character yields a name token", z3.BoolVal(False))]
        kind, got = tok
        n, chars = v["len"], v["_chars"]
        hyps = []
        cls = [z3.If(n <= i, 4, z_class(chars[i].e)) for i in range(N)] + [z3.IntVal(4)]
        feas_memo = {}

        def feas(i):
            """the character classes the path leaves possible for position i (4 = past the end), decided with at most five queries"""
            if i not in feas_memo:
                if i >= N:
                    feas_memo[i] = [4]
                else:
                    out = []
                    rest = z3.BoolVal(True)
                    while len(out) < 5:
                        if ex.check(rest) != z3.sat:
                            break
                        k = ex.solver.model().eval(cls[i], model_completion=True).as_long()
                        out.append(k)
                        rest = z3.And(rest, cls[i] != k)
                    feas_memo[i] = sorted(out)
            return feas_memo[i]
        till_in = v["_till_in"]
        stats = {"finishes": 0}

        def norm(parts):
            out, prev_sym = [], False
            for k, (idxs, sym) in enumerate(parts):
                if k and not prev_sym and not sym:
                    out.append(Sc(z3.IntVal(0x20), "char"))
                out += [chars[i] for i in idxs]
                prev_sym = sym
            return out

        def same(items, want):
            if len(items) != len(want):
                return z3.BoolVal(False)
            return z3.And([a.e == b.e for a, b in zip(items, want)] + [z3.BoolVal(True)])

        def is_in(idxs):
            return z3.And(chars[idxs[0]].e == ord("i"), chars[idxs[1]].e == ord("n")) if len(idxs) == 2 else z3.BoolVal(False)

        def finish(parts, stop):
            stats["finishes"] += 1
            m = len(parts)
            ends = [p[0][-1] for p in parts]
            B = [_member(ex, st, norm(parts[:k]), hyps.append) for k in range(1, m + 1)]
            cases, none_longer = [], z3.BoolVal(True)
            for k in range(m, 0, -1):
                here = z3.And(none_longer, B[k - 1])
                cases.append(z3.Implies(here, z3.And(same(got, norm(parts[:k])), pos == ends[k - 1] + 1, z3.BoolVal(kind == "Name"))))
                none_longer = z3.And(none_longer, z3.Not(B[k - 1]))
            whole = z3.And(same(got, norm(parts)), pos >= ends[-1] + 1, pos <= stop)
            w0, sym0 = parts[0]
            if len(w0) == 4 and not sym0:
                # no prefix is bound and the first word is `item`: the implicit filter variable, alone
                is_item = z3.And([chars[w0[j]].e == ord("item"[j]) for j in range(4)])
                whole = z3.If(is_item, z3.And(same(got, norm(parts[:1])), pos == ends[0] + 1, z3.BoolVal(kind == "Name")), whole)
            cases.append(z3.Implies(none_longer, whole))
            res = z3.And(cases)
            if till_in:
                # the iteration variable is everything before the first word `in` that is not the first part
                t_cases, no_in = [], z3.BoolVal(True)
                for k in range(1, m):
                    if not parts[k][1]:
                        here = z3.And(no_in, is_in(parts[k][0]))
                        # .. and the request for an iteration variable is answered: the flag is cleared (left set, it cuts a later name before a later `in`)
                        t_cases.append(z3.Implies(here, z3.And(same(got, norm(parts[:k])), pos == ends[k - 1] + 1, z3.BoolVal(kind == "Name"), z3.Not(flag_after))))
                        no_in = z3.And(no_in, z3.Not(is_in(parts[k][0])))
                t_cases.append(z3.Implies(no_in, res))
                res = z3.And(t_cases)
            return res

        def walk(i, parts, cur):
            """cur: indices of the word being read (None between parts)"""
            subs = []
            for k in feas(i):
                cond = cls[i] == k
                if cur is not None and k == 0:
                    sub = walk(i + 1, parts, cur + [i])
                else:
                    ps = parts + [(cur, False)] if cur is not None else parts
                    if k == 0:
                        sub = walk(i + 1, ps, [i])
                    elif k == 1:
                        sub = walk(i + 1, ps + [([i], True)], None)
                    elif k == 2:
                        sub = walk(i + 1, ps, None)
                    else:
                        sub = finish(ps, i)
                subs.append(z3.Implies(cond, sub))
            return z3.And(subs) if subs else z3.BoolVal(True)
        body = walk(1, [], [0])
        label = ("the name before the keyword `in` is the iteration variable; otherwise " if till_in else "") + \
            "the token is the longest bound prefix of the candidate name (the whole candidate when none is bound) and the cursor is right behind it"
        asked = [ev for ev in st.log if ev[0] == "asked"]
        return [(label, z3.Implies(z3.And(hyps + [z3.BoolVal(True)]), body)),
                ("reach:matched a proper prefix", z3.BoolVal(len(asked) >= 2)),
                ("reach:three parts", z3.BoolVal(len(asked) >= 3))]

    def desc(m, v):
        n = model_value(m, v["len"])
        d = {"text": [model_value(m, v["c%d" % k]) for k in range(n)], "till_in": v["_till_in"]}
        if v.get("_state_fields"):
            d["lexer_state"] = list(v["_state_fields"])
        return d

    def describe_with_keys(m, v, st=None):
        return desc(m, v)

    def prefer(v):
        ok_ = lambda c: z3.Or([c == ord(x) for x in "abin.-+ ("])
        return z3.And([ok_(v["c%d" % k]) for k in range(N)])

    HISTORIES = [("{monthly rate: 2}", "sum(for monthly rate in [1, 2] return monthly rate) + monthly rate * 12", "27"),
                 ("{unit price: 10}", "{line: {unit price: 2}, total: unit price * 3}.total", "30"),
                 ("{a b: 2}", "(function(a b) a b + 1)(5) + a b * 3", "12"),
                 ("{a b: 2}", "(some a b in [1, 2] satisfies a b > 1) and a b * 2 = 4", "true")]

    def replay_histories(i, rb):
        """state the lexer keeps across tokens shows only after a history: a bound multi-word name, shadowed inside a construct that ends, used again"""
        notes, bad = [], False
        for ctx, expr, want in HISTORIES:
            _, out, _ = replay_call(rb, ["feelctx", ctx, expr])
            dev = out.strip() != "VALUE " + want
            bad = bad or dev
            if dev:
                notes.append("with %s: %s -> %s, specified %s" % (ctx, expr, out[:70], want))
        return bad, "; ".join(notes) or "the history expressions evaluate as specified"

    def replay(i, rb):
        if i.get("lexer_state"):
            return replay_histories(i, rb)
        text = "".join(chr(c) for c in i["text"])
        parts, stop = py_parts(text)
        words = [p for p, _ in parts]
        # every subset of the normalised prefixes is a possible key set: find one on which the real lexer disagrees with the oracle
        prefixes = []
        for k in range(1, len(words) + 1):
            s = py_norm(words[:k])
            if s not in prefixes:
                prefixes.append(s)
        for mask in range(1 << len(prefixes)):
            keys = [p for b, p in enumerate(prefixes) if mask >> b & 1]
            want_name, lo, hi = py_expected(text, keys, i.get("till_in", False))
            _, out, _ = replay_call(rb, ["lex_name", text, "1" if i.get("till_in") else "0"] + keys)
            if out.startswith("PANIC"):
                return True, "consume_name on %r with bound names %r -> %s" % (text, keys, out[:120])
            mm = re.match(r"^TOKEN (\w+) pos=(\d+) till_in=(\w+) name=(.*)$", out)
            if not mm:
                return True, "consume_name on %r with bound names %r -> %s (a name token is specified)" % (text, keys, out[:120])
            got_pos, got_name = int(mm.group(2)), mm.group(4)
            if i.get("till_in") and "in" in words[1:] and mm.group(3) != "false":
                return True, "consume_name on %r asked for an iteration variable -> name %r, but the request flag is still set afterwards (a later name would be cut before a later `in`)" % (text, got_name)
            if got_name != want_name or not (lo <= got_pos <= hi):
                return True, "consume_name on %r with bound names %r -> name %r, cursor %d; specified name %r, cursor %d" % (text, keys, got_name, got_pos, want_name, lo)
        return False, "consume_name on %r agrees with the oracle for every key set over its prefixes" % text

    def add(oid, till_in, split=None, budget=900, reach=True, first=None):
        jobs.append(lambda c: decide(c, crate, oid, mk_setup(till_in, first, split), post, replay, rb, models=NAME_MODELS, unwind=3 * N + 6, describe=desc, prefer=prefer,
                                     merge=MERGE, need_reach=reach or None, max_cex=3, budget_s=budget,
                                     known_predicates=KNOWN_PRED, timeout_ms=20000))

    # one obligation per class of the second and third character (0 name part, 1 symbol, 2 white space, 3 other, 4 end of input): spreads the paths
    CN = "LSWXE"
    import itertools

    def max_parts(split):
        """the largest number of parts a text of at most N characters with these classes at positions 1.. can have"""
        best = 0
        rep = {0: "a", 1: ".", 2: " ", 3: "("}
        for n in range(1, N + 1):
            for tail in itertools.product(range(4), repeat=n - 1):
                seq = list(tail)
                ok_ = True
                for k, want in enumerate(split):
                    have = seq[k] if k < len(seq) else 4
                    if have != want:
                        ok_ = False
                if ok_:
                    best = max(best, len(py_parts("a" + "".join(rep[c] for c in seq))[0]))
        return best

    for till_in, base in ((False, "name_token/longest_match"), (True, "name_token/iteration_variable")):
        for k1 in range(5):
            splits = [(k1,)] if k1 >= 3 else [(k1, k2) for k2 in range(5)]
            for sp in splits:
                mp = max_parts(sp)
                reach = (["reach:matched a proper prefix"] if mp >= 2 else []) + (["reach:three parts"] if mp >= 3 else [])
                add("%s/%s" % (base, "".join(CN[k] for k in sp)), till_in, sp, reach=reach)
    # names that begin with the word `item` (the filter variable): a bound name resolves as any other, an unbound candidate is `item` alone
    for k5 in range(5):
        if N > 4 or k5 == 4:
            add("name_token/item/%s" % CN[k5], False, (0, 0, 0, k5), reach=(["reach:matched a proper prefix"] if k5 in (1,) else []), first=["i", "t", "e", "m"])
    run_parallel(check, jobs)
    # which names the lexer sees while a context entry's value is read (decided by C13's parser family; name resolution is this property's statement)
    run_companion(check, mirror, tier, "C13", ["parser_scope/context"])


KNOWN_PRED = {}
