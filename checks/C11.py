"""C11 — typed inputs: conforming values pass unchanged, others become null (DESIGN §4 C11) — decided kernel: the per-typeRef
input variable closures of model-evaluator/src/builders/mod.rs `build_variable_evaluator`.

Engine M: the builder is executed from MIR with `variable.type_ref` a symbolic choice among "no typeRef" and the eight built-in
type names; it returns one of the copy-pasted closures, which is then executed on an input context whose entry for the variable
is a symbolic value of ANY kind.  The closure must return the entry itself iff its kind is the one the type name denotes
(always, when there is no typeRef) and null otherwise; a missing entry gives null.
Item definitions (allowed values, components, collections, references) and output coercion are not decided by this check.
"""
import re

import z3

from vcommon import *  # noqa
from mcheck import MirCrate, decide, run_parallel, model_value
from mir.sym import Adt, En, FnV, Opaque, Outcome, Ref, Sc, StrV, VecV, UNIT, mk_bool, mk_int, none, some
from mir.models import deref, m_format_stub, R, call_fn_value
from mir.parser import MirUnsupported
import feelvals as fv

ENGINE = "M (MIR -> SMT, z3): typeRef closures on symbolic input values"

TYPE_OF = {"string": "String", "number": "Number", "boolean": "Boolean", "date": "Date", "time": "Time", "dateTime": "DateTime",
           "dayTimeDuration": "DaysAndTimeDuration", "yearMonthDuration": "YearsAndMonthsDuration"}


def run(check, mirror, tier):
    rb = replay_build(mirror)
    crate = MirCrate(mirror, ["model-evaluator", "feel"], overflow_checks=True, enum_crates=("common", "feel", "model"))
    U = fv.Universe(mirror)
    names = sorted(TYPE_OF)
    check.bounds += ["typeRef: absent or one of %s; input context with or without an entry for the variable; the entry a value of any kind "
                     "(scalars, null, list, context, one non-data representative)" % names]
    check.assumptions += ["oracle: type name -> value kind table (TYPE_OF in checks/C11.py, the DMN built-in type names)",
                          "String::as_str / str equality on a symbolic choice of the listed constants"]
    MODELS = [(re.compile(r"^format$|^std::fmt::format$|^alloc::fmt::format$"), m_format_stub),
              (re.compile(r"^<(dmntk_feel::)?Name as Clone>::clone$"), lambda ex, st, c, a, d: iter([(st, deref(ex, st, a[0]))]))] + fv.VALUE_MODELS

    def setup(ex, st, fixed=None):
        has_ref = z3.Bool(ex.fresh_name("has_type_ref"))
        sel = ex.fresh_int(st, "u8", "type_name", constrain=False)
        ex.assume(st, z3.And(sel.e >= 0, sel.e < len(names)))
        if fixed is None:
            ex.assume(st, z3.Not(has_ref))
        else:
            ex.assume(st, z3.And(has_ref, sel.e == names.index(fixed)))
        tref = En("Option", z3.If(has_ref, z3.IntVal(1), z3.IntVal(0)), {"None": (), "Some": (StrV(None, choice=(sel.e, names)),)})
        vname = Opaque("Name", z3.IntVal(7))
        variable = Adt("struct", "Variable", (vname, tref))
        has_entry = z3.Bool(ex.fresh_name("has_entry"))
        entry = U.fresh(ex, st, 1, "entry", list_len=1, ctx_len=1)
        other = En("Value", z3.IntVal(U.idx("Null")), {"Null": (none(),)})
        mp = fv.MapV(z3.If(has_entry, z3.IntVal(2), z3.IntVal(1)), [Adt("tuple", None, (Opaque("Name", z3.IntVal(3)), other)),
                                                                   Adt("tuple", None, (vname, entry))], "kv")
        inp = En("Value", z3.IntVal(U.idx("Context")), {"Context": (Adt("struct", "FeelContext", (mp,)),)})
        inputs = dict(has_type_ref=has_ref, type_name=sel.e, has_entry=has_entry, _entry=entry, _names=names)

        def runner(ex, st):
            for o in ex.run("build_variable_evaluator", [Ref(ex.new_cell(st, variable, "var"))], st):
                if o.kind != "return":
                    yield o
                    continue
                r = o.value
                if ex.concrete(r.disc) != 0:
                    yield Outcome("return", o.st, value=("build-error", None))
                    continue
                f = r.alts["Ok"][0]
                ide = Ref(ex.new_cell(o.st, Opaque("ItemDefinitionEvaluator"), "ide"))
                for o2 in call_fn_value(ex, o.st, f, [Ref(ex.new_cell(o.st, inp, "input")), ide]):
                    if o2.kind != "return":
                        yield o2
                    else:
                        yield Outcome("return", o2.st, value=("ok", o2.value))
            return
        return runner, None, inputs

    def post(ex, o, v):
        tag, res = o.value
        if tag != "ok":
            return [("the evaluator for a built-in type name is built", z3.BoolVal(False))]
        name, val = res.fields
        val = deref(ex, o.st, val)
        entry = v["_entry"]
        is_entry = val is entry
        is_null = isinstance(val, En) and ex.concrete(val.disc) == U.idx("Null") and val is not entry
        want_kind = z3.IntVal(-1)
        for k, nm in enumerate(v["_names"]):
            want_kind = z3.If(v["type_name"] == k, z3.IntVal(U.idx(TYPE_OF[nm])), want_kind)
        conforms = z3.Or(z3.Not(v["has_type_ref"]), entry.disc == want_kind)
        passes = z3.And(v["has_entry"], conforms)
        return [("a conforming input value reaches the logic unchanged", z3.Implies(passes, z3.BoolVal(is_entry))),
                ("a non-conforming or missing input value is replaced by null", z3.Implies(z3.Not(passes), z3.BoolVal(is_null or (is_entry and False)))),
                ("the value is bound to the variable's own name", name.e == 7)]

    def desc(m, inputs):
        d = {k: model_value(m, x) for k, x in inputs.items() if not k.startswith("_")}
        d["type_name"] = inputs["_names"][d["type_name"]] if d.get("has_type_ref") else None
        d["entry"] = U.describe(m, inputs["_entry"], model_value)
        return d

    jobs = []
    for fixed in [None] + names:
        jobs.append(lambda c, fixed=fixed: decide(c, crate, "input_variable_closure/%s" % (fixed or "no_typeRef"), lambda ex, st: setup(ex, st, fixed), post, replay_input, rb,
                                                  models=MODELS, unwind=8, describe=desc, budget_s=900, min_paths=2, timeout_ms=20000, known_predicates=KNOWN_PRED,
                                                  prefer=lambda inp: U.replayable_pref(inp["_entry"])))
    from checks import C11_itemdef
    C11_itemdef.jobs_for(check, mirror, rb, crate, U, jobs, tier, KNOWN_PRED)
    from checks import C11_output
    C11_output.jobs_for(check, mirror, rb, crate, U, jobs, tier, KNOWN_PRED)
    run_parallel(check, jobs)
    # output coercion rests on conformance of context types and on `coerced` (decided by C16)
    run_companion(check, mirror, tier, "C16", ["coercion/", "context_variance"])


def replay_input(i, rb):
    """a model whose decision echoes its input: what reaches the logic is what comes out"""
    if not fv.replayable(i["entry"]):
        return False, "entry not expressible"
    tref = ' typeRef="%s"' % i["type_name"] if i["type_name"] else ""
    xml = ('<?xml version="1.0" encoding="UTF-8"?><definitions namespace="https://verif" name="m" id="_m" xmlns="https://www.omg.org/spec/DMN/20191111/MODEL/">'
           '<inputData name="x" id="_x"><variable name="x"%s/></inputData>'
           '<decision name="d" id="_d"><variable name="d"/><informationRequirement><requiredInput href="#_x"/></informationRequirement>'
           '<literalExpression><text>x</text></literalExpression></decision></definitions>') % tref
    ctx = "{x: %s}" % fv.feel_text(i["entry"]) if i["has_entry"] else "{y: 1}"
    _, out, _ = replay_call(rb, ["model_eval", xml, "d", ctx])
    kind = i["entry"]["kind"]
    conforms = i["has_entry"] and (i["type_name"] is None or TYPE_OF[i["type_name"]] == kind)
    got_null = out.startswith("VALUE null")
    bad = (conforms and got_null and kind != "Null") or ((not conforms) and not got_null)
    return bad, "input %s with typeRef %s -> decision echoes %s (conforming: %s)" % (ctx, i["type_name"], out[:80], conforms)


KNOWN_PRED = {}
