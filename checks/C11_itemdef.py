"""C11, item definitions — the evaluators of model-evaluator/src/builders/item_definition.rs (DESIGN §4 C11).

Engine M.  Every kind of item definition evaluator is executed from MIR on a symbolic input value of ANY kind:

  simple / collection_of_simple   the real builders `build_simple_type_evaluator` / `build_collection_of_simple_type_evaluator` are run with a
                                  symbolic FEEL type (the eight copy-pasted closures are reached through the builder's own `match`) and a
                                  symbolic "allowed values" evaluator (absent, or an oracle returning an arbitrary value);
  component / collection_of_component / referenced / collection_of_referenced
                                  the closures the builders return are run on captured state built directly: 0..2 component evaluators
                                  (oracles returning arbitrary values, induction over the item definition tree), the evaluator registry
                                  lookup answered by a symbolic option.

Reference semantics (the property's words): a conforming value passes unchanged (for composite types: rebuilt from exactly the
checked parts, in order), anything else becomes null; the allowed-values test sees the value being checked.
"""
import re
import sys

import z3

from vcommon import *  # noqa
from mcheck import decide, model_value
from mir.sym import Adt, En, FnV, Opaque, Outcome, Ref, StrV, VecV, mk_bool, none
from mir.models import deref, m_format_stub, call_fn_value
from mir.parser import MirUnsupported
import feelvals as fv
import rsenum

SIMPLE = ["String", "Number", "Boolean", "Date", "Time", "DateTime", "DaysAndTimeDuration", "YearsAndMonthsDuration"]
XSD = {"String": "string", "Number": "number", "Boolean": "boolean", "Date": "date", "Time": "time", "DateTime": "dateTime",
       "DaysAndTimeDuration": "dayTimeDuration", "YearsAndMonthsDuration": "yearMonthDuration"}
Q = 950        # rank of the name `?`
COMP = [10, 20]  # ranks of the component names


def jobs_for(check, mirror, rb, crate, U, jobs, tier, KNOWN_PRED):
    ftypes = rsenum.enums_of(mirror.read("feel/src/types.rs"))["FeelType"]
    check.bounds += ["item definitions: simple and collection-of-simple for the eight simple FEEL types with/without allowed values; component and "
                     "collection-of-component with 0..2 components; referenced and collection-of-referenced with the referenced evaluator present or "
                     "missing; input values of any kind, lists of length 0..2, contexts of 0..3 entries with symbolic keys (0..2 inside lists in the quick tier)"]
    check.assumptions += ["item definitions: component / referenced / allowed-values evaluators are oracles returning arbitrary values (induction over the "
                          "item definition tree); HashMap lookup of the registry answered by a symbolic option"]

    def m_name_from(ex, st, callee, args, dest_ty):
        s = deref(ex, st, args[0])
        yield st, Opaque("Name", z3.IntVal({"?": Q}.get(s.const, 999)))

    def m_refcell_new(ex, st, callee, args, dest_ty):
        yield st, args[0]

    from checks.C13 import SCOPE_MODELS
    MODELS = [(re.compile(r"^<(dmntk_feel::)?Name as From<&str>>::from$|^<&str as Into<(dmntk_feel::)?Name>>::into$"), m_name_from),
              (re.compile(r"^RefCell::<.*>::new$"), m_refcell_new),
              (re.compile(r"^<(dmntk_feel::)?Name as Clone>::clone$"), lambda ex, st, c, a, d: iter([(st, deref(ex, st, a[0]))]))] + SCOPE_MODELS + fv.VALUE_MODELS

    # ------------------------------------------------------------------------------------------------------------ oracles
    def av_option(ex, st):
        has_av = z3.Bool(ex.fresh_name("has_allowed_values"))

        def cb(ex, st, argv):
            sc = deref(ex, st, argv[0])
            vec = sc.fields[0]
            n = ex.concrete(vec.len)
            bound = None
            if n:
                mp = vec.items[n - 1].fields[0]
                for e in mp.items[:ex.concrete(mp.len) or 0]:
                    if ex.concrete(e.fields[0].e) == Q:
                        bound = e.fields[1]
            v = U.fresh(ex, st, 0, "allowed%d" % len(st.log), kinds=["Boolean", "Null"])
            st.log.append(("av", bound, v))
            yield st, v
        opt = En("Option", z3.If(has_av, z3.IntVal(1), z3.IntVal(0)), {"None": (), "Some": (Ref(ex.new_cell(st, FnV("@model", (cb,)), "avbox")),)})
        return has_av, opt

    def allowed_of(ex, st, has_av):
        """z3 Bool: the allowed-values test lets the value through (no test, or the test ran and returned true); + the object it saw"""
        calls = [e for e in st.log if e[0] == "av"]
        if not calls:
            return z3.Not(has_av), None, 0
        v = calls[-1][2]
        return z3.Or(z3.Not(has_av), z3.And(v.disc == U.idx("Boolean"), v.alts["Boolean"][0].e)), calls[-1][1], len(calls)

    def oracle_item_evaluator(tag):
        def cb(ex, st, argv):
            arg = deref(ex, st, argv[0])
            v = U.fresh(ex, st, 0, "%s_r%d" % (tag, len(st.log)), kinds=["Number", "String", "Null"])
            st.log.append(("ev", tag, arg, v))
            yield st, v
        return FnV("@model", (cb,))

    def is_null(ex, v, x):
        return isinstance(v, En) and v.ty == "Value" and ex.concrete(v.disc) == U.idx("Null") and v is not x

    def kind_is(v, kind):
        return v.disc == U.idx(kind)

    def type_sel(ex, st):
        sel = ex.fresh_int(st, "u8", "feel_type", constrain=False)
        ex.assume(st, z3.And(sel.e >= 0, sel.e < len(SIMPLE)))
        disc = z3.IntVal(-1)
        want = z3.IntVal(-1)
        for k, nm in enumerate(SIMPLE):
            disc = z3.If(sel.e == k, z3.IntVal(ftypes[nm]), disc)
            want = z3.If(sel.e == k, z3.IntVal(U.idx(nm)), want)
        return sel.e, En("FeelType", z3.simplify(disc), {}), z3.simplify(want)

    def ide_ref(ex, st):
        return Ref(ex.new_cell(st, Adt("struct", "ItemDefinitionEvaluator", (Opaque("HashMap"),)), "registry"))

    def run_builder(ex, st, builder, bargs, x):
        for o in ex.run(builder, bargs, st):
            if o.kind != "return":
                yield o
                continue
            r = o.value
            if ex.concrete(r.disc) != 0:
                yield Outcome("return", o.st, value=("build-error", None))
                continue
            f = r.alts["Ok"][0]
            for o2 in call_fn_value(ex, o.st, f, [Ref(ex.new_cell(o.st, x, "input")), ide_ref(ex, o.st)]):
                yield o2 if o2.kind != "return" else Outcome("return", o2.st, value=("ok", o2.value))

    def common_desc(m, inputs):
        d = {k: model_value(m, v) for k, v in inputs.items() if not k.startswith("_")}
        if "feel_type" in d:
            d["feel_type"] = SIMPLE[d["feel_type"]]
        d["value"] = U.describe(m, inputs["_x"], model_value)
        return d

    # ------------------------------------------------------------------------------------------------------------ simple
    def setup_simple(ex, st):
        sel, ft, want = type_sel(ex, st)
        has_av, av = av_option(ex, st)
        x = U.fresh(ex, st, 1, "x", list_len=1, ctx_len=1)
        inputs = dict(feel_type=sel, has_allowed_values=has_av, _x=x, _want=want)
        return (lambda ex, st: run_builder(ex, st, "build_simple_type_evaluator", [ft, av], x)), None, inputs

    def post_simple(ex, o, v):
        tag, res = o.value
        if tag != "ok":
            return [("an evaluator is built for every simple FEEL type", z3.BoolVal(False))]
        x = v["_x"]
        allowed, seen, ncalls = allowed_of(ex, o.st, v["has_allowed_values"])
        passes = z3.And(x.disc == v["_want"], allowed)
        props = [("a conforming (and allowed) value passes unchanged", z3.Implies(passes, z3.BoolVal(res is x))),
                 ("a non-conforming or not allowed value becomes null", z3.Implies(z3.Not(passes), z3.BoolVal(is_null(ex, res, x))))]
        if ncalls:
            props.append(("the allowed-values test sees the value being checked", z3.BoolVal(seen is x and ncalls == 1)))
        return props

    jobs.append(lambda c: decide(c, crate, "item_definition/simple", setup_simple, post_simple, lambda i, rb: replay_itemdef("simple", i, rb), rb, models=MODELS,
                                 unwind=12, describe=common_desc, budget_s=900, min_paths=16, timeout_ms=20000, known_predicates=KNOWN_PRED,
                                 prefer=lambda inp: U.replayable_pref(inp["_x"])))

    # ------------------------------------------------------------------------------------------------------------ collection of simple
    def same_list(ex, res, items, n_expr):
        """res is a List value holding exactly the given objects, in order"""
        if not (isinstance(res, En) and res.ty == "Value" and ex.concrete(res.disc) == U.idx("List")):
            return z3.BoolVal(False)
        vec = res.alts["List"][0].fields[0]
        n = ex.concrete(vec.len)
        if n is None or n > len(items) or not all(a is b for a, b in zip(vec.items[:n], items[:n])):
            return z3.BoolVal(False)
        return vec.len == n_expr

    def setup_coll_simple(ex, st):
        sel, ft, want = type_sel(ex, st)
        has_av, av = av_option(ex, st)
        x = U.fresh(ex, st, 2, "x", list_len=2, ctx_len=1)
        inputs = dict(feel_type=sel, has_allowed_values=has_av, _x=x, _want=want)
        return (lambda ex, st: run_builder(ex, st, "build_collection_of_simple_type_evaluator", [ft, av], x)), None, inputs

    def post_coll_simple(ex, o, v):
        tag, res = o.value
        if tag != "ok":
            return [("an evaluator is built for every simple FEEL type", z3.BoolVal(False))]
        x = v["_x"]
        vec = x.alts["List"][0].fields[0]
        allowed, seen, ncalls = allowed_of(ex, o.st, v["has_allowed_values"])
        conf = z3.And(kind_is(x, "List"), *[z3.Implies(vec.len > i, it.disc == v["_want"]) for i, it in enumerate(vec.items)])
        passes = z3.And(conf, allowed)
        props = [("a list of conforming items passes with exactly its items", z3.Implies(passes, same_list(ex, res, vec.items, vec.len))),
                 ("a non-list, a list with a non-conforming item or a not allowed list becomes null", z3.Implies(z3.Not(passes), z3.BoolVal(is_null(ex, res, x))))]
        if ncalls:
            props.append(("the allowed-values test sees the checked list", z3.And(z3.BoolVal(ncalls == 1), same_list(ex, seen, vec.items, vec.len))))
        return props

    jobs.append(lambda c: decide(c, crate, "item_definition/collection_of_simple", setup_coll_simple, post_coll_simple,
                                 lambda i, rb: replay_itemdef("collection_of_simple", i, rb), rb, models=MODELS, unwind=16, describe=common_desc, budget_s=900,
                                 min_paths=16, timeout_ms=20000, known_predicates=KNOWN_PRED, prefer=lambda inp: U.replayable_pref(inp["_x"]), max_cex=8))

    # ------------------------------------------------------------------------------------------------------------ component types
    def closure_env(ex, st, builder, vals):
        from checks.C13 import closure_captures
        caps = closure_captures(crate, builder)
        if sorted(caps) != sorted(vals):
            raise MirUnsupported("%s's closure captures %s, the obligation knows %s" % (builder, caps, sorted(vals)))
        return Ref(ex.new_cell(st, Adt("closure", builder, [vals[c] for c in caps]), "env"))

    def components(ex, st):
        n = ex.fresh_int(st, "usize", "components", constrain=False)
        ex.assume(st, z3.And(n.e >= 0, n.e <= len(COMP)))
        items = [Adt("tuple", None, (Opaque("Name", z3.IntVal(r)), Ref(ex.new_cell(st, oracle_item_evaluator("c%d" % k), "cbox")))) for k, r in enumerate(COMP)]
        return n.e, VecV(n.e, items, "(Name, ItemDefinitionEvaluatorFn)")

    def ctx_conforms(cv, ncomp):
        """z3: every one of the first ncomp component names is a key of the context value cv (payload of Value::Context)"""
        mp = cv.fields[0]
        c = []
        for k, r in enumerate(COMP):
            present = z3.Or([z3.And(mp.len > p, e.fields[0].e == r) for p, e in enumerate(mp.items)]) if mp.items else z3.BoolVal(False)
            c.append(z3.Implies(ncomp > k, present))
        return z3.And(c)

    def checked_ctx(ex, st, res, cv, ncomp, calls):
        """res is a Context holding exactly the component names, each bound to what its evaluator returned for the entry of that name"""
        if not (isinstance(res, En) and res.ty == "Value" and ex.concrete(res.disc) == U.idx("Context")):
            return z3.BoolVal(False)
        rm = res.alts["Context"][0].fields[0]
        n = ex.concrete(rm.len)
        if n is None or n > len(COMP) or n != len(calls):
            return z3.BoolVal(False)
        conj = [rm.len == ncomp]
        src = cv.fields[0]
        for k in range(n):
            e = rm.items[k]
            _, tag, arg, out = calls[k]
            if tag != "c%d" % k or e.fields[1] is not out:
                return z3.BoolVal(False)
            conj.append(e.fields[0].e == COMP[k])
            conj.append(z3.Or([z3.And(src.len > p, s.fields[0].e == COMP[k], z3.BoolVal(arg is s.fields[1])) for p, s in enumerate(src.items)]))
        return z3.And(conj)

    def via_builder(ex, st, builder, ncomp, av, x):
        """the builder itself is executed on an item definition with `ncomp` components (the accessors of ItemDefinition, the component
        evaluator factory and the allowed-values factory are oracles), then the closure it returns: whatever the closure captures"""
        comp_defs = [Opaque("ItemDefinition", ("component", k)) for k in range(len(COMP))]
        comp_evs = [Ref(ex.new_cell(st, oracle_item_evaluator("c%d" % k), "cbox")) for k in range(len(COMP))]
        idef = Ref(ex.new_cell(st, Opaque("ItemDefinition", ("self", 0)), "idef"))

        def m_components(ex, st, callee, args, dest_ty):
            yield st, Ref(ex.new_cell(st, VecV(ncomp, comp_defs, "ItemDefinition"), "components"))

        def m_feel_name(ex, st, callee, args, dest_ty):
            d = deref(ex, st, args[0])
            k = d.e[1] if isinstance(d, Opaque) and d.sort == "ItemDefinition" and d.e[0] == "component" else None
            if k is None:
                raise MirUnsupported("feel_name of %r" % (d,))
            yield st, Ref(ex.new_cell(st, En("Option", z3.IntVal(1), {"Some": (Opaque("Name", z3.IntVal(COMP[k])),)}), "feel_name"))

        def m_build_item(ex, st, callee, args, dest_ty):
            d = deref(ex, st, args[0])
            if not (isinstance(d, Opaque) and d.sort == "ItemDefinition" and d.e[0] == "component"):
                raise MirUnsupported("build_item_definition_evaluator of %r" % (d,))
            yield st, En("Result", z3.IntVal(0), {"Ok": (comp_evs[d.e[1]],)})

        def m_build_av(ex, st, callee, args, dest_ty):
            yield st, En("Result", z3.IntVal(0), {"Ok": (av,)})
        extra = [(re.compile(r"^(dmntk_model::model::)?ItemDefinition::item_components$"), m_components),
                 (re.compile(r"^<(dmntk_model::model::)?ItemDefinition as (dmntk_model::model::)?NamedElement>::feel_name$|^(dmntk_model::model::)?ItemDefinition::feel_name$"), m_feel_name),
                 (re.compile(r"^build_item_definition_evaluator$"), m_build_item),
                 (re.compile(r"^build_allowed_values_evaluator$"), m_build_av)]

        def runner(ex, st):
            for m_ in reversed(extra):
                ex.models.insert(0, m_)
            for o in run_builder(ex, st, builder, [idef], x):
                if o.kind == "return":
                    tag, res = o.value
                    if tag != "ok":
                        raise MirUnsupported("%s did not build an evaluator" % builder)
                    o = Outcome("return", o.st, value=res)
                yield o
        return runner

    def setup_component(ex, st):
        ncomp, comps = components(ex, st)
        has_av, av = av_option(ex, st)
        x = U.fresh(ex, st, 1, "x", list_len=1, ctx_len=3)
        inputs = dict(components=ncomp, has_allowed_values=has_av, _x=x)
        return via_builder(ex, st, "build_component_type_evaluator", ncomp, av, x), None, inputs

    def post_component(ex, o, v):
        res, x = o.value, v["_x"]
        cv = x.alts["Context"][0]
        calls = [e for e in o.st.log if e[0] == "ev"]
        allowed, seen, ncalls = allowed_of(ex, o.st, v["has_allowed_values"])
        conf = z3.And(kind_is(x, "Context"), ctx_conforms(cv, v["components"]))
        passes = z3.And(conf, allowed)
        props = [("a context with every component passes as the context of its checked components", z3.Implies(passes, checked_ctx(ex, o.st, res, cv, v["components"], calls))),
                 ("a non-context, a context lacking a component or a not allowed one becomes null", z3.Implies(z3.Not(passes), z3.BoolVal(is_null(ex, res, x))))]
        if ncalls:
            props.append(("the allowed-values test sees the checked context", z3.And(z3.BoolVal(ncalls == 1), checked_ctx(ex, o.st, seen, cv, v["components"], calls))))
        return props

    jobs.append(lambda c: decide(c, crate, "item_definition/component", setup_component, post_component, lambda i, rb: replay_itemdef("component", i, rb), rb,
                                 models=MODELS, unwind=16, describe=common_desc, budget_s=900, min_paths=8, timeout_ms=20000, known_predicates=KNOWN_PRED,
                                 prefer=lambda inp: U.replayable_pref(inp["_x"])))

    # ------------------------------------------------------------------------------------------------------------ collection of component
    def setup_coll_component(ex, st, fixed_n=None, fixed_len=None):
        ncomp, comps = components(ex, st)
        has_av, av = av_option(ex, st)
        if fixed_len is None:  # not a list: only the kind matters (the error message renders the value's type, which walks the whole value)
            x = U.fresh(ex, st, 1, "x", list_len=1, ctx_len=1)
        else:
            x = U.fresh(ex, st, 2, "x", list_len=2, ctx_len=3 if tier == "thorough" else 2)
        # the obligation is split by number of components and list length (run in parallel); together the parts cover the stated bound
        ex.assume(st, ncomp == fixed_n)
        if fixed_len is None:
            ex.assume(st, x.disc != U.idx("List"))
        else:
            ex.assume(st, z3.And(x.disc == U.idx("List"), x.alts["List"][0].fields[0].len == fixed_len))
        inputs = dict(components=ncomp, has_allowed_values=has_av, _x=x)
        return via_builder(ex, st, "build_collection_of_component_type_evaluator", ncomp, av, x), None, inputs

    def checked_list_of_ctx(ex, st, res, vec, ncomp, calls):
        if not (isinstance(res, En) and res.ty == "Value" and ex.concrete(res.disc) == U.idx("List")):
            return z3.BoolVal(False)
        rv = res.alts["List"][0].fields[0]
        n = ex.concrete(rv.len)
        if n is None or n > len(vec.items) or (n == 0 and calls) or (n and len(calls) % n):
            return z3.BoolVal(False)
        nc = len(calls) // n if n else 0
        conj = [rv.len == vec.len] + ([ncomp == nc] if n else [])
        for i in range(n):
            item = vec.items[i]
            if "Context" not in item.alts:
                return z3.BoolVal(False)
            conj.append(checked_ctx(ex, st, rv.items[i], item.alts["Context"][0], ncomp, calls[i * nc:(i + 1) * nc]))
        return z3.And(conj)

    def post_coll_component(ex, o, v):
        res, x = o.value, v["_x"]
        vec = x.alts["List"][0].fields[0]
        calls = [e for e in o.st.log if e[0] == "ev"]
        allowed, seen, ncalls = allowed_of(ex, o.st, v["has_allowed_values"])
        conf = z3.And(kind_is(x, "List"), *[z3.Implies(vec.len > i, z3.And(kind_is(it, "Context"), ctx_conforms(it.alts["Context"][0], v["components"])) if "Context" in it.alts
                                                      else z3.BoolVal(False)) for i, it in enumerate(vec.items)])
        passes = z3.And(conf, allowed)
        props = [("a list of contexts with every component passes as the list of their checked contexts", z3.Implies(passes, checked_list_of_ctx(ex, o.st, res, vec, v["components"], calls))),
                 ("anything else becomes null", z3.Implies(z3.Not(passes), z3.BoolVal(is_null(ex, res, x))))]
        if ncalls:
            props.append(("the allowed-values test sees the checked list", z3.And(z3.BoolVal(ncalls == 1), checked_list_of_ctx(ex, o.st, seen, vec, v["components"], calls))))
        return props

    for fn in range(len(COMP) + 1):
        for fl in (None, 0, 1, 2):
            jobs.append(lambda c, fn=fn, fl=fl: decide(
                c, crate, "item_definition/collection_of_component/%dcomp_%s" % (fn, "nonlist" if fl is None else "len%d" % fl),
                lambda ex, st: setup_coll_component(ex, st, fn, fl), post_coll_component,
                lambda i, rb: replay_itemdef("collection_of_component", i, rb), rb, models=MODELS, unwind=24, describe=common_desc, budget_s=1200,
                min_paths=1, timeout_ms=20000, known_predicates=KNOWN_PRED, prefer=lambda inp: U.replayable_pref(inp["_x"]), max_cex=24, max_per_label=8))

    # ------------------------------------------------------------------------------------------------------------ referenced types
    def registry_models(ex, st):
        has_ev = z3.Bool(ex.fresh_name("referenced_evaluator_present"))
        box = Ref(ex.new_cell(st, oracle_item_evaluator("ref"), "refbox"))

        def m_get(ex, st, callee, args, dest_ty):
            key = deref(ex, st, args[1])
            st.log.append(("lookup", getattr(key, "const", None)))
            yield st, En("Option", z3.If(has_ev, z3.IntVal(1), z3.IntVal(0)), {"None": (), "Some": (box,)})
        ex.models = [(re.compile(r"^HashMap::<(std::string::)?String, .*>::get::<.*>$"), m_get)] + ex.models
        return has_ev

    def setup_referenced(ex, st):
        has_ev = registry_models(ex, st)
        x = U.fresh(ex, st, 1, "x", list_len=1, ctx_len=1)
        env = closure_env(ex, st, "build_referenced_type_evaluator", {"ref_type": StrV("tRef")})
        inputs = dict(referenced_evaluator_present=has_ev, _x=x)
        return "build_referenced_type_evaluator::{closure#0}", [env, Ref(ex.new_cell(st, x, "input")), ide_ref(ex, st)], inputs

    def post_referenced(ex, o, v):
        res, x = o.value, v["_x"]
        calls = [e for e in o.st.log if e[0] == "ev"]
        looked = [e for e in o.st.log if e[0] == "lookup"]
        ok = len(calls) == 1 and calls[0][2] is x and res is calls[0][3]
        return [("the value is checked by the referenced item definition", z3.Implies(v["referenced_evaluator_present"], z3.BoolVal(ok))),
                ("a missing referenced item definition gives null", z3.Implies(z3.Not(v["referenced_evaluator_present"]), z3.BoolVal(is_null(ex, res, x) and not calls))),
                ("the registry is asked for the referenced name", z3.BoolVal(len(looked) == 1 and looked[0][1] == "tRef"))]

    jobs.append(lambda c: decide(c, crate, "item_definition/referenced", setup_referenced, post_referenced, lambda i, rb: replay_itemdef("referenced", i, rb), rb,
                                 models=MODELS, unwind=12, describe=common_desc, budget_s=600, min_paths=2, timeout_ms=20000, known_predicates=KNOWN_PRED,
                                 prefer=lambda inp: U.replayable_pref(inp["_x"])))

    def setup_coll_referenced(ex, st):
        has_ev = registry_models(ex, st)
        has_av, av = av_option(ex, st)
        x = U.fresh(ex, st, 2, "x", list_len=2, ctx_len=1)
        env = closure_env(ex, st, "build_collection_of_referenced_type_evaluator", {"type_ref": StrV("tRef"), "av_evaluator": av})
        inputs = dict(referenced_evaluator_present=has_ev, has_allowed_values=has_av, _x=x)
        return "build_collection_of_referenced_type_evaluator::{closure#0}", [env, Ref(ex.new_cell(st, x, "input")), ide_ref(ex, st)], inputs

    def post_coll_referenced(ex, o, v):
        res, x = o.value, v["_x"]
        vec = x.alts["List"][0].fields[0]
        calls = [e for e in o.st.log if e[0] == "ev"]
        allowed, seen, ncalls = allowed_of(ex, o.st, v["has_allowed_values"])
        passes = z3.And(kind_is(x, "List"), v["referenced_evaluator_present"], allowed)
        args_ok = all(c[2] is it for c, it in zip(calls, vec.items))
        outs = [c[3] for c in calls]
        good = z3.And(z3.BoolVal(args_ok), same_list(ex, res, outs, vec.len)) if len(calls) <= len(vec.items) else z3.BoolVal(False)
        props = [("a list passes as the list of its items checked by the referenced item definition, in order", z3.Implies(passes, good)),
                 ("a non-list, a missing referenced item definition or a not allowed list gives null", z3.Implies(z3.Not(passes), z3.BoolVal(is_null(ex, res, x))))]
        if ncalls:
            props.append(("the allowed-values test sees the checked list", z3.And(z3.BoolVal(ncalls == 1), same_list(ex, seen, outs, vec.len))))
        return props

    jobs.append(lambda c: decide(c, crate, "item_definition/collection_of_referenced", setup_coll_referenced, post_coll_referenced,
                                 lambda i, rb: replay_itemdef("collection_of_referenced", i, rb), rb, models=MODELS, unwind=16, describe=common_desc, budget_s=600,
                                 min_paths=4, timeout_ms=20000, known_predicates=KNOWN_PRED, prefer=lambda inp: U.replayable_pref(inp["_x"])))


# ----------------------------------------------------------------------------- native replay: a model whose decision echoes a typed input


def _conforms(kind, d, feel_type):
    """reference semantics on a described value for the concrete item definitions used in the replay (components a: number, b: string)"""
    if kind == "simple":
        return d if d["kind"] == feel_type else None
    if kind == "collection_of_simple":
        return d if d["kind"] == "List" and all(x["kind"] == feel_type for x in d["items"]) else None
    return "unknown"


def replay_itemdef(kind, i, rb):
    """the witness's shape is replayed on concrete item definitions; a witness whose oracle results no concrete definition produces
    cannot be replayed (reported as not reproduced)"""
    d = i["value"]
    if not fv.replayable(d):
        return False, "value not expressible"
    ft = i.get("feel_type", "Number")
    if kind == "simple":
        idef = '<itemDefinition name="t" id="_t"><typeRef>%s</typeRef></itemDefinition>' % XSD[ft]
    elif kind == "collection_of_simple":
        idef = '<itemDefinition name="t" id="_t" isCollection="true"><typeRef>%s</typeRef></itemDefinition>' % XSD[ft]
    elif kind in ("component", "collection_of_component"):
        n = i.get("components", 2)
        comps = "".join('<itemComponent name="%s" id="_c%d"><typeRef>%s</typeRef></itemComponent>' % (fv.key_name(COMP[k]), k, "number") for k in range(n))
        idef = '<itemDefinition name="t" id="_t"%s>%s</itemDefinition>' % (' isCollection="true"' if kind.startswith("collection") else "", comps)
    else:
        present = i.get("referenced_evaluator_present", True)
        idef = ('<itemDefinition name="t" id="_t"%s><typeRef>%s</typeRef></itemDefinition>' % (' isCollection="true"' if kind.startswith("collection") else "", "u" if present else "missing")
                + '<itemDefinition name="u" id="_u"><typeRef>number</typeRef></itemDefinition>')
    xml = ('<?xml version="1.0" encoding="UTF-8"?><definitions namespace="https://verif" name="m" id="_m" xmlns="https://www.omg.org/spec/DMN/20191111/MODEL/">'
           '%s<inputData name="x" id="_x"><variable name="x" typeRef="t"/></inputData>'
           '<decision name="d" id="_d"><variable name="d"/><informationRequirement><requiredInput href="#_x"/></informationRequirement>'
           '<literalExpression><text>x</text></literalExpression></decision></definitions>') % idef
    ctx = "{x: %s}" % fv.feel_text(d)
    _, out, _ = replay_call(rb, ["model_eval", xml, "d", ctx])
    _, ref, _ = replay_call(rb, ["feel", ref_expr(kind, d, ft, i)])
    bad = strip_null_text(out.strip()) != strip_null_text(ref.strip()) and out.startswith("VALUE") and ref.startswith("VALUE")
    return bad, "input %s with item definition %s -> decision echoes %s, reference %s" % (ctx, idef[:160], out[:120], ref[:120])


def strip_null_text(t):
    """`null(some message)` -> `null` (messages may contain balanced parentheses and quoted text)"""
    out, i = [], 0
    while i < len(t):
        if t.startswith("null(", i):
            depth, j = 1, i + 5
            while j < len(t) and depth:
                depth += {"(": 1, ")": -1}.get(t[j], 0)
                j += 1
            out.append("null")
            i = j
        else:
            out.append(t[i])
            i += 1
    return "".join(out)


def ref_expr(kind, d, ft, i):
    """FEEL text of the value the property calls for, computed from the described input (python reference semantics)"""
    def chk_number(v):
        return v if v["kind"] == "Number" else {"kind": "Null"}

    def chk_ctx(v, n):
        if v["kind"] != "Context":
            return None
        have = dict((k, x) for k, x in v["entries"])
        if any(COMP[k] not in have for k in range(n)):
            return None
        return {"kind": "Context", "entries": [[COMP[k], chk_number(have[COMP[k]])] for k in range(n)]}
    r = None
    if kind == "simple":
        r = d if d["kind"] == ft else None
    elif kind == "collection_of_simple":
        r = d if d["kind"] == "List" and all(x["kind"] == ft for x in d["items"]) else None
    elif kind == "component":
        r = chk_ctx(d, i.get("components", 2))
    elif kind == "collection_of_component":
        if d["kind"] == "List":
            items = [chk_ctx(x, i.get("components", 2)) for x in d["items"]]
            r = {"kind": "List", "items": items} if all(x is not None for x in items) else None
    elif kind == "referenced":
        r = chk_number(d) if i.get("referenced_evaluator_present", True) else None
    elif kind == "collection_of_referenced":
        if d["kind"] == "List" and i.get("referenced_evaluator_present", True):
            r = {"kind": "List", "items": [chk_number(x) for x in d["items"]]}
    return fv.feel_text(r) if r is not None else "null"
