"""C11, output side of decision services (DESIGN §4 C11): the evaluation closure `build_decision_service_evaluator` returns
(model-evaluator/src/builders/decision_service.rs) is executed from MIR with the registries behind the RwLocks replaced by oracles:
`DecisionEvaluator::evaluate(id, ..)` resolves each output decision or not (symbolic) and, when it does, stores an arbitrary value
under that decision's variable name; `FeelType::coerced` is a recorder (its own semantics is decided in C16).

Obligation: whatever the number of output decisions (0..3) and whichever of them resolve, the closure does not panic, stores exactly
one entry under the service's own output variable name, and that entry is `coerced(declared type, raw result)` where the raw result
is the single resolved output decision's value, or the context of all resolved output decisions' values when their number is not one.
"""
import re

import z3

from vcommon import *  # noqa
from mcheck import decide, model_value
from mir.sym import Adt, En, FnV, Opaque, Outcome, Ref, Sc, StrV, VecV, UNIT, mk_bool, mk_int, none, some
from mir.models import deref, m_format_stub, R, call_fn_value
from mir.parser import MirUnsupported
import feelvals as fv
from checks.C13 import closure_captures

NOUT = 3


def m_for_each(ex, st, callee, args, dest_ty):
    """Iterator::for_each over a slice iterator: the closure (real code) once per item, in order"""
    it, f = args

    def rec(st, cur):
        for st2, it2, item in fv.iter_next(ex, st, cur):
            if ex.concrete(item.disc) == 0:
                yield st2, UNIT
                continue
            for o in call_fn_value(ex, st2, f, [item.alts["Some"][0]]):
                if o.kind != "return":
                    yield o
                else:
                    yield from rec(o.st, it2)
    yield from rec(st, it)


def jobs_for(check, mirror, rb, crate, U, jobs, tier, KNOWN_PRED):
    check.bounds.append("decision service output: 0..%d output decisions, each resolving or not (dangling reference), arbitrary result values, 0..1 encapsulated decision (its value lands in the evaluation context and must not leak into the result); no input decisions "
                        "or input data (their evaluation is the decisions' own business)" % NOUT)
    check.assumptions.append("decision service output: RwLock registries replaced by oracles (DecisionEvaluator::evaluate resolves or not and stores an arbitrary value); "
                             "FeelType::coerced is a recorder (semantics: C16)")
    NUM, CTX = U.idx("Number"), U.idx("Context")

    def setup(ex, st):
        n = ex.fresh_int(st, "usize", "n_output_decisions", constrain=False)
        ex.assume(st, z3.And(n.e >= 0, n.e <= NOUT))
        ids = [StrV(None, id=z3.IntVal(300 + k)) for k in range(NOUT)]
        resolves = [z3.Bool(ex.fresh_name("resolves%d" % k)) for k in range(NOUT)]
        values = [En("Value", z3.IntVal(NUM), {"Number": (Opaque("FeelNumber", z3.IntVal(1000 + k)),)}) for k in range(NOUT)]
        ne = ex.fresh_int(st, "usize", "n_encapsulated_decisions", constrain=False)
        ex.assume(st, z3.And(ne.e >= 0, ne.e <= 1))
        caps = closure_captures(crate, "build_decision_service_evaluator")
        # the first closure with captures in the builder's body is the evaluation closure
        empty = lambda: VecV(z3.IntVal(0), (), "String")
        vals = {"input_decisions": empty(), "input_decision_results_evaluators": VecV(z3.IntVal(0), (), "Evaluator"), "input_data_references": empty(),
                "encapsulated_decisions": VecV(ne.e, [StrV(None, id=z3.IntVal(400))], "String"), "output_decisions": VecV(n.e, ids, "String"), "output_variable_type": Opaque("FeelType", "declared"),
                "output_variable_name": Opaque("Name", z3.IntVal(900))}
        from checks.C13 import closure_capture_types
        ctypes = closure_capture_types(crate, "build_decision_service_evaluator")
        for c_ in caps:
            # a capture this obligation does not know: a flag or a count the builder computed - whatever it computed, the closure must not panic and
            # must deliver what the property says, so it is an arbitrary value of its type (a counterexample through it is confirmed natively)
            if c_ not in vals and ctypes.get(c_) in ("bool", "usize"):
                vals[c_] = mk_bool(z3.Bool(ex.fresh_name("capture_" + c_))) if ctypes[c_] == "bool" else ex.fresh_int(st, "usize", "capture_" + c_)
        if sorted(caps) != sorted(vals):
            raise MirUnsupported("the decision service closure captures %s, the obligation knows %s" % (caps, sorted(vals)))
        env = Ref(ex.new_cell(st, Adt("closure", "build_decision_service_evaluator", [vals[c] for c in caps]), "env"))
        input_data = Ref(ex.new_cell(st, Adt("struct", "FeelContext", (fv.MapV(z3.IntVal(0), (), "kv"),)), "input"))
        output = Ref(ex.new_cell(st, Adt("struct", "FeelContext", (fv.MapV(z3.IntVal(0), (), "kv"),)), "output"))
        me = Ref(ex.new_cell(st, Opaque("ModelEvaluator"), "me"))
        inputs = dict(n=n.e, ne=ne.e, _resolves=resolves, _values=values, _output=output)
        for k in range(NOUT):
            inputs["resolves%d" % k] = resolves[k]

        def m_registry(ex, st, callee, args, dest_ty):
            yield st, En("Result", z3.IntVal(0), {"Ok": (Ref(ex.new_cell(st, Opaque("Registry", callee.rsplit("::", 1)[1]), "guard")),)})

        def m_guard_deref(ex, st, callee, args, dest_ty):
            g = args[0]
            v = deref(ex, st, g)
            yield st, (g if isinstance(v, Opaque) and v.sort == "Registry" and not isinstance(ex.read(st, g.cell, g.projs), Ref) else ex.read(st, g.cell, g.projs))

        def m_decision_evaluate(ex, st, callee, args, dest_ty):
            did = deref(ex, st, args[1])
            k = ex.concrete(did.attrs["id"]) - 300
            ctx = args[4]
            if k == 100:   # the encapsulated decision: always resolves, its value lands in the same evaluation context
                name = Opaque("Name", z3.IntVal(40))
                enc = En("Value", z3.IntVal(NUM), {"Number": (Opaque("FeelNumber", z3.IntVal(4000)),)})
                for o in ex.run("FeelContext::set_entry", [ctx, Ref(ex.new_cell(st, name, "name")), enc], st):
                    if o.kind != "return":
                        yield o
                    else:
                        o.st.log.append(("encapsulated", 0))
                        yield o.st, some(name)
                return
            for st2 in ex.branch(st, resolves[k]):
                name = Opaque("Name", z3.IntVal(10 + k))
                for o in ex.run("FeelContext::set_entry", [ctx, Ref(ex.new_cell(st2, name, "name")), values[k]], st2):
                    if o.kind != "return":
                        yield o
                    else:
                        o.st.log.append(("resolved", k))
                        yield o.st, some(name)
            for st2 in ex.branch(st, z3.Not(resolves[k])):
                st2.log.append(("dangling", k))
                yield st2, none()

        def m_coerced(ex, st, callee, args, dest_ty):
            v = deref(ex, st, args[1])
            res = En("Value", z3.IntVal(U.idx("Irrelevant")), {"Irrelevant": ()})
            st.log.append(("coerced", deref(ex, st, args[0]), v, res))
            yield st, res
        models = [(re.compile(r"^ModelEvaluator::(item_definition_evaluator|input_data_evaluator|decision_evaluator)$"), m_registry),
                  (re.compile(r"^<std::sync::RwLockReadGuard<'_, .*> as Deref>::deref$"), m_guard_deref),
                  (re.compile(r"^(builders::decision::)?DecisionEvaluator::evaluate$"), m_decision_evaluate),
                  (re.compile(r"^(dmntk_feel::)?FeelType::coerced$"), m_coerced)]

        def runner(ex, st):
            for m in reversed(models):
                ex.models.insert(0, m)
            body = None
            for name, b in ex.bodies.items():
                if name.startswith("build_decision_service_evaluator::{closure#") and name.count("{closure") == 1 and len(b.args) == 4:
                    body = b
            if body is None:
                raise MirUnsupported("evaluation closure of build_decision_service_evaluator not found")
            yield from ex.run_body(st, body, [env, input_data, me, output])
        return runner, None, inputs

    def post(ex, o, v):
        resolved = [e[1] for e in o.st.log if e[0] == "resolved"]
        calls = [e for e in o.st.log if e[0] == "coerced"]
        out = ex.read(o.st, v["_output"].cell, v["_output"].projs).fields[0]
        nent = ex.concrete(out.len)
        props = [("the closure returns the service's output variable name", o.value.e == 900 if isinstance(o.value, Opaque) else z3.BoolVal(False)),
                 ("exactly one result is stored, under the service's output variable name",
                  z3.BoolVal(nent == 1 and ex.concrete(out.items[0].fields[0].e) == 900)),
                 ("the declared output type is applied exactly once", z3.BoolVal(len(calls) == 1))]
        if len(calls) == 1 and nent == 1:
            _, ty, arg, res = calls[0]
            props.append(("what is stored is the coerced value", z3.BoolVal(out.items[0].fields[1] is res)))
            props.append(("the coercion targets the declared type of the service's output variable", z3.BoolVal(isinstance(ty, Opaque) and ty.e == "declared")))
            if len(resolved) == 1:
                okv = arg is v["_values"][resolved[0]] or (isinstance(arg, En) and "Number" in arg.alts and ex.concrete(arg.disc) == NUM
                                                           and ex.concrete(arg.alts["Number"][0].e) == 1000 + resolved[0])
                props.append(("with one resolved output decision the raw result is that decision's value", z3.BoolVal(bool(okv))))
            else:
                okc = isinstance(arg, En) and ex.concrete(arg.disc) == CTX
                if okc:
                    mp = arg.alts["Context"][0].fields[0]
                    m = ex.concrete(mp.len)
                    got = sorted((ex.concrete(e.fields[0].e), ex.concrete(e.fields[1].alts["Number"][0].e)) for e in mp.items[:m]
                                 if isinstance(e.fields[1], En) and "Number" in e.fields[1].alts)
                    okc = got == sorted((10 + k, 1000 + k) for k in resolved)
                props.append(("with no or several resolved output decisions the raw result is the context of their values", z3.BoolVal(bool(okc))))
        enc = [e for e in o.st.log if e[0] == "encapsulated"]
        props.append(("reach:encapsulated decision next to two output decisions", z3.BoolVal(len(resolved) >= 2 and len(enc) == 1)))
        props.append(("reach:one", z3.BoolVal(len(resolved) == 1)))
        props.append(("reach:two", z3.BoolVal(len(resolved) >= 2)))
        props.append(("reach:dangling", z3.BoolVal(any(e[0] == "dangling" for e in o.st.log))))
        return props

    def desc(m, v):
        n = model_value(m, v["n"])
        return {"n_output_decisions": n, "n_encapsulated_decisions": model_value(m, v["ne"]), "resolves": [bool(model_value(m, v["resolves%d" % k])) for k in range(n)]}

    def replay(i, rb):
        """a decision service typed `string` whose output decisions yield numbers: whatever resolves, the service's result must be null
        (a number, or a context of numbers, does not conform to string); evaluation must not panic"""
        decs, outs = "", ""
        for k, r in enumerate(i["resolves"]):
            if r:
                decs += ('<decision name="d%d" id="_d%d"><variable name="d%d" typeRef="number"/><literalExpression><text>%d</text></literalExpression></decision>' % (k, k, k, 1000 + k))
                outs += '<outputDecision href="#_d%d"/>' % k
            else:
                outs += '<outputDecision href="#_missing%d"/>' % k
        one = sum(1 for r in i["resolves"] if r) == 1
        many = sum(1 for r in i["resolves"] if r) != 1
        if i.get("n_encapsulated_decisions"):
            decs += '<decision name="enc" id="_enc"><variable name="enc" typeRef="number"/><literalExpression><text>4000</text></literalExpression></decision>'
            outs += '<encapsulatedDecision href="#_enc"/>'
        # variant A, service typed string: a number / a context of numbers does not conform -> null whatever resolves;
        # variant B (exactly one resolved output decision), service typed number: that decision's number itself
        notes, bad = [], False
        for tref in ["string"] + (["number"] if one else []) + (["Any"] if many else []):
            xml = ('<?xml version="1.0" encoding="UTF-8"?><definitions namespace="https://verif" name="m" id="_m" xmlns="https://www.omg.org/spec/DMN/20191111/MODEL/">'
                   '%s<decisionService name="svc" id="_svc"><variable name="svc"%s/>%s</decisionService></definitions>') % (decs, "" if tref == "Any" else ' typeRef="%s"' % tref, outs)
            _, out, _ = replay_call(rb, ["model_eval", xml, "svc", "{}"])
            if out.startswith("PARSE-ERROR") or out.startswith("BUILD-ERROR"):
                notes.append("typed %s: replay model rejected: %s" % (tref, out[:80]))
                continue
            want = "VALUE %d" % (1000 + i["resolves"].index(True)) if tref == "number" else "VALUE null"
            if tref == "Any":
                # several resolved output decisions, untyped service: the context of exactly the output decisions' values
                want = "VALUE {" + ", ".join("d%d: %d" % (k, 1000 + k) for k, r in enumerate(i["resolves"]) if r) + "}"
            dev = out.startswith("PANIC") or (out.strip() != want if tref in ("number", "Any") else not out.startswith("VALUE null"))
            bad = bad or dev
            notes.append("typed %s -> %s (specified: %s)" % (tref, out[:60], want[6:]))
        return bad, "decision service with output decisions %s (resolving: %s): %s" % (["d%d" % k for k in range(len(i["resolves"]))], i["resolves"], "; ".join(notes))

    jobs.append(lambda c: decide(c, crate, "decision_service_output", setup, post, replay, rb, models=[(re.compile(r"^format$|^std::fmt::format$|^alloc::fmt::format$"), m_format_stub),
                                 (re.compile(r"^<std::slice::Iter<'_, .*> as Iterator>::for_each::<.*>$"), m_for_each)] + fv.VALUE_MODELS,
                                 unwind=24, describe=desc, need_reach=["reach:one", "reach:two", "reach:dangling", "reach:encapsulated decision next to two output decisions"], max_cex=16, budget_s=900, known_predicates=KNOWN_PRED))
