"""C12 — loading any model never crashes — decided kernel: rule/clause pairing by index in decision tables (DESIGN §4 C12).

Engine M: model-evaluator/src/builders/decision_table.rs `parse_decision_table` is executed from MIR on a DecisionTable whose
input clauses, output clauses, rules and the entry lists of every rule are Vec models of INDEPENDENT symbolic lengths (the FEEL
parse functions are havoc'd to Ok/Err), and `EvaluatedDecisionTable::get_result` on rules with 0..2 output values and 0..2
component names: no index expression may panic.  Counterexamples are replayed by generating the DMN XML of such a table and
loading + evaluating it natively; a table the model parser already rejects is not a finding (the state is unreachable).
The XML layer, reference cycles and recursion depth are whole-program behaviour and not decided by this family.
"""
import re

import z3

from vcommon import *  # noqa
from mcheck import MirCrate, decide, run_parallel, model_value
from mir.sym import Adt, En, FnV, Opaque, Outcome, Ref, Sc, StrV, VecV, UNIT, mk_bool, mk_int, none, some, ok, err
from mir.models import deref, m_format_stub, R
from mir.parser import MirUnsupported
import rsenum
import feelvals as fv

ENGINE = "M (MIR -> SMT, z3): index obligations of the decision table builder"


def havoc_result(tag):
    def m(ex, st, callee, args, dest_ty):
        b = ex.fresh_bool("parse_ok")
        yield st, En("Result", z3.If(b.e, z3.IntVal(0), z3.IntVal(1)), {"Ok": (Opaque(tag),), "Err": (Opaque("Error"),)})
    return m


def opt_str(ex, hint):
    b = z3.Bool(ex.fresh_name(hint))
    return En("Option", z3.If(b, z3.IntVal(1), z3.IntVal(0)), {"None": (), "Some": (StrV(None, id=z3.Int(ex.fresh_name(hint + "_s"))),)})


def run(check, mirror, tier):
    rb = replay_build(mirror)
    crate = MirCrate(mirror, ["model-evaluator", "feel"], overflow_checks=True, enum_crates=("common", "feel", "model"))
    src = mirror.read("model/src/model/mod.rs")
    f_dt = rsenum.struct_fields(src, "DecisionTable")
    f_rule = rsenum.struct_fields(src, "DecisionRule")
    f_in = rsenum.struct_fields(src, "InputClause")
    f_out = rsenum.struct_fields(src, "OutputClause")
    NMAX = 2 if tier == "quick" else 3
    check.bounds += ["decision table with 0..%d input clauses, 0..%d output clauses, 0..%d rules; every rule has 0..%d input entries and 0..%d output entries, "
                     "all lengths independent" % ((NMAX,) * 5),
                     "get_result: 0..2 output values against 0..2 component names"]
    check.assumptions += ["dmntk_feel_parser::parse_* and dmntk_feel_evaluator::prepare are havoc'd to Ok/Err (their own totality is C05's business)"]
    MODELS = [(re.compile(r"(^|::)parse_(expression|unary_tests|name|textual_expression)$"), havoc_result("AstNode")),
              (re.compile(r"(^|::)prepare$"), havoc_result("Evaluator")),
              (re.compile(r"^format$|^std::fmt::format$|^alloc::fmt::format$"), m_format_stub),
              (re.compile(r"^<AstNode as Clone>::clone$"), lambda ex, st, c, a, d: iter([(st, Opaque("AstNode"))])),
              ] + fv.VALUE_MODELS
    jobs = []

    def vec_sym(ex, st, hint, items):
        n = ex.fresh_int(st, "usize", hint, constrain=False)
        ex.assume(st, z3.And(n.e >= 0, n.e <= len(items)))
        return VecV(n.e, items, "T"), n.e

    def setup_parse(ex, st):
        inputs = {}
        ins = [Adt("struct", "InputClause", [{"input_expression": StrV(None, id=z3.IntVal(10 + i)), "input_values": opt_str(ex, "in%d_values" % i)}[f] for f in f_in])
               for i in range(NMAX)]
        outs = [Adt("struct", "OutputClause", [{"type_ref": none(), "name": opt_str(ex, "out%d_name" % i), "output_values": opt_str(ex, "out%d_values" % i),
                                               "default_output_entry": opt_str(ex, "out%d_default" % i)}[f] for f in f_out]) for i in range(NMAX)]
        rules = []
        for r in range(NMAX):
            ie, n1 = vec_sym(ex, st, "rule%d_inputs" % r, [Adt("struct", "InputEntry", (StrV(None, id=z3.IntVal(100 + r * 10 + k)),)) for k in range(NMAX)])
            oe, n2 = vec_sym(ex, st, "rule%d_outputs" % r, [Adt("struct", "OutputEntry", (StrV(None, id=z3.IntVal(200 + r * 10 + k)),)) for k in range(NMAX)])
            inputs["rule%d_inputs" % r], inputs["rule%d_outputs" % r] = n1, n2
            rules.append(Adt("struct", "DecisionRule", [{"input_entries": ie, "output_entries": oe, "annotation_entries": VecV(z3.IntVal(0), (), "T")}[f] for f in f_rule]))
        vin, inputs["inputs"] = vec_sym(ex, st, "n_inputs", ins)
        vout, inputs["outputs"] = vec_sym(ex, st, "n_outputs", outs)
        vrules, inputs["rules"] = vec_sym(ex, st, "n_rules", rules)
        vals = {"information_item_name": none(), "input_clauses": vin, "output_clauses": vout, "annotations": VecV(z3.IntVal(0), (), "T"), "rules": vrules,
                "hit_policy": Opaque("HitPolicy"), "aggregation": none(), "preferred_orientation": Opaque("Orientation"), "output_label": none()}
        missing = [f for f in f_dt if f not in vals]
        if missing:
            raise MirUnsupported("DecisionTable has fields the model does not know: %s" % missing)
        dt = Adt("struct", "DecisionTable", [vals[f] for f in f_dt])
        scope = Ref(ex.new_cell(st, Opaque("Scope"), "scope"))
        return "parse_decision_table", [scope, Ref(ex.new_cell(st, dt, "dt"))], inputs

    def desc(m, inputs):
        return {k: model_value(m, v) for k, v in inputs.items() if not k.startswith("_")}

    jobs.append(lambda c: decide(c, crate, "no_panic/parse_decision_table", setup_parse, lambda ex, o, i: [], replay_table, rb, models=MODELS, unwind=4 * NMAX + 6,
                                 describe=desc, budget_s=900, min_paths=2, timeout_ms=20000, known_predicates=KNOWN_PRED))

    def setup_result(ex, st):
        def val(k):
            return En("Value", z3.IntVal(25), {"Number": (Opaque("FeelNumber", z3.IntVal(k)),)})
        ov, n1 = vec_sym(ex, st, "n_output_values", [val(1), val(2)])
        cn, n2 = vec_sym(ex, st, "n_component_names", [Opaque("Name", z3.IntVal(1)), Opaque("Name", z3.IntVal(2))])
        rule = Adt("struct", "EvaluatedRule", (mk_bool(True), ov))
        f_edt = rsenum.struct_fields(mirror.read("model-evaluator/src/builders/decision_table.rs"), "EvaluatedDecisionTable")
        vals = {"component_names": cn, "output_values": VecV(z3.IntVal(0), (), "T"), "default_output_values": VecV(z3.IntVal(0), (), "T"),
                "evaluated_rules": VecV(z3.IntVal(0), (), "T")}
        edt = Adt("struct", "EvaluatedDecisionTable", [vals[f] for f in f_edt])
        return "EvaluatedDecisionTable::get_result", [Ref(ex.new_cell(st, edt)), Ref(ex.new_cell(st, rule))], {"n_output_values": n1, "n_component_names": n2}

    jobs.append(lambda c: decide(c, crate, "no_panic/get_result", setup_result, lambda ex, o, i: [], replay_result, rb, models=MODELS, unwind=8,
                                 describe=desc, budget_s=600, min_paths=2, timeout_ms=20000, known_predicates=KNOWN_PRED))
    # --- classification of item definitions (unwraps on the optional typeRef) ---------------------------------------------------------
    def setup_idt(ex, st):
        has_ref = z3.Bool(ex.fresh_name("has_type_ref"))
        known = z3.Bool(ex.fresh_name("type_ref_is_builtin"))
        ncomp = ex.fresh_int(st, "usize", "n_components", constrain=False)
        ex.assume(st, z3.And(ncomp.e >= 0, ncomp.e <= 1))
        coll = z3.Bool(ex.fresh_name("is_collection"))
        tref = En("Option", z3.If(has_ref, z3.IntVal(1), z3.IntVal(0)), {"None": (), "Some": (StrV(None, id=z3.IntVal(7)),)})
        item = Opaque("ItemDefinition", info=dict(type_ref=Ref(ex.new_cell(st, tref, "tref")), comps=Ref(ex.new_cell(st, VecV(ncomp.e, (Opaque("ItemDefinition"),), "T"), "comps")), coll=coll))

        def m_field(name):
            def m(ex, st, callee, args, dest_ty):
                d = deref(ex, st, args[0])
                v = d.info[name]
                yield st, (mk_bool(v) if name == "coll" else v)
            return m

        def m_to_feel_type(ex, st, callee, args, dest_ty):
            yield st, En("Option", z3.If(known, z3.IntVal(1), z3.IntVal(0)), {"None": (), "Some": (Opaque("FeelType"),)})
        ex.models = [(re.compile(r"^ItemDefinition::type_ref$|^<ItemDefinition as Expression>::type_ref$"), m_field("type_ref")), (re.compile(r"^ItemDefinition::item_components$"), m_field("comps")),
                     (re.compile(r"^ItemDefinition::is_collection$"), m_field("coll")), (re.compile(r"^type_ref_to_feel_type$"), m_to_feel_type),
                     (re.compile(r"^<ItemDefinition as NamedElement>::name$|^ItemDefinition::name$"), lambda ex, st, c, a, d: iter([(st, StrV("item"))])),
                     (re.compile(r"(^|::)err_invalid_item_definition_type$"), lambda ex, st, c, a, d: iter([(st, Opaque("Error"))]))] + ex.models
        return "item_definition_type", [Ref(ex.new_cell(st, item))], dict(has_type_ref=has_ref, type_ref_is_builtin=known, n_components=ncomp.e, is_collection=coll)

    jobs.append(lambda c: decide(c, crate, "no_panic/item_definition_type", setup_idt, lambda ex, o, i: [], replay_item_definition, rb, models=MODELS, unwind=6,
                                 describe=desc, budget_s=600, min_paths=3, timeout_ms=20000, known_predicates=KNOWN_PRED))
    # --- requirement cycles: the cycle detector that guards model building against unbounded recursion -------------------------------
    NN = 3 if tier == "quick" else 4
    DD = 2   # targets per node (3 on the thorough tier did not finish: 133 000 paths in an hour)
    check.bounds.append("find_cycle: dependency graphs with 0..%d keyed nodes, 0..%d targets per node, every target any keyed node or a node without an entry" % (NN, DD))

    def setup_cycle(ex, st):
        nkeys = ex.fresh_int(st, "usize", "n_nodes", constrain=False)
        ex.assume(st, z3.And(nkeys.e >= 0, nkeys.e <= NN))
        inputs = {"n_nodes": nkeys.e}
        ents = []
        for a in range(NN):
            tg = []
            for j in range(DD):
                t = z3.Int(ex.fresh_name("target_%d_%d" % (a, j)))
                ex.assume(st, z3.And(t >= 0, t <= NN))
                inputs["target_%d_%d" % (a, j)] = t
                tg.append(StrV(None, id=t))
            vec, n = vec_sym(ex, st, "n_targets_%d" % a, tg)
            inputs["n_targets_%d" % a] = n
            ents.append(Adt("tuple", None, (StrV(None, id=z3.IntVal(a)), vec)))
        edges = fv.MapV(nkeys.e, ents, "kv")
        return "find_cycle", [Ref(ex.new_cell(st, edges, "edges"))], inputs

    def reach_of(i):
        """transitive closure of the symbolic graph (node NN stands for a target without an entry: no outgoing edges)"""
        n = NN + 1
        adj = [[z3.BoolVal(False)] * n for _ in range(n)]
        for a in range(NN):
            for b in range(n):
                adj[a][b] = z3.And(i["n_nodes"] > a, z3.Or([z3.And(i["n_targets_%d" % a] > j, i["target_%d_%d" % (a, j)] == b) for j in range(DD)]))
        reach = [row[:] for row in adj]
        for k in range(n):
            reach = [[z3.Or(reach[a][b], z3.And(reach[a][k], reach[k][b])) for b in range(n)] for a in range(n)]
        return reach

    def post_cycle(ex, o, i):
        reach = reach_of(i)
        cyclic = z3.Or([reach[a][a] for a in range(NN)])
        r = o.value
        found = r.disc == 1
        out = [("a dependency graph with a cycle is reported", z3.Implies(cyclic, found)),
               ("a dependency graph without a cycle is accepted", z3.Implies(found, cyclic)),
               ("reach:cyclic", cyclic), ("reach:acyclic", z3.Not(cyclic))]
        if "Some" in r.alts and r.alts["Some"]:
            node = fv._rank(deref(ex, None, r.alts["Some"][0]) if isinstance(r.alts["Some"][0], Ref) else r.alts["Some"][0])
            out.append(("the reported node lies on a cycle", z3.Implies(found, z3.Or([z3.And(node == a, reach[a][a]) for a in range(NN)]))))
        return out

    jobs.append(lambda c: decide(c, crate, "cycles/find_cycle", setup_cycle, post_cycle, replay_cycle, rb, models=MODELS, unwind=2 * NN * (DD + 1) + 4,
                                 describe=desc, budget_s=900, min_paths=4, timeout_ms=20000, known_predicates=KNOWN_PRED, unwound_is_violation=True,
                                 need_reach=["reach:cyclic", "reach:acyclic"]))
    from checks import C12_edges
    C12_edges.jobs_for(check, mirror, rb, crate, jobs, tier)
    # the evaluation closure of a decision service (dangling output decision references must not panic; shared with C11's output side)
    from checks import C11_output
    C11_output.jobs_for(check, mirror, rb, crate, fv.Universe(mirror), jobs, tier, KNOWN_PRED)
    run_parallel(check, jobs)


def replay_cycle(i, rb):
    """A model whose decisions require each other the way the graph says (targets without an entry are input data): a graph with a
    cycle must be refused when the model is built, a graph without one must build and evaluate; a crash is a violation either way."""
    n = i["n_nodes"]
    keyed = lambda t: t < n
    graph = {a: [i["target_%d_%d" % (a, j)] for j in range(i["n_targets_%d" % a])] for a in range(n)}
    state = {}

    def cyclic_from(a):
        if state.get(a) == 1:
            return True
        if state.get(a) == 2:
            return False
        state[a] = 1
        r = any(keyed(b) and cyclic_from(b) for b in graph[a])
        state[a] = 2
        return r
    cyclic = any(cyclic_from(a) for a in range(n))
    x = ['<?xml version="1.0" encoding="UTF-8"?><definitions namespace="https://verif" name="m" id="_m" xmlns="https://www.omg.org/spec/DMN/20191111/MODEL/">',
         '<inputData name="x" id="_x"><variable name="x" typeRef="number"/></inputData>']
    for a in range(n):
        reqs = "".join('<informationRequirement><requiredDecision href="#_d%d"/></informationRequirement>' % b if keyed(b) else
                       '<informationRequirement><requiredInput href="#_x"/></informationRequirement>' for b in graph[a])
        x.append('<decision name="d%d" id="_d%d"><variable name="d%d"/>%s<literalExpression><text>1</text></literalExpression></decision>' % (a, a, a, reqs))
    x.append("</definitions>")
    if n == 0:
        return False, "empty graph"
    bad, outs = False, []
    for a in range(n):
        rc, out, errtxt = replay_call(rb, ["model_eval", "".join(x), "d%d" % a, "{x: 1}"])
        crashed = rc != 0 or out.startswith("PANIC") or "overflowed its stack" in errtxt
        refused = out.startswith("BUILD-ERROR") and "cyclic" in out
        if crashed or (cyclic and not refused) or (not cyclic and not out.startswith("VALUE 1")):
            bad = True
        outs.append("d%d: %s" % (a, ("CRASH rc=%s %s" % (rc, errtxt.strip()[-60:])) if crashed else out[:90]))
    return bad, "decisions %s (%s) -> %s" % (graph, "cyclic" if cyclic else "acyclic", "; ".join(outs))


def replay_item_definition(i, rb):
    tref = "<typeRef>%s</typeRef>" % ("number" if i["type_ref_is_builtin"] else "tOther") if i["has_type_ref"] else ""
    comps = '<itemComponent name="c" id="_c"><typeRef>number</typeRef></itemComponent>' * i["n_components"]
    xml = ('<?xml version="1.0" encoding="UTF-8"?><definitions namespace="https://verif" name="m" id="_m" xmlns="https://www.omg.org/spec/DMN/20191111/MODEL/">'
           '<itemDefinition name="tItem" id="_t" isCollection="%s">%s%s</itemDefinition><itemDefinition name="tOther" id="_o"><typeRef>string</typeRef></itemDefinition>'
           '<inputData name="x" id="_x"><variable name="x" typeRef="tItem"/></inputData>'
           '<decision name="d" id="_d"><variable name="d"/><informationRequirement><requiredInput href="#_x"/></informationRequirement>'
           '<literalExpression><text>x</text></literalExpression></decision></definitions>') % ("true" if i["is_collection"] else "false", tref, comps)
    _, out, _ = replay_call(rb, ["model_eval", xml, "d", "{x: 1}"])
    return out.startswith("PANIC"), "item definition (typeRef %s, %d components, collection %s) -> %s" % (
        ("builtin" if i["type_ref_is_builtin"] else "reference") if i["has_type_ref"] else "absent", i["n_components"], i["is_collection"], out[:140])


# ----------------------------------------------------------------------------- native replay through generated DMN XML


def table_xml(n_in, n_out, rules, named=None):
    """rules: list of (n_input_entries, n_output_entries)"""
    named = named if named is not None else [True] * n_out
    x = ['<?xml version="1.0" encoding="UTF-8"?>',
         '<definitions namespace="https://verif" name="m" id="_m" xmlns="https://www.omg.org/spec/DMN/20191111/MODEL/">',
         '<inputData name="x" id="_x"><variable name="x" typeRef="number"/></inputData>',
         '<decision name="d" id="_d"><variable name="d"/><informationRequirement><requiredInput href="#_x"/></informationRequirement>',
         '<decisionTable hitPolicy="FIRST">']
    for i in range(n_in):
        x.append('<input><inputExpression typeRef="number"><text>x</text></inputExpression></input>')
    for i in range(n_out):
        x.append('<output %s/>' % ('name="o%d"' % i if named[i] else ""))
    for ni, no in rules:
        x.append("<rule>" + "".join("<inputEntry><text>-</text></inputEntry>" for _ in range(ni)) +
                 "".join("<outputEntry><text>%d</text></outputEntry>" % (k + 1) for k in range(no)) + "</rule>")
    x.append("</decisionTable></decision></definitions>")
    return "".join(x)


def replay_table(i, rb):
    n_rules = i["rules"]
    rules = [(i["rule%d_inputs" % r], i["rule%d_outputs" % r]) for r in range(n_rules)]
    xml = table_xml(i["inputs"], i["outputs"], rules)
    _, out, _ = replay_call(rb, ["model_eval", xml, "d", "{x: 1}"])
    return out.startswith("PANIC"), "table with %d inputs, %d outputs, rules %s -> %s" % (i["inputs"], i["outputs"], rules, out[:160])


def replay_result(i, rb):
    nv, nn = i["n_output_values"], i["n_component_names"]
    # nv output clauses of which nn carry a name; one rule with nv output entries
    named = [k < nn for k in range(nv)]
    xml = table_xml(1, nv, [(1, nv)], named)
    _, out, _ = replay_call(rb, ["model_eval", xml, "d", "{x: 1}"])
    return out.startswith("PANIC"), "table with %d outputs of which %d are named -> %s" % (nv, nn, out[:160])


KNOWN_PRED = {}
