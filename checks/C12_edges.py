"""C12 — which dependencies the cycle check sees (DESIGN §4 C12): `check_cyclic_dependencies` (model-evaluator/src/model_evaluator.rs)
is executed from MIR on model definitions given by their accessor contracts (lists of decisions, knowledge models, decision services
and item definitions of symbolic length, every reference present or absent), with `find_cycle` replaced by a recorder. The graph
handed to the cycle detector must contain an edge for EVERY reference the builders follow: required decisions and knowledge of a
decision, required knowledge of a knowledge model, input / encapsulated / output decisions of a decision service, and the type
reference of an item definition and of each of its components AT ANY DEPTH (nesting bound 3)."""
import re

import z3

from vcommon import *  # noqa
from mcheck import decide, model_value
from mir.sym import Adt, En, Opaque, Outcome, Ref, Sc, StrV, VecV, UNIT, mk_bool, mk_int, none, some
from mir.models import deref, R
from mir.parser import MirUnsupported
import feelvals as fv

ITEM_BASE = 1000   # identity of the key / target string "item definition <name>" for a name with identity k: ITEM_BASE + k


def _opt(b, v):
    return En("Option", z3.If(b, z3.IntVal(1), z3.IntVal(0)), {"None": (), "Some": (v,)})


def jobs_for(check, mirror, rb, crate, jobs, tier):
    check.bounds.append("cycle-check edges: 0..2 decisions (0..2 information requirements, 0..2 knowledge requirements each, every reference present or absent), "
                        "0..2 knowledge models (0..2 knowledge requirements), 0..2 decision services (0..2 input, encapsulated and output decisions each), "
                        "one item definition with 0..2 components, 0..1 (thorough: 0..2) sub-components each and 0..1 component below those, every type reference present or absent")
    check.assumptions.append("cycle-check edges: the accessors of dmntk-model's Definitions / Decision / BusinessKnowledgeModel / DecisionService / ItemDefinition are "
                             "contracts (lists of symbolic length, optional ids and references); strings are identities, `format!(\"item definition {}\", x)` is an injective tagging; "
                             "BTreeMap::entry(..).or_default() by its std contract over the ordered association-list model")

    def mk(family):
        def setup(ex, st):
            inputs = {}
            facts = []     # (kind, source id expr or None, guard Bool, target id expr): every reference the model holds
            cells = {}

            def sid(k):
                return StrV(None, id=k if isinstance(k, z3.ExprRef) else z3.IntVal(k))

            def sym_len(hint, mx):
                n = ex.fresh_int(st, "usize", hint, constrain=False)
                ex.assume(st, z3.And(n.e >= 0, n.e <= mx))
                inputs[hint] = n.e
                return n.e

            def flag(hint):
                b = z3.Bool(ex.fresh_name(hint))
                inputs[hint] = b
                return b

            def target(hint):
                t = z3.Int(ex.fresh_name(hint))
                ex.assume(st, z3.And(t >= 1, t <= 9))
                inputs[hint] = t
                return t

            def node(kind, payload):
                c = ex.new_cell(st, Opaque(kind, info=payload), kind)
                return Ref(c)

            decisions, bkms, services, items = [], [], [], []
            nd = sym_len("n_decisions", 2) if family == "decisions" else z3.IntVal(0)
            nb = sym_len("n_knowledge_models", 2) if family == "knowledge_models" else z3.IntVal(0)
            ns = sym_len("n_decision_services", 2) if family == "decision_services" else z3.IntVal(0)
            ni = z3.IntVal(1) if family == "item_definitions" else z3.IntVal(0)
            if family == "decisions":
                for d in range(2):
                    has_id = flag("d%d_has_id" % d)
                    irs, krs = [], []
                    for j in range(2):
                        hb, t = flag("d%d_ir%d_is_decision" % (d, j)), target("d%d_ir%d" % (d, j))
                        irs.append(Adt("struct", "InformationRequirement", (_opt(hb, sid(t)),)))
                        facts.append((10 + d, z3.And(nd > d, has_id), ("d%d_irs" % d, j), hb, t))
                        hk, tk = flag("d%d_kr%d_has" % (d, j)), target("d%d_kr%d" % (d, j))
                        krs.append(Adt("struct", "KnowledgeRequirement", (_opt(hk, sid(tk)),)))
                        facts.append((10 + d, z3.And(nd > d, has_id), ("d%d_krs" % d, j), hk, tk))
                    n_ir, n_kr = sym_len("d%d_irs" % d, 2), sym_len("d%d_krs" % d, 2)
                    decisions.append(node("Decision", dict(id=_opt(has_id, sid(10 + d)), irs=VecV(n_ir, irs, "T"), krs=VecV(n_kr, krs, "T"))))
            if family == "knowledge_models":
                for d in range(2):
                    has_id = flag("b%d_has_id" % d)
                    krs = []
                    for j in range(2):
                        hk, tk = flag("b%d_kr%d_has" % (d, j)), target("b%d_kr%d" % (d, j))
                        krs.append(Adt("struct", "KnowledgeRequirement", (_opt(hk, sid(tk)),)))
                        facts.append((20 + d, z3.And(nb > d, has_id), ("b%d_krs" % d, j), hk, tk))
                    n_kr = sym_len("b%d_krs" % d, 2)
                    bkms.append(node("BusinessKnowledgeModel", dict(id=_opt(has_id, sid(20 + d)), krs=VecV(n_kr, krs, "T"))))
            if family == "decision_services":
                for d in range(2):
                    has_id = flag("s%d_has_id" % d)
                    lists = {}
                    for role in ("input", "encapsulated", "output"):
                        hs = []
                        for j in range(2):
                            t = target("s%d_%s%d" % (d, role, j))
                            hs.append(sid(t))
                            facts.append((30 + d, z3.And(ns > d, has_id), ("s%d_%s" % (d, role), j), z3.BoolVal(True), t))
                        lists[role] = VecV(sym_len("s%d_%s" % (d, role), 2), hs, "HRef")
                    services.append(node("DecisionService", dict(id=_opt(has_id, sid(30 + d)), **lists)))
            if family == "item_definitions":
                def item(path, depth):
                    has_t, t = flag("%s_has_type_ref" % path), target("%s_type_ref" % path)
                    comps = []
                    width = ((2, 1, 1, 0) if tier == "quick" else (2, 2, 1, 0))[depth]
                    for j in range(width):
                        comps.append(item("%s_c%d" % (path, j), depth + 1))
                    n = sym_len("%s_components" % path, width) if width else z3.IntVal(0)
                    return dict(name=sid(40), type_ref=_opt(has_t, sid(t)), comps=comps, n=n, has_t=has_t, t=t, path=path)

                def walk(it, guard):
                    facts.append((ITEM_BASE + 40, z3.BoolVal(True), None, z3.And(guard, it["has_t"]), ITEM_BASE + it["t"]))
                    for j, c in enumerate(it["comps"]):
                        walk(c, z3.And(guard, it["n"] > j))

                def build(it):
                    kids = [build(c) for c in it["comps"]]
                    cell = ex.new_cell(st, Opaque("ItemDefinition", info=dict(name=it["name"], type_ref=it["type_ref"], comps=VecV(it["n"], kids, "ItemDefinition"))), "item")
                    return Opaque("ItemDefinitionRef", info=cell)
                root = item("item", 0)
                walk(root, z3.BoolVal(True))
                # Vec<ItemDefinition>: the elements are the definitions themselves; they are kept as opaque values and referenced in place
                items.append(build(root))
            inputs["_facts"] = facts
            inputs["_lens"] = dict(nd=nd, nb=nb, ns=ns)
            defs = Ref(ex.new_cell(st, Opaque("Definitions", info=dict(decisions=VecV(nd, decisions, "&Decision"), bkms=VecV(nb, bkms, "&BusinessKnowledgeModel"),
                                                                      services=VecV(ns, services, "&DecisionService"), items=VecV(ni, items, "ItemDefinition"))), "definitions"))

            def info(ex, st, a):
                v = a
                while isinstance(v, Ref):
                    v = ex.read(st, v.cell, v.projs)
                if isinstance(v, Opaque) and v.sort == "ItemDefinitionRef":
                    v = ex.read(st, v.info, ())
                return v.info

            def acc(field, owned=False):
                def m(ex, st, callee, args, dest_ty):
                    v = info(ex, st, args[0])[field]
                    if owned or isinstance(v, En):
                        if isinstance(v, En):   # Option<&String>
                            yield st, v
                        else:
                            yield st, v
                    else:
                        yield st, Ref(ex.new_cell(st, v, field))
                return m

            def m_opt_ref(field):
                def m(ex, st, callee, args, dest_ty):
                    a = deref(ex, st, args[0]) if isinstance(args[0], Ref) else args[0]
                    yield st, Ref(ex.new_cell(st, a.fields[0], "href"))
                return m

            def m_id(ex, st, callee, args, dest_ty):
                yield st, Ref(ex.new_cell(st, info(ex, st, args[0])["id"], "id"))

            def m_type_ref(ex, st, callee, args, dest_ty):
                yield st, Ref(ex.new_cell(st, info(ex, st, args[0])["type_ref"], "type_ref"))

            def m_name(ex, st, callee, args, dest_ty):
                yield st, info(ex, st, args[0])["name"]

            def m_href_into(ex, st, callee, args, dest_ty):
                yield st, deref(ex, st, args[0]) if isinstance(args[0], Ref) else args[0]

            def m_format_tag(ex, st, callee, args, dest_ty):
                a = deref(ex, st, args[0])
                pieces = a.info
                lits = "".join(p[1] for p in pieces if p[0] == "lit")
                argv = [p for p in pieces if p[0] == "arg"]
                if lits.strip() != "item definition" or len(argv) != 1:
                    raise MirUnsupported("format! of %r in the cycle check" % (pieces,))
                v = argv[0][2]
                while isinstance(v, Ref):
                    v = ex.read(st, v.cell, v.projs)
                yield st, StrV(None, id=z3.simplify(ITEM_BASE + v.attrs["id"]))

            def m_entry_or_default(ex, st, callee, args, dest_ty):
                """BTreeMap::entry(key) immediately followed by or_default(): the entry API is modelled as one step at or_default"""
                yield st, Opaque("BTreeEntry", info=(args[0], args[1]))

            def m_or_default(ex, st, callee, args, dest_ty):
                mref, key = args[0].info
                base, m = fv._map_ref(ex, st, mref)
                k = fv._rank(key)
                for st2, n in ex.enum_values(st, m.len, limit=len(m.items) + 2):
                    items_ = list(fv._map_ref(ex, st2, mref)[1].items[:n])
                    conds = []
                    for i, ent in enumerate(items_):
                        c = fv._rank(ent.fields[0]) == k
                        conds.append(c)
                        for st3 in ex.branch(st2, c):
                            yield st3, Ref(base.cell, base.projs + (("index", i), ("field", 1, None)))
                    for pos in range(n + 1):
                        c = [z3.Not(x) for x in conds]
                        if pos > 0:
                            c.append(fv._rank(items_[pos - 1].fields[0]) < k)
                        if pos < n:
                            c.append(k < fv._rank(items_[pos].fields[0]))
                        for st3 in ex.branch(st2, z3.And(c) if c else z3.BoolVal(True)):
                            it2 = items_[:pos] + [Adt("tuple", None, (key, VecV(z3.IntVal(0), (), "String")))] + items_[pos:]
                            ex.write(st3, base.cell, base.projs, fv.MapV(z3.IntVal(n + 1), it2, m.elem_ty))
                            yield st3, Ref(base.cell, base.projs + (("index", pos), ("field", 1, None)))

            def m_find_cycle(ex, st, callee, args, dest_ty):
                base, m = fv._map_ref(ex, st, args[0])
                st.log.append(("edges", m))
                yield st, none()

            def m_item_components(ex, st, callee, args, dest_ty):
                v = info(ex, st, args[0])["comps"]
                yield st, Ref(ex.new_cell(st, v, "comps"))

            def m_items(ex, st, callee, args, dest_ty):
                yield st, Ref(ex.new_cell(st, info(ex, st, args[0])["items"], "items"))
            models = [
                (re.compile(r"^Definitions::decisions$"), acc("decisions", owned=True)),
                (re.compile(r"^Definitions::business_knowledge_models$"), acc("bkms", owned=True)),
                (re.compile(r"^Definitions::decision_services$"), acc("services", owned=True)),
                (re.compile(r"^Definitions::item_definitions$"), m_items),
                (re.compile(r"^<(dmntk_model::model::)?(Decision|BusinessKnowledgeModel|DecisionService) as DmnElement>::id$"), m_id),
                (re.compile(r"^(dmntk_model::model::)?Decision::information_requirements$"), acc("irs")),
                (re.compile(r"^(dmntk_model::model::)?(Decision|BusinessKnowledgeModel)::knowledge_requirements$"), acc("krs")),
                (re.compile(r"^(dmntk_model::model::)?InformationRequirement::required_decision$"), m_opt_ref("required_decision")),
                (re.compile(r"^(dmntk_model::model::)?KnowledgeRequirement::required_knowledge$"), m_opt_ref("required_knowledge")),
                (re.compile(r"^(dmntk_model::model::)?DecisionService::input_decisions$"), acc("input")),
                (re.compile(r"^(dmntk_model::model::)?DecisionService::encapsulated_decisions$"), acc("encapsulated")),
                (re.compile(r"^(dmntk_model::model::)?DecisionService::output_decisions$"), acc("output")),
                (re.compile(r"^<(dmntk_model::model::)?ItemDefinition as NamedElement>::name$"), m_name),
                (re.compile(r"^<(dmntk_model::model::)?ItemDefinition as Expression>::type_ref$"), m_type_ref),
                (re.compile(r"^(dmntk_model::model::)?ItemDefinition::item_components$"), m_item_components),
                (re.compile(r"^<&HRef as Into<(std::string::)?String>>::into$|^<&?HRef as ToString>::to_string$|^<(std::string::)?String as From<&HRef>>::from$"), m_href_into),
                (re.compile(r"^format$|^std::fmt::format$|^alloc::fmt::format$"), m_format_tag),
                (re.compile(r"^BTreeMap::<.*>::entry$"), m_entry_or_default),
                (re.compile(r"^(std::collections::btree_map::)?Entry::<.*>::or_default$|^(std::collections::btree_map::)?Entry::<.*>::or_insert_with::<.*>$"), m_or_default),
                (re.compile(r"^find_cycle$"), m_find_cycle),
                (re.compile(r"^err_cyclic_dependency$"), lambda ex, st, c, a, d: iter([(st, Opaque("Error", info=c))])),
            ]

            def runner(ex, st):
                ex.models[:0] = models
                yield from ex.run("check_cyclic_dependencies", [defs], st)
            return runner, None, inputs

        def post(ex, o, v):
            logs = [e[1] for e in o.st.log if e[0] == "edges"]
            if len(logs) != 1:
                return [("the dependency graph is handed to the cycle detector exactly once", z3.BoolVal(False))]
            m = logs[0]
            n = ex.concrete(m.len)
            if n is None:
                raise MirUnsupported("edge map of symbolic size")
            present = []   # (source id expr, target id expr) of every edge in the map
            for ent in m.items[:n]:
                src = fv._rank(ent.fields[0])
                vec = ent.fields[1]
                k = ex.concrete(vec.len)
                if k is None:
                    raise MirUnsupported("target list of symbolic length")
                for t in vec.items[:k]:
                    tv = t
                    while isinstance(tv, Ref):
                        tv = ex.read(o.st, tv.cell, tv.projs)
                    present.append((src, fv._rank(tv)))
            props = []
            conj = []
            for src, owner, pos, guard, tgt in v["_facts"]:
                g = z3.And(owner, guard)
                if pos is not None:
                    g = z3.And(g, v[pos[0]] > pos[1])
                has = z3.Or([z3.And(s == src, t == tgt) for s, t in present]) if present else z3.BoolVal(False)
                conj.append(z3.Implies(g, has))
            props.append(("every reference the builders follow is an edge of the graph given to the cycle detector", z3.And(conj) if conj else z3.BoolVal(True)))
            # no invented edges: every edge present corresponds to some reference
            inv = []
            for s, t in present:
                alts = []
                for src, owner, pos, guard, tgt in v["_facts"]:
                    g = z3.And(owner, guard, s == src, t == tgt)
                    if pos is not None:
                        g = z3.And(g, v[pos[0]] > pos[1])
                    alts.append(g)
                inv.append(z3.Or(alts) if alts else z3.BoolVal(False))
            props.append(("every edge of the graph is a reference of the model", z3.And(inv) if inv else z3.BoolVal(True)))
            props.append(("reach:edges", z3.BoolVal(len(present) >= 2)))
            return props

        def desc(m, v):
            return {k: model_value(m, x) for k, x in v.items() if not k.startswith("_")}

        def replay(i, rb):
            """a model in which ONLY the reported kind of reference closes a cycle: it must be refused (or at least not crash)"""
            hdr = '<?xml version="1.0" encoding="UTF-8"?><definitions namespace="https://verif" name="m" id="_m" xmlns="https://www.omg.org/spec/DMN/20191111/MODEL/">'
            models_ = []
            if family == "item_definitions":
                # self reference from a component at depth 1, 2 and 3
                for depth in (1, 2, 3):
                    inner = '<itemComponent name="next"><typeRef>tNode</typeRef></itemComponent>'
                    for k in range(depth - 1):
                        inner = '<itemComponent name="l%d">%s</itemComponent>' % (k, inner)
                    models_.append(("item definition referring to itself from a component at depth %d" % depth,
                                    hdr + '<itemDefinition name="tNode"><itemComponent name="value"><typeRef>number</typeRef></itemComponent>%s</itemDefinition>'
                                    '<inputData name="x" id="_x"><variable name="x" typeRef="tNode"/></inputData>'
                                    '<decision name="d" id="_d"><variable name="d"/><informationRequirement><requiredInput href="#_x"/></informationRequirement>'
                                    '<literalExpression><text>1</text></literalExpression></decision></definitions>' % inner, "d"))
            elif family == "decisions":
                models_.append(("decisions requiring each other", hdr +
                                '<decision name="a" id="_a"><variable name="a"/><informationRequirement><requiredDecision href="#_b"/></informationRequirement><literalExpression><text>1</text></literalExpression></decision>'
                                '<decision name="b" id="_b"><variable name="b"/><informationRequirement><requiredDecision href="#_a"/></informationRequirement><literalExpression><text>1</text></literalExpression></decision></definitions>', "a"))
                models_.append(("decision -> knowledge model -> itself", hdr +
                                '<decision name="a" id="_a"><variable name="a"/><knowledgeRequirement><requiredKnowledge href="#_k"/></knowledgeRequirement><literalExpression><text>1</text></literalExpression></decision>'
                                '<businessKnowledgeModel name="k" id="_k"><variable name="k"/><encapsulatedLogic><literalExpression><text>1</text></literalExpression></encapsulatedLogic>'
                                '<knowledgeRequirement><requiredKnowledge href="#_k"/></knowledgeRequirement></businessKnowledgeModel></definitions>', "a"))
            elif family == "knowledge_models":
                models_.append(("knowledge models requiring each other", hdr +
                                '<businessKnowledgeModel name="k" id="_k"><variable name="k"/><encapsulatedLogic><literalExpression><text>1</text></literalExpression></encapsulatedLogic>'
                                '<knowledgeRequirement><requiredKnowledge href="#_j"/></knowledgeRequirement></businessKnowledgeModel>'
                                '<businessKnowledgeModel name="j" id="_j"><variable name="j"/><encapsulatedLogic><literalExpression><text>1</text></literalExpression></encapsulatedLogic>'
                                '<knowledgeRequirement><requiredKnowledge href="#_k"/></knowledgeRequirement></businessKnowledgeModel></definitions>', "k"))
            else:
                for role in ("inputDecision", "encapsulatedDecision", "outputDecision"):
                    extra = "" if role == "outputDecision" else '<outputDecision href="#_o"/>'
                    models_.append(("cycle through the %s of a decision service" % role, hdr +
                                    '<decision name="o" id="_o"><variable name="o"/><literalExpression><text>1</text></literalExpression></decision>'
                                    '<decision name="a" id="_a"><variable name="a"/><knowledgeRequirement><requiredKnowledge href="#_s"/></knowledgeRequirement><literalExpression><text>1</text></literalExpression></decision>'
                                    '<decisionService name="s" id="_s"><variable name="s"/>%s<%s href="#_a"/></decisionService></definitions>' % (extra, role), "a"))
            notes, bad = [], False
            for what, xml, inv_ in models_:
                _, out, _ = replay_call(rb, ["model_eval", xml, inv_, "{}"], timeout=60)
                crashed = not (out.startswith("BUILD-ERROR") or out.startswith("PARSE-ERROR") or out.startswith("VALUE") or out.startswith("EVAL"))
                accepted = out.startswith("VALUE")
                dev = crashed or accepted
                bad = bad or dev
                notes.append("%s -> %s" % (what, out[:70] if out else "process died"))
            return bad, "; ".join(notes)
        jobs.append(lambda c: decide(c, crate, "cycles/edges/" + family, setup, post, replay, rb, models=[] + fv.VALUE_MODELS, unwind=40, describe=desc, budget_s=900, min_paths=2,
                                     timeout_ms=20000, max_cex=2, need_reach=["reach:edges"]))
    for family in ("decisions", "knowledge_models", "decision_services", "item_definitions"):
        mk(family)
