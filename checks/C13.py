"""C13 — evaluation leaves the caller's scope untouched (DESIGN §4 C13).

Engine M, one inductive step over the expression tree: every closure that pushes temporary contexts
(For/Some/EveryExpressionEvaluator::evaluate, build_filter) is executed from MIR with the scope modelled as the real
stack of contexts in an ARBITRARY pre-state and with its sub-evaluators replaced by scope-neutral oracles returning
arbitrary values (induction hypothesis).  On every path, including early exits, the scope afterwards must hold exactly
the contexts it held before, and while a sub-evaluator runs the caller's contexts must still be there underneath.
"""
import json
import re

import z3

from vcommon import *  # noqa
from mcheck import MirCrate, decide, run_parallel, model_value
from mir.sym import Adt, En, FnV, Opaque, Outcome, Ref, Sc, StrV, VecV, UNIT, mk_bool, mk_int, none, some
from mir.models import deref, m_format_stub, R
from mir.parser import MirUnsupported
import feelvals as fv

ENGINE = "M (MIR -> SMT, z3): scope stack model, sub-evaluators as scope-neutral oracles"


def m_refcell_borrow(ex, st, callee, args, dest_ty):
    """RefCell<T>::borrow / borrow_mut: single-threaded evaluation, no outstanding borrows in the encoded closures: the inner value"""
    yield st, args[0]


def m_slice_last(ex, st, callee, args, dest_ty):
    r = args[0]
    base = r
    while isinstance(ex.read(st, base.cell, base.projs), Ref):
        base = ex.read(st, base.cell, base.projs)
    v = ex.read(st, base.cell, base.projs)
    for st2, n in ex.enum_values(st, v.len, limit=len(v.items) + 2):
        if n == 0:
            yield st2, none()
        else:
            yield st2, some(Ref(base.cell, base.projs + (("index", n - 1),)))


def m_btree_contains(ex, st, callee, args, dest_ty):
    base, m = fv._map_ref(ex, st, args[0])
    kr = fv._rank(deref(ex, st, args[1]))
    c = z3.Or([z3.And(m.len > i, fv._rank(e.fields[0]) == kr) for i, e in enumerate(m.items)]) if m.items else z3.BoolVal(False)
    yield st, mk_bool(z3.simplify(c))


def m_name_from(ex, st, callee, args, dest_ty):
    s = deref(ex, st, args[0])
    yield st, Opaque("Name", z3.IntVal({"partial": 900, "item": 901}.get(s.const, 999)))


SCOPE_MODELS = [
    (R(r"^RefCell::<.*>::borrow(_mut)?$"), m_refcell_borrow),
    (R(r"^RefCell::<.*>::new$"), lambda ex, st, c, a, d: iter([(st, a[0])])),
    (R(r"^<Ref(Mut)?<'_, .*> as Deref(Mut)?>::deref(_mut)?$"), lambda ex, st, c, a, d: iter([(st, a[0])])),
    (R(r"^core::slice::<impl \[.*\]>::last(_mut)?$"), m_slice_last),
    (R(r"^BTreeMap::<.*>::contains_key::<.*>$"), m_btree_contains),
    (R(r"^<(dmntk_feel::)?Name as From<&str>>::from$|^<&str as Into<(dmntk_feel::)?Name>>::into$"), m_name_from),
    (R(r"^format$|^std::fmt::format$|^alloc::fmt::format$"), m_format_stub),
]


def fresh_ctx(ex, st, hint, nmax=1):
    n = ex.fresh_int(st, "usize", hint + "_n", constrain=False)
    ex.assume(st, z3.And(n.e >= 0, n.e <= nmax))
    ents = []
    for k in range(nmax):
        key = Opaque("Name", z3.Int(ex.fresh_name("%s_key%d" % (hint, k))))
        ents.append(Adt("tuple", None, (key, En("Value", z3.IntVal(24), {"Null": (none(),)}))))
    return Adt("struct", "FeelContext", (fv.MapV(n.e, ents, "kv"),))


def scope_value(ex, st, depth):
    """Scope whose stack holds `depth` arbitrary caller contexts"""
    ctxs = [fresh_ctx(ex, st, "caller%d" % i) for i in range(depth)]
    sc = Adt("struct", "Scope", (VecV(z3.IntVal(depth), ctxs, "FeelContext"),))
    return Ref(ex.new_cell(st, sc, "scope")), ctxs


def scope_unchanged(ex, st, sref, ctxs):
    sc = ex.read(st, sref.cell, sref.projs)
    vec = sc.fields[0]
    same = ex.concrete(vec.len) == len(ctxs) and all(a is b for a, b in zip(vec.items[:len(ctxs)], ctxs))
    return z3.BoolVal(bool(same))


def oracle_evaluator(ex, sref, ctxs, kinds, log_key="subeval"):
    """sub-evaluator: returns a fresh value of one of `kinds`, never touches the scope, records whether the caller's contexts
    were still in place underneath when it ran"""
    U = oracle_evaluator.U

    def cb(ex, st, argv):
        sc = ex.read(st, sref.cell, sref.projs)
        vec = sc.fields[0]
        n = ex.concrete(vec.len)
        under = n is not None and n >= len(ctxs) and all(a is b for a, b in zip(vec.items[:len(ctxs)], ctxs))
        st.log.append((log_key, n, under))
        v = U.fresh(ex, st, 0, "r%d" % len(st.log), kinds=kinds)
        yield st, v
    return FnV("@model", (cb,))


def run(check, mirror, tier):
    rb = replay_build(mirror)
    crate = MirCrate(mirror, ["feel-evaluator", "feel"], overflow_checks=True)
    U = fv.Universe(mirror)
    oracle_evaluator.U = U
    L = 2 if tier == "quick" else 3
    check.bounds += ["iteration / filtered lists of symbolic length 0..%d; caller scope of depth 1 with an arbitrary context; "
                     "sub-evaluator results arbitrary among boolean / number / null" % L]
    check.assumptions += ["induction hypothesis: sub-evaluators are scope-neutral and return arbitrary values",
                          "RefCell borrows are transparent (single-threaded closures, no overlapping borrows in the encoded bodies)"]
    MODELS = SCOPE_MODELS + fv.VALUE_MODELS
    jobs = []

    def post_common(ex, o, inputs):
        under = [e for e in o.st.log if e[0] == "subeval"]
        return [("the scope afterwards holds exactly the caller's contexts", scope_unchanged(ex, o.st, inputs["_sref"], inputs["_ctxs"])),
                ("while a sub-expression runs the caller's contexts are still underneath", z3.BoolVal(all(u[2] for u in under)))]

    # --- for / some / every ---------------------------------------------------------------------------------------------
    for which, kinds in (("ForExpressionEvaluator", ["Boolean", "Number", "Null"]), ("SomeExpressionEvaluator", ["Boolean", "Null"]),
                         ("EveryExpressionEvaluator", ["Boolean", "Null"])):
        def setup(ex, st, which=which, kinds=kinds):
            sref, ctxs = scope_value(ex, st, 1)
            n = ex.fresh_int(st, "usize", "len", constrain=False)
            ex.assume(st, z3.And(n.e >= 0, n.e <= L))
            items = [En("Value", z3.IntVal(U.idx("Number")), {"Number": (Opaque("FeelNumber", z3.IntVal(100 + j)),)}) for j in range(L)]
            lst = En("Value", z3.IntVal(U.idx("List")), {"List": (Adt("struct", "Values", (VecV(n.e, items, "Value"),)),)})
            it = Adt("struct", "FeelIterator", (VecV(z3.IntVal(0), (), "FeelIteratorState"),))
            if which == "ForExpressionEvaluator":
                evs = Adt("struct", which, (it, Opaque("Name", z3.IntVal(900))))
                addfn = which + "::add_single"
            else:
                evs = Adt("struct", which, (it,))
                addfn = which + "::add"
            ecell = Ref(ex.new_cell(st, evs, "ev"))
            evaluator = Ref(ex.new_cell(st, Ref(ex.new_cell(st, oracle_evaluator(ex, sref, ctxs, kinds), "box")), "evalref"))
            inputs = dict(len=n.e, _sref=sref, _ctxs=ctxs)

            def runner(ex, st):
                for o in ex.run(addfn, [ecell, Opaque("Name", z3.IntVal(0)), lst], st):
                    if o.kind != "return":
                        yield o
                        continue
                    yield from ex.run(which + "::evaluate", [ecell, sref, ex.read(o.st, evaluator.cell, evaluator.projs)], o.st)
            return runner, None, inputs

        def desc(m, inputs):
            return {k: model_value(m, v) for k, v in inputs.items() if not k.startswith("_")}
        jobs.append(lambda c, which=which, setup=setup: decide(c, crate, "scope_balance/%s" % which, setup, post_common,
                                                               lambda i, rb, which=which: replay_scope(which, i, rb), rb, models=MODELS,
                                                               unwind=6 * (L + 2), describe=desc, budget_s=900, min_paths=2, timeout_ms=20000))

    # --- filter ------------------------------------------------------------------------------------------------------------
    def setup_filter(ex, st):
        sref, ctxs = scope_value(ex, st, 1)
        n = ex.fresh_int(st, "usize", "len", constrain=False)
        ex.assume(st, z3.And(n.e >= 0, n.e <= L))
        items = []
        for j in range(L):
            # each element: a number, or a context that may or may not have an entry called `item`
            has_item = z3.Bool(ex.fresh_name("elem%d_has_item" % j))
            key = Opaque("Name", z3.If(has_item, z3.IntVal(901), z3.IntVal(5)))
            cv = Adt("struct", "FeelContext", (fv.MapV(z3.IntVal(1), [Adt("tuple", None, (key, En("Value", z3.IntVal(U.idx("Null")), {"Null": (none(),)})))], "kv"),))
            d = ex.fresh_int(st, "isize", "elem%d_kind" % j, constrain=False)
            ex.assume(st, z3.Or(d.e == U.idx("Number"), d.e == U.idx("Context")))
            items.append(En("Value", d.e, {"Number": (Opaque("FeelNumber", z3.IntVal(100 + j)),), "Context": (cv,)}))
        lst = En("Value", z3.IntVal(U.idx("List")), {"List": (Adt("struct", "Values", (VecV(n.e, items, "Value"),)),)})
        caps = closure_captures(crate, "build_filter")
        vals = {"lhe": Ref(ex.new_cell(st, FnV("@const", (lst,)), "box")),
                "rhe": Ref(ex.new_cell(st, oracle_evaluator(ex, sref, ctxs, ["Boolean", "Null"]), "box")),
                "name_item": Opaque("Name", z3.IntVal(901))}
        if sorted(caps) != sorted(vals):
            raise MirUnsupported("build_filter's closure captures %s, the obligation knows %s" % (caps, sorted(vals)))
        env = Ref(ex.new_cell(st, Adt("closure", "build_filter", [vals[c] for c in caps]), "env"))
        inputs = dict(len=n.e, _sref=sref, _ctxs=ctxs)
        return "build_filter::{closure#0}", [env, sref], inputs

    jobs.append(lambda c: decide(c, crate, "scope_balance/build_filter", setup_filter, post_common, lambda i, rb: replay_scope("filter", i, rb), rb,
                                 models=MODELS, unwind=6 * (L + 2), describe=lambda m, inputs: {k: model_value(m, v) for k, v in inputs.items() if not k.startswith("_")},
                                 budget_s=900, min_paths=2, timeout_ms=20000))
    # --- boxed context of a decision model (model-evaluator) -------------------------------------------------------------------------------
    crate_me = MirCrate(mirror, ["model-evaluator", "feel"], overflow_checks=True, enum_crates=("common", "feel", "model"))
    check.bounds.append("boxed context: 0..2 named entries, optionally followed by the unnamed result entry; entry values arbitrary")

    def setup_boxed(ex, st):
        sref, ctxs = scope_value(ex, st, 1)
        n = ex.fresh_int(st, "usize", "named_entries", constrain=False)
        ex.assume(st, z3.And(n.e >= 0, n.e <= 2))
        has_result = z3.Bool(ex.fresh_name("has_result_entry"))
        total = z3.If(has_result, n.e + 1, n.e)
        box = lambda s_: Ref(ex.new_cell(s_, oracle_evaluator(ex, sref, ctxs, ["Number", "Null", "Boolean"], log_key="entry"), "box"))
        named = lambda s_, k: Adt("tuple", None, (some(Opaque("Name", z3.IntVal(700 + k))), box(s_)))
        unnamed = lambda s_: Adt("tuple", None, (none(), box(s_)))
        inputs = dict(named_entries=n.e, has_result_entry=has_result, _sref=sref, _ctxs=ctxs)
        caps = closure_captures(crate_me, "builders::build_context_evaluator")
        if caps != ["entry_evaluators"]:
            raise MirUnsupported("build_context_evaluator's closure captures %s, the obligation knows ['entry_evaluators']" % caps)

        def runner(ex, st):
            for st1, nn in ex.enum_values(st, n.e, limit=4):
                for flag in (True, False):
                    for st2 in ex.branch(st1, has_result if flag else z3.Not(has_result)):
                        items = [named(st2, k) for k in range(nn)] + ([unnamed(st2)] if flag else [])
                        env = Ref(ex.new_cell(st2, Adt("closure", "build_context_evaluator", [VecV(z3.IntVal(len(items)), items, "entry")]), "env"))
                        st2.log.append(("shape", nn, flag))
                        yield from ex.run("builders::build_context_evaluator::{closure#0}", [env, sref], st2)
        return runner, None, inputs

    def post_boxed(ex, o, inputs):
        props = post_common(ex, o, inputs)
        ents = [e for e in o.st.log if e[0] == "entry"]
        shape = [e for e in o.st.log if e[0] == "shape"][0]
        props[1] = ("while an entry is evaluated the caller's contexts are still underneath", z3.BoolVal(all(e[2] for e in ents)))
        props.append(("every entry is evaluated exactly once, on top of ONE temporary context above the caller's", z3.BoolVal(
            len(ents) == shape[1] + (1 if shape[2] else 0) and all(e[1] == len(inputs["_ctxs"]) + 1 for e in ents))))
        props.append(("reach:two entries and a result", z3.BoolVal(shape[1] == 2 and shape[2])))
        return props

    def replay_boxed(i, rb):
        xml = ('<?xml version="1.0" encoding="UTF-8"?><definitions namespace="https://verif" name="m" id="_m" xmlns="https://www.omg.org/spec/DMN/20191111/MODEL/">'
               '<decision name="d" id="_d"><variable name="d"/><context>'
               '<contextEntry><variable name="a"/><literalExpression><text>1</text></literalExpression></contextEntry>'
               '<contextEntry><variable name="b"/><context>'
               '<contextEntry><variable name="a"/><literalExpression><text>2</text></literalExpression></contextEntry>'
               '<contextEntry><variable name="r"/><literalExpression><text>a * 10</text></literalExpression></contextEntry></context></contextEntry>'
               '<contextEntry><variable name="c"/><literalExpression><text>a</text></literalExpression></contextEntry>'
               '</context></decision></definitions>')
        _, out, _ = replay_call(rb, ["model_eval", xml, "d", "{}"])
        want = "VALUE {a: 1, b: {a: 2, r: 20}, c: 1}"
        # a nested context that ENDS IN A RESULT EXPRESSION and binds a name the enclosing decision gets as an input: the sibling evaluated afterwards
        # must see the input, not what the nested context left behind
        xml2 = ('<?xml version="1.0" encoding="UTF-8"?><definitions namespace="https://verif" name="m" id="_m" xmlns="https://www.omg.org/spec/DMN/20191111/MODEL/">'
                '<inputData name="x" id="_x"><variable name="x" typeRef="number"/></inputData>'
                '<decision name="d" id="_d"><variable name="d"/><informationRequirement><requiredInput href="#_x"/></informationRequirement><context>'
                '<contextEntry><variable name="inner"/><context>'
                '<contextEntry><variable name="x"/><literalExpression><text>100</text></literalExpression></contextEntry>'
                '<contextEntry><literalExpression><text>x + 1</text></literalExpression></contextEntry></context></contextEntry>'
                '<contextEntry><variable name="r"/><literalExpression><text>x</text></literalExpression></contextEntry>'
                '</context></decision></definitions>')
        _, out2, _ = replay_call(rb, ["model_eval", xml2, "d", "{x: 200}"])
        want2 = "VALUE {inner: 101, r: 200}"
        return out.strip() != want or out2.strip() != want2, ("decision d = context{a: 1, b: context{a: 2, r: a * 10}, c: a} -> %s, specified %s; d = context{inner: context{x: 100, <result> x + 1}, r: x} on {x: 200} "
                                                              "-> %s, specified %s") % (out[:60], want[6:], out2[:60], want2[6:])
    jobs.append(lambda c: decide(c, crate_me, "scope_balance/build_context_evaluator", setup_boxed, post_boxed, replay_boxed, rb, models=MODELS, unwind=12,
                                 describe=lambda m, inputs: {k: (bool(model_value(m, v)) if k == "has_result_entry" else model_value(m, v)) for k, v in inputs.items() if not k.startswith("_")},
                                 need_reach=["reach:two entries and a result"], budget_s=600, min_paths=2, timeout_ms=20000))
    # context literals and positional calls of user-defined functions push contexts too (obligations shared with C01: scope restored,
    # exactly one temporary context on top of the caller's while sub-expressions run)
    import checks.C01_ops as ops
    ops.jobs_for(check, mirror, rb, crate, None, U, jobs, tier, {}, select={"context_literal_job", "function_positional_job"})
    parser_jobs(check, mirror, rb, jobs, tier)
    run_parallel(check, jobs)
    # "the same prepared expression gives the same value": the built-ins that could keep state between calls (decided by C20's footprint obligations)
    run_companion(check, mirror, tier, "C20", ["regex_bifs/", "footprint/"])


def closure_captures(crate, builder):
    b = crate.bodies.get(builder)
    if b is None:
        raise MirUnsupported("no MIR body " + builder)
    m = re.search(r"\{closure@[^}]*\} \{ ([^}]*) \}", b.text)
    if not m:
        return []
    return [x.split(":")[0].strip() for x in m.group(1).split(",")]


def closure_capture_types(crate, builder):
    """capture name -> type text of the first closure created in `builder`"""
    b = crate.bodies.get(builder)
    if b is None:
        raise MirUnsupported("no MIR body " + builder)
    m = re.search(r"\{closure@[^}]*\} \{ ([^}]*) \}", b.text)
    out = {}
    if m:
        for x in m.group(1).split(","):
            k = x.split(":")[0].strip()
            loc = re.search(r"(move|copy) (_\d+)", x)
            ty = None
            if loc:
                d = re.search(r"let (?:mut )?%s: ([^;]+);" % re.escape(loc.group(2)), b.text)
                ty = d.group(1).strip() if d else None
            out[k] = ty
    return out


def replay_scope(which, i, rb):
    """natively: evaluate a representative expression on a scope with one caller context and compare the scope's rendering before/after"""
    n = i.get("len", 2)
    lst = "[" + ",".join(str(100 + j) for j in range(max(n, 2))) + "]"
    # the solver's path fixes only the list length and the kinds of the body results: several representative bodies are tried
    # (boolean results, null results, results of another kind, an early `false` / `true`)
    exprs = {"ForExpressionEvaluator": ["for n in %s return n + 1" % lst, "for n in %s return null" % lst],
             "SomeExpressionEvaluator": ["some n in %s satisfies n > 1000" % lst, "some n in %s satisfies null" % lst, "some n in %s satisfies n + 1" % lst,
                                         "some n in %s satisfies n > 0" % lst, 'some n in [1, "a", 3] satisfies n > 0'],
             "EveryExpressionEvaluator": ["every n in %s satisfies n > 1000" % lst, "every n in %s satisfies null" % lst, "every n in %s satisfies n + 1" % lst,
                                          "every n in %s satisfies n > 0" % lst, 'every n in [1, "a", 3] satisfies n > 0'],
             "filter": ["[{item: 1, q: 2}, {q: 3}, 7][q > 0]", "[{item: 1, q: 2}, {q: 3}, 7][null]", "[1, 2, 3][item > 1]", "[1, 2, 3][2]"]}
    outs = []
    for e in exprs[which]:
        _, out, _ = replay_call(rb, ["scope_after", "{outer: 10, n: 5}", e])
        outs.append((e, out))
        if "CHANGED" in out:
            return True, "%s on scope [{n: 5, outer: 10}] -> %s" % (e, out[:200])
    return False, "; ".join("%s -> %s" % (e, o[:60]) for e, o in outs)


# ----------------------------------------------------------------------------- parser side: a successful parse leaves the parsing scope as it found it


PARSE_TEXT = {"For": "for", "In": "in", "Return": "return", "Ellipsis": "..", "Comma": ",", "Some": "some", "Every": "every", "Satisfies": "satisfies",
              "LeftBrace": "{", "RightBrace": "}", "Colon": ":", "Function": "function", "LeftParen": "(", "RightParen": ")", "LeftBracket": "[",
              "RightBracket": "]", "If": "if", "Then": "then", "Else": "else", "Plus": "+", "External": "external"}

NESTED = {"name": ["Name"],
          "for": ["For", "Name", "In", "Name", "Return", "Name"],
          "some": ["Some", "Name", "In", "Name", "Satisfies", "Name"],
          "every": ["Every", "Name", "In", "Name", "Satisfies", "Name"],
          "context": ["LeftBrace", "Name", "Colon", "Name", "RightBrace"],
          "function": ["Function", "LeftParen", "Name", "RightParen", "Name"],
          "list": ["LeftBracket", "Name", "Comma", "Name", "RightBracket"],
          "if": ["If", "Name", "Then", "Name", "Else", "Name"],
          "sum": ["Name", "Plus", "Name"]}
SUBST = ["For", "In", "Return", "Some", "Every", "Satisfies", "Name", "Comma", "LeftBrace", "RightBrace", "Colon", "Function", "LeftParen", "RightParen"]


def _quantified(c):
    toks = [c["q"]]
    for j in range(c["n"]):
        toks += (["Comma"] if j else []) + ["Name", "In", "Name"] + (["Ellipsis", "Name"] if c["range"] and j == 0 else [])
    return toks + [c["k"]] + NESTED[c["body"]]


def _context(c):
    toks = ["LeftBrace"]
    for j in range(c["n"]):
        toks += (["Comma"] if j else []) + ["Name", "Colon"] + (NESTED[c["value"]] if j == c["at"] else ["Name"])
    return toks + ["RightBrace"]


def _function(c):
    toks = ["Function", "LeftParen"]
    for j in range(c["n"]):
        toks += (["Comma"] if j else []) + ["Name"]
    return toks + ["RightParen"] + (["External"] if c.get("ext") else []) + NESTED[c["body"]]


def _substituted(c):
    toks = list(c["base"])
    toks[c["pos"]] = c["tok"]
    return toks


# family -> (selector domains, token-list builder, selector combinations that must be seen accepted (vacuity witnesses))
PARSE_FAMILIES = {
    "quantified": (dict(q=["For", "Some", "Every"], k=["Return", "Satisfies"], n=[1, 2, 3], range=[False, True], body=["name"]), _quantified,
                   [dict(q="For", k="Return", n=3), dict(q="For", k="Return", range=True), dict(q="Some", k="Satisfies", n=2), dict(q="Every", k="Satisfies", n=3)]),
    "quantified_body": (dict(q=["For", "Some", "Every"], k=["Return", "Satisfies"], n=[1], range=[False], body=sorted(NESTED)), _quantified,
                        [dict(q="For", body=b) for b in sorted(NESTED)] + [dict(q="Every", body="context"), dict(q="Some", body="for")]),
    "context": (dict(n=[0, 1, 2, 3], at=[0, 1, 2], value=sorted(NESTED)), _context,
                [dict(n=0), dict(n=3, at=1, value="for"), dict(n=2, at=0, value="context"), dict(n=3, at=2, value="function"), dict(n=1, value="every")]),
    "function": (dict(n=[0, 1, 2, 3], body=sorted(NESTED), ext=[False, True]), _function,
                 [dict(n=0, body="name", ext=False), dict(n=3, body="for", ext=False), dict(n=2, body="context", ext=False), dict(n=1, body="function", ext=False),
                  dict(n=2, body="context", ext=True), dict(n=0, body="name", ext=True)]),
    "for_substituted": (dict(base=[["For", "Name", "In", "Name", "Comma", "Name", "In", "Name", "Return", "Name"]], pos=list(range(10)), tok=SUBST), _substituted,
                        [dict(pos=0, tok="For"), dict(pos=5, tok="Name"), dict(pos=8, tok="Return")]),
    "context_substituted": (dict(base=[["LeftBrace", "Name", "Colon", "For", "Name", "In", "Name", "Return", "Name", "RightBrace"]], pos=list(range(10)), tok=SUBST),
                            _substituted, [dict(pos=0, tok="LeftBrace"), dict(pos=3, tok="For"), dict(pos=9, tok="RightBrace")]),
}
THOROUGH_FAMILIES = {
    "quantified_deep": (dict(q=["For", "Some", "Every"], k=["Return", "Satisfies"], n=[1, 2, 3], range=[False, True], body=sorted(NESTED)), _quantified,
                        [dict(q="For", n=3, body="for"), dict(q="Every", n=2, body="context")]),
    "function_substituted": (dict(base=[["Function", "LeftParen", "Name", "Comma", "Name", "RightParen", "For", "Name", "In", "Name", "Return", "Name"]],
                                  pos=list(range(12)), tok=SUBST), _substituted, [dict(pos=0, tok="Function")]),
}


def parser_jobs(check, mirror, rb, jobs, tier="quick"):
    import itertools
    import rsenum
    from checks import C06 as c06
    from mir.sym import ok
    crate = MirCrate(mirror, ["feel-parser", "feel"], overflow_checks=True)
    g = c06.Grammar(mirror)
    pf = rsenum.struct_fields(mirror.read("feel-parser/src/parser.rs"), "Parser")
    lf = rsenum.struct_fields(mirror.read("feel-parser/src/lexer.rs"), "Lexer")
    check.bounds += ["parser side: token streams of the families %s (selectors symbolic: keyword, closing keyword, number of iteration contexts / entries / "
                     "parameters 0..3, nested body among %s, one symbolic token substituted at a symbolic position); name tokens carry distinct opaque names; "
                     "the initial parsing scope holds one context with symbolic entries" % (sorted(PARSE_FAMILIES), sorted(NESTED))]
    check.assumptions += ["parser side: Lexer::next_token replaced by a cursor over the symbolic token stream (the lexer's own scope bookkeeping methods "
                          "push_to_scope / pop_from_scope / add_name_to_scope are the real code); error constructors return an opaque error"]

    def setup_for(fname, fam):
        domains, build, _ = fam
        keys = sorted(domains)

        def setup(ex, st):
            sref, ctxs = scope_value(ex, st, 1)
            sel = {}
            for k in keys:
                v = ex.fresh_int(st, "u8", "sel_" + k, constrain=False)
                ex.assume(st, z3.And(v.e >= 0, v.e < len(domains[k])))
                sel[k] = v.e
            streams = []
            for combo in itertools.product(*[range(len(domains[k])) for k in keys]):
                c = {k: domains[k][i] for k, i in zip(keys, combo)}
                if "at" in c and c["n"] and c["at"] >= c["n"]:
                    continue
                cond = z3.And([sel[k] == i for k, i in zip(keys, combo)])
                streams.append((cond, [g.code("StartExpression")] + [g.code(t) for t in build(c)] + [g.code("YyEof")]))
            if "at" in domains:  # `at` ranges over the entries that exist
                ex.assume(st, z3.Or(sel["n"] == 0, sel["at"] < sel["n"]))
            longest = max(len(t) for _, t in streams)
            eof = g.code("YyEof")
            codes = []
            for pos in range(longest):
                e = z3.IntVal(eof)
                for cond, t in streams:
                    c = t[pos] if pos < len(t) else eof
                    e = z3.If(cond, z3.IntVal(c), e)
                codes.append(z3.simplify(e))
            other_tv = En("TokenValue", z3.IntVal(g.tv["YyEmpty"]), {"YyEmpty": ()})
            lvals = {"scope": sref, "start_token_type": Opaque("none"), "input": VecV(z3.IntVal(0), (), "char"), "position": mk_int(0, "usize"),
                     "unary_tests": mk_bool(False), "between": mk_bool(False), "type_name": mk_bool(False), "till_in": mk_bool(False)}
            missing = [f for f in lf if f not in lvals]
            if missing:
                raise MirUnsupported("Lexer has fields the token-cursor model does not know: %s" % missing)
            lexer = Adt("struct", "Lexer", [lvals[f] for f in lf])
            pvals = {"scope": sref, "input": StrV("<tokens>"), "yy_trace": mk_bool(False), "yy_lexer": lexer, "yy_char": mk_int(-2, "i16"), "yy_value": other_tv,
                     "yy_token": mk_int(-2, "i16"), "yy_state": mk_int(0, "usize"), "yy_n": mk_int(0, "i16"), "yy_len": mk_int(0, "i16"),
                     "yy_state_stack": VecV(z3.IntVal(1), (mk_int(0, "usize"),)), "yy_value_stack": VecV(z3.IntVal(1), (other_tv,)),
                     "yy_node_stack": VecV(z3.IntVal(0), ())}
            parser = Adt("struct", "Parser", [pvals[f] for f in pf])
            pos_idx = lf.index("position")

            def m_next_token(ex, st, callee, args, dest_ty):
                r = args[0]
                lex = ex.read(st, r.cell, r.projs)
                pos = ex.concrete(lex.fields[pos_idx].e)
                code = codes[pos] if pos < len(codes) else z3.IntVal(eof)
                # which names the lexer would see when this token is read: every key of every context above the caller's
                sc_ = ex.read(st, sref.cell, sref.projs).fields[0]
                depth_ = ex.concrete(sc_.len)
                seen_ = []
                for fr in (sc_.items[len(ctxs):depth_] if depth_ is not None else []):
                    mp = fr.fields[0]
                    k_ = ex.concrete(mp.len)
                    seen_ += [ex.concrete(e_.fields[0].e) for e_ in mp.items[:k_ or 0]]
                st.log.append(("token_read", pos, tuple(seen_)))
                f2 = list(lex.fields)
                f2[pos_idx] = mk_int(pos + 1, "usize")
                ex.write(st, r.cell, r.projs, Adt("struct", "Lexer", f2))
                val = En("TokenValue", z3.IntVal(g.tv["Name"]), {"Name": (Opaque("Name", z3.IntVal(300 + pos)),)})
                yield st, ok(Adt("tuple", None, (En("TokenType", code, {}), val)))

            def m_action(ex, st, callee, args, dest_ty):
                # lalr::reduce is generic over `impl ReduceActions`: the only implementor is the parser
                return ex.call(st, "<Parser as ReduceActions>::" + callee.rsplit("::", 1)[1], args, dest_ty)
            ex.models = [(re.compile(r"^Lexer::<'_>::next_token$"), m_next_token),
                         (re.compile(r"^<impl ReduceActions as lalr::ReduceActions>::\w+$"), m_action),
                         (re.compile(r"^parser::errors::(syntax_error|invalid_parse_result|err_pop)$|(^|::)err_pop$"), lambda ex, st, c, a, d: iter([(st, Opaque("Error", info=c))])),
                         (re.compile(r"^std::io::_print$"), lambda ex, st, c, a, d: iter([(st, UNIT)]))] + ex.models
            pcell = ex.new_cell(st, parser, "parser")
            return "Parser::parse", [Ref(pcell)], {"_sref": sref, "_ctxs": ctxs, "_sel": sel, "family": fname}
        return setup

    def post_for(fam):
        domains, build, need = fam

        def post(ex, o, inputs):
            accepted = ex.concrete(o.value.disc) == 0
            if not accepted:
                return []
            props = [("a successful parse leaves the parsing scope as it found it", scope_unchanged(ex, o.st, inputs["_sref"], inputs["_ctxs"]))]
            if build is _context and ex.check() == z3.sat:
                # a context entry's key becomes a name only AFTER its own value: while the tokens of the j-th value are read, the keys of the entries
                # before it are bound and its own key is not (`{"a+b": a+b}` is the sum of a and b, not a reference to the entry itself)
                m_ = ex.solver.model()
                c_ = {k: domains[k][int(model_value(m_, e) or 0)] for k, e in inputs["_sel"].items()}
                reads = {e[1]: e[2] for e in o.st.log if e[0] == "token_read"}
                pos_, okk = 2, True     # 0 StartExpression, 1 LeftBrace
                keys_before = []
                for j in range(c_["n"]):
                    if j:
                        pos_ += 1       # Comma
                    kpos = pos_
                    vlen = len(NESTED[c_["value"]]) if j == c_["at"] else 1
                    for p_ in range(kpos + 2, kpos + 2 + vlen):
                        names_ = reads.get(p_, ())
                        okk = okk and (300 + kpos) not in names_ and all(kb in names_ for kb in keys_before)
                    keys_before.append(300 + kpos)
                    pos_ = kpos + 2 + vlen
                props.append(("while the value of a context entry is read, the keys of the earlier entries are names and its own key is not yet", z3.BoolVal(bool(okk))))
            for w in need:
                props.append(("reach:" + json.dumps(w, sort_keys=True), z3.And([inputs["_sel"][k] == domains[k].index(v) for k, v in w.items()])))
            return props
        return post

    def describe_for(fam):
        domains, build, _ = fam

        def describe(m, inputs):
            c = {k: domains[k][int(model_value(m, e) or 0)] for k, e in inputs["_sel"].items()}
            return {"family": inputs["family"], "choice": c, "tokens": build(c)}
        return describe

    fams = dict(PARSE_FAMILIES)
    if tier == "thorough":
        fams.update(THOROUGH_FAMILIES)
    replay_parse_scope.wants_label = True
    for fname, fam in fams.items():
        jobs.append(lambda c, fname=fname, fam=fam: decide(
            c, crate, "parser_scope/%s" % fname, setup_for(fname, fam), post_for(fam), replay_parse_scope, rb,
            models=SCOPE_MODELS + fv.VALUE_MODELS, unwind=300, describe=describe_for(fam), budget_s=1500, min_paths=2, timeout_ms=20000,
            need_reach=["reach:" + json.dumps(w, sort_keys=True) for w in fam[2]]))


def replay_parse_scope(i, rb, label=""):
    if label.startswith("while the value of a context entry"):
        # an entry whose value spells its own key: the value is an expression over the names bound BEFORE the entry
        notes, bad = [], False
        for ctx, expr, want in (("{a: 1, b: 2}", '{"a+b": a+b}', "{a+b: 3}"), ("{a: 1, b: 2}", '{"a-b": a-b, c: 5}', "{a-b: -1, c: 5}"), ("{a: 4}", '{"a*a": a*a, r: 1}', "{a*a: 16, r: 1}")):
            _, out, _ = replay_call(rb, ["feelctx", ctx, expr])
            dev = out.strip() != "VALUE " + want
            bad = bad or dev
            notes.append("%s in %s -> %s%s" % (expr, ctx, out[:50], "" if not dev else " (specified %s)" % want))
        return bad, "; ".join(notes)
    names = iter(["v", "xs", "w", "ys", "body", "q", "a", "b", "c", "d", "e", "f", "g", "h"])
    # bound names for the domains / bodies so the text parses; iteration variables are fresh names
    words = []
    for t in i["tokens"]:
        words.append(next(names) if t == "Name" else PARSE_TEXT[t])
    text = " ".join(words)
    _, out, _ = replay_call(rb, ["scope_after", "{xs: [1], ys: [2], body: 3, q: 4, w: 5, v: 6, partial: 7, a: 1, b: 2, c: 3, d: 4, e: 5, f: 6, g: 7, h: 8}", text])
    return "CHANGED" in out, "parsing `%s` -> %s" % (text, out[:200])
