"""C13 — evaluation leaves the caller's scope untouched (DESIGN §4 C13).

Engine M, one inductive step over the expression tree: every closure that pushes temporary contexts
(For/Some/EveryExpressionEvaluator::evaluate, build_filter) is executed from MIR with the scope modelled as the real
stack of contexts in an ARBITRARY pre-state and with its sub-evaluators replaced by scope-neutral oracles returning
arbitrary values (induction hypothesis).  On every path, including early exits, the scope afterwards must hold exactly
the contexts it held before, and while a sub-evaluator runs the caller's contexts must still be there underneath.
"""
import re

import z3

from vcommon import *  # noqa
from mcheck import MirCrate, decide, run_parallel, model_value
from mir.sym import Adt, En, FnV, Opaque, Outcome, Ref, Sc, StrV, VecV, UNIT, mk_bool, mk_int, none, some
from mir.models import deref, m_format_stub, R
from mir.parser import MirUnsupported
import feelvals as fv

ENGINE = "M (MIR -> SMT, z3): scope stack model, sub-evaluators as scope-neutral oracles"


def m_refcell_borrow(ex, st, callee, args, dest_ty):
    """RefCell<T>::borrow / borrow_mut: single-threaded evaluation, no outstanding borrows in the encoded closures: the inner value"""
    yield st, args[0]


def m_slice_last(ex, st, callee, args, dest_ty):
    r = args[0]
    base = r
    while isinstance(ex.read(st, base.cell, base.projs), Ref):
        base = ex.read(st, base.cell, base.projs)
    v = ex.read(st, base.cell, base.projs)
    for st2, n in ex.enum_values(st, v.len, limit=len(v.items) + 2):
        if n == 0:
            yield st2, none()
        else:
            yield st2, some(Ref(base.cell, base.projs + (("index", n - 1),)))


def m_btree_contains(ex, st, callee, args, dest_ty):
    base, m = fv._map_ref(ex, st, args[0])
    kr = fv._rank(deref(ex, st, args[1]))
    c = z3.Or([z3.And(m.len > i, fv._rank(e.fields[0]) == kr) for i, e in enumerate(m.items)]) if m.items else z3.BoolVal(False)
    yield st, mk_bool(z3.simplify(c))


def m_name_from(ex, st, callee, args, dest_ty):
    s = deref(ex, st, args[0])
    yield st, Opaque("Name", z3.IntVal({"partial": 900, "item": 901}.get(s.const, 999)))


SCOPE_MODELS = [
    (R(r"^RefCell::<.*>::borrow(_mut)?$"), m_refcell_borrow),
    (R(r"^<Ref(Mut)?<'_, .*> as Deref(Mut)?>::deref(_mut)?$"), lambda ex, st, c, a, d: iter([(st, a[0])])),
    (R(r"^core::slice::<impl \[.*\]>::last(_mut)?$"), m_slice_last),
    (R(r"^BTreeMap::<.*>::contains_key::<.*>$"), m_btree_contains),
    (R(r"^<Name as From<&str>>::from$|^<&str as Into<Name>>::into$"), m_name_from),
    (R(r"^format$|^std::fmt::format$|^alloc::fmt::format$"), m_format_stub),
]


def fresh_ctx(ex, st, hint, nmax=1):
    n = ex.fresh_int(st, "usize", hint + "_n", constrain=False)
    ex.assume(st, z3.And(n.e >= 0, n.e <= nmax))
    ents = []
    for k in range(nmax):
        key = Opaque("Name", z3.Int(ex.fresh_name("%s_key%d" % (hint, k))))
        ents.append(Adt("tuple", None, (key, En("Value", z3.IntVal(24), {"Null": (none(),)}))))
    return Adt("struct", "FeelContext", (fv.MapV(n.e, ents, "kv"),))


def scope_value(ex, st, depth):
    """Scope whose stack holds `depth` arbitrary caller contexts"""
    ctxs = [fresh_ctx(ex, st, "caller%d" % i) for i in range(depth)]
    sc = Adt("struct", "Scope", (VecV(z3.IntVal(depth), ctxs, "FeelContext"),))
    return Ref(ex.new_cell(st, sc, "scope")), ctxs


def scope_unchanged(ex, st, sref, ctxs):
    sc = ex.read(st, sref.cell, sref.projs)
    vec = sc.fields[0]
    same = ex.concrete(vec.len) == len(ctxs) and all(a is b for a, b in zip(vec.items[:len(ctxs)], ctxs))
    return z3.BoolVal(bool(same))


def oracle_evaluator(ex, sref, ctxs, kinds, log_key="subeval"):
    """sub-evaluator: returns a fresh value of one of `kinds`, never touches the scope, records whether the caller's contexts
    were still in place underneath when it ran"""
    U = oracle_evaluator.U

    def cb(ex, st, argv):
        sc = ex.read(st, sref.cell, sref.projs)
        vec = sc.fields[0]
        n = ex.concrete(vec.len)
        under = n is not None and n >= len(ctxs) and all(a is b for a, b in zip(vec.items[:len(ctxs)], ctxs))
        st.log.append((log_key, n, under))
        v = U.fresh(ex, st, 0, "r%d" % len(st.log), kinds=kinds)
        yield st, v
    return FnV("@model", (cb,))


def run(check, mirror, tier):
    rb = replay_build(mirror)
    crate = MirCrate(mirror, ["feel-evaluator", "feel"], overflow_checks=True)
    U = fv.Universe(mirror)
    oracle_evaluator.U = U
    L = 2 if tier == "quick" else 3
    check.bounds += ["iteration / filtered lists of symbolic length 0..%d; caller scope of depth 1 with an arbitrary context; "
                     "sub-evaluator results arbitrary among boolean / number / null" % L]
    check.assumptions += ["induction hypothesis: sub-evaluators are scope-neutral and return arbitrary values",
                          "RefCell borrows are transparent (single-threaded closures, no overlapping borrows in the encoded bodies)"]
    MODELS = SCOPE_MODELS + fv.VALUE_MODELS
    jobs = []

    def post_common(ex, o, inputs):
        under = [e for e in o.st.log if e[0] == "subeval"]
        return [("the scope afterwards holds exactly the caller's contexts", scope_unchanged(ex, o.st, inputs["_sref"], inputs["_ctxs"])),
                ("while a sub-expression runs the caller's contexts are still underneath", z3.BoolVal(all(u[2] for u in under)))]

    # --- for / some / every ---------------------------------------------------------------------------------------------
    for which, kinds in (("ForExpressionEvaluator", ["Boolean", "Number", "Null"]), ("SomeExpressionEvaluator", ["Boolean", "Null"]),
                         ("EveryExpressionEvaluator", ["Boolean", "Null"])):
        def setup(ex, st, which=which, kinds=kinds):
            sref, ctxs = scope_value(ex, st, 1)
            n = ex.fresh_int(st, "usize", "len", constrain=False)
            ex.assume(st, z3.And(n.e >= 0, n.e <= L))
            items = [En("Value", z3.IntVal(U.idx("Number")), {"Number": (Opaque("FeelNumber", z3.IntVal(100 + j)),)}) for j in range(L)]
            lst = En("Value", z3.IntVal(U.idx("List")), {"List": (Adt("struct", "Values", (VecV(n.e, items, "Value"),)),)})
            it = Adt("struct", "FeelIterator", (VecV(z3.IntVal(0), (), "FeelIteratorState"),))
            if which == "ForExpressionEvaluator":
                evs = Adt("struct", which, (it, Opaque("Name", z3.IntVal(900))))
                addfn = which + "::add_single"
            else:
                evs = Adt("struct", which, (it,))
                addfn = which + "::add"
            ecell = Ref(ex.new_cell(st, evs, "ev"))
            evaluator = Ref(ex.new_cell(st, Ref(ex.new_cell(st, oracle_evaluator(ex, sref, ctxs, kinds), "box")), "evalref"))
            inputs = dict(len=n.e, _sref=sref, _ctxs=ctxs)

            def runner(ex, st):
                for o in ex.run(addfn, [ecell, Opaque("Name", z3.IntVal(0)), lst], st):
                    if o.kind != "return":
                        yield o
                        continue
                    yield from ex.run(which + "::evaluate", [ecell, sref, ex.read(o.st, evaluator.cell, evaluator.projs)], o.st)
            return runner, None, inputs

        def desc(m, inputs):
            return {k: model_value(m, v) for k, v in inputs.items() if not k.startswith("_")}
        jobs.append(lambda c, which=which, setup=setup: decide(c, crate, "scope_balance/%s" % which, setup, post_common,
                                                               lambda i, rb, which=which: replay_scope(which, i, rb), rb, models=MODELS,
                                                               unwind=6 * (L + 2), describe=desc, budget_s=900, min_paths=2, timeout_ms=20000))

    # --- filter ------------------------------------------------------------------------------------------------------------
    def setup_filter(ex, st):
        sref, ctxs = scope_value(ex, st, 1)
        n = ex.fresh_int(st, "usize", "len", constrain=False)
        ex.assume(st, z3.And(n.e >= 0, n.e <= L))
        items = []
        for j in range(L):
            # each element: a number, or a context that may or may not have an entry called `item`
            has_item = z3.Bool(ex.fresh_name("elem%d_has_item" % j))
            key = Opaque("Name", z3.If(has_item, z3.IntVal(901), z3.IntVal(5)))
            cv = Adt("struct", "FeelContext", (fv.MapV(z3.IntVal(1), [Adt("tuple", None, (key, En("Value", z3.IntVal(U.idx("Null")), {"Null": (none(),)})))], "kv"),))
            d = ex.fresh_int(st, "isize", "elem%d_kind" % j, constrain=False)
            ex.assume(st, z3.Or(d.e == U.idx("Number"), d.e == U.idx("Context")))
            items.append(En("Value", d.e, {"Number": (Opaque("FeelNumber", z3.IntVal(100 + j)),), "Context": (cv,)}))
        lst = En("Value", z3.IntVal(U.idx("List")), {"List": (Adt("struct", "Values", (VecV(n.e, items, "Value"),)),)})
        caps = closure_captures(crate, "build_filter")
        vals = {"lhe": Ref(ex.new_cell(st, FnV("@const", (lst,)), "box")),
                "rhe": Ref(ex.new_cell(st, oracle_evaluator(ex, sref, ctxs, ["Boolean", "Null"]), "box")),
                "name_item": Opaque("Name", z3.IntVal(901))}
        if sorted(caps) != sorted(vals):
            raise MirUnsupported("build_filter's closure captures %s, the obligation knows %s" % (caps, sorted(vals)))
        env = Ref(ex.new_cell(st, Adt("closure", "build_filter", [vals[c] for c in caps]), "env"))
        inputs = dict(len=n.e, _sref=sref, _ctxs=ctxs)
        return "build_filter::{closure#0}", [env, sref], inputs

    jobs.append(lambda c: decide(c, crate, "scope_balance/build_filter", setup_filter, post_common, lambda i, rb: replay_scope("filter", i, rb), rb,
                                 models=MODELS, unwind=6 * (L + 2), describe=lambda m, inputs: {k: model_value(m, v) for k, v in inputs.items() if not k.startswith("_")},
                                 budget_s=900, min_paths=2, timeout_ms=20000))
    run_parallel(check, jobs)


def closure_captures(crate, builder):
    b = crate.bodies.get(builder)
    if b is None:
        raise MirUnsupported("no MIR body " + builder)
    m = re.search(r"\{closure@[^}]*\} \{ ([^}]*) \}", b.text)
    if not m:
        return []
    return [x.split(":")[0].strip() for x in m.group(1).split(",")]


def replay_scope(which, i, rb):
    """natively: evaluate a representative expression on a scope with one caller context and compare the scope's rendering before/after"""
    n = i.get("len", 2)
    lst = "[" + ",".join(str(100 + j) for j in range(max(n, 2))) + "]"
    exprs = {"ForExpressionEvaluator": "for n in %s return n + 1" % lst,
             "SomeExpressionEvaluator": "some n in %s satisfies n > 1000" % lst,
             "EveryExpressionEvaluator": "every n in %s satisfies n > 1000" % lst,
             "filter": "[{item: 1, q: 2}, {q: 3}, 7][q > 0]"}
    _, out, _ = replay_call(rb, ["scope_after", "{outer: 10, n: 5}", exprs[which]])
    return "CHANGED" in out, "%s on scope [{n: 5, outer: 10}] -> %s" % (exprs[which], out[:200])
