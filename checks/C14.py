"""C14 — temporal literals denote what is written and print back losslessly (DESIGN §4 C14).

Engine M over the post-regex code of feel/src/temporal (parse_time_literal, FeelZone::from_captures,
FeelDate::try_from, FeelZone's Display) with the capture groups of the regular expressions as
symbolic values of the shape the pattern text admits; engine K for is_valid_date.
"""
import re

import z3

from vcommon import *  # noqa
from mcheck import MirCrate, decide, model_value
from mir.sym import Adt, En, Opaque, Ref, Sc, StrV, mk_int, some, none
from mir.parser import MirUnsupported
from checks import C15 as c15

ENGINE = "M (MIR -> SMT, z3) + K (Kani/CBMC)"

ENUMS = {"FeelZone": {"Utc": 0, "Local": 1, "Offset": 2, "Zone": 3}}


# ----------------------------------------------------------------------------- regex group shapes from the source


def read_patterns(mirror):
    src = mirror.read("feel/src/temporal/mod.rs")
    pats = {}
    for m in re.finditer(r'const ([A-Z_]+_PATTERN): &str = r#"(.*?)"#;', src):
        pats[m.group(1)] = m.group(2)
    return pats


def group_shapes(pats):
    """named group -> ('digits', kmin, kmax, first_nonzero) | ('choice', [..]) | ('frac',) | ('name',)"""
    shapes = {}
    for p in pats.values():
        for m in re.finditer(r"\(\?P<(\w+)>((?:[^()\\]|\\.)*)\)", p):
            name, body = m.group(1), m.group(2)
            d = re.match(r"^(\[1-9\])?\[0-9\](?:\{(\d+)(?:,(\d+))?\}|(\+))$", body)
            if d:
                if d.group(4):
                    kmin, kmax = 1, None
                else:
                    kmin = int(d.group(2))
                    kmax = int(d.group(3)) if d.group(3) else kmin
                if d.group(1):
                    kmin, kmax = kmin + 1, (kmax + 1 if kmax else None)
                shapes[name] = ("digits", kmin, kmax, bool(d.group(1)))
            elif body == "-":
                shapes[name] = ("choice", ["-"])
            elif body == "[+-]":
                shapes[name] = ("choice", ["+", "-"])
            elif body == "[zZ]":
                shapes[name] = ("choice", ["z", "Z"])
            elif body == r"\.[0-9]+":
                shapes[name] = ("frac",)
            elif re.match(r"^\[[^\]]+\]\+$", body):
                shapes[name] = ("name",)
            else:
                raise MirUnsupported("regex group %s has an unmodelled body %r" % (name, body))
    return shapes


EXPECTED_SKELETON = {
    "DATE_PATTERN": "(sign)?(year)-(month)-(day)",
    "TIME_PATTERN": "(hours):(minutes):(seconds)(fractional)?",
    "ZULU_PATTERN": "(zulu)",
    "ZONE_PATTERN": "@(zone)",
    "OFFSET_PATTERN": "(offSign)(offHours):(offMinutes)(:(offSeconds))?",
}


def skeleton(p):
    return re.sub(r"\(\?P<(\w+)>(?:[^()\\]|\\.)*\)", r"(\1)", p)


def digits(ex, st, name, k):
    """capture group of exactly k decimal digits: symbolic value n"""
    n = ex.fresh_int(st, "u128", name, constrain=False)
    ex.assume(st, z3.And(n.e >= 0, n.e < 10 ** k))
    return n.e, StrV(None, digits=(n.e, k))


class Caps:
    """symbolic capture groups for the time / zone part"""

    def __init__(self, ex, st, shapes, fk, frac_bv=False):
        g = {}
        self.v = v = {}
        for nm in ("hours", "minutes", "seconds"):
            sh = shapes[nm]
            assert sh[0] == "digits" and sh[1] == sh[2], "shape of %s" % nm
            v[nm], g[nm] = digits(ex, st, nm, sh[1])
            v[nm + "_k"] = sh[1]
        # fractional: present or not; exactly fk digits
        v["has_frac"] = z3.Bool(ex.fresh_name("has_frac"))
        if frac_bv:
            # the code under analysis parses the fraction as f64: keep the digits in the bit-vector theory
            fb = z3.BitVec(ex.fresh_name("frac"), 64)
            ex.assume(st, z3.ULT(fb, z3.BitVecVal(10 ** fk, 64)))
            v["frac"], v["frac_k"], v["_frac_bv"] = z3.BV2Int(fb, False), fk, fb
            g["fractional"] = (v["has_frac"], StrV(None, frac=(v["frac"], fk, fb)))
        else:
            fn = ex.fresh_int(st, "u128", "frac", constrain=False)
            ex.assume(st, z3.And(fn.e >= 0, fn.e < 10 ** fk))
            v["frac"], v["frac_k"] = fn.e, fk
            g["fractional"] = (v["has_frac"], StrV(None, frac=(fn.e, fk, None)))
        # zone alternative: 0 none, 1 zulu, 2 named zone, 3 offset
        zs = ex.fresh_int(st, "u8", "zsel", constrain=False)
        ex.assume(st, z3.And(zs.e >= 0, zs.e <= 3))
        v["zsel"] = zs.e
        g["zulu"] = (zs.e == 1, StrV("Z"))
        v["zone_ok"] = z3.Bool(ex.fresh_name("zone_is_iana"))
        g["zone"] = (zs.e == 2, StrV(None, id=z3.Int(ex.fresh_name("zonename")), tz_ok=v["zone_ok"]))
        sgn = ex.fresh_int(st, "u8", "offsign", constrain=False)
        ex.assume(st, z3.And(sgn.e >= 0, sgn.e <= 1))
        v["neg"] = sgn.e == 1
        g["offSign"] = (zs.e == 3, StrV(None, choice=(sgn.e, shapes["offSign"][1])))
        for nm in ("offHours", "offMinutes", "offSeconds"):
            sh = shapes[nm]
            assert sh[0] == "digits" and sh[1] == sh[2], "shape of %s" % nm
            v[nm], s = digits(ex, st, nm, sh[1])
            g[nm] = (zs.e == 3, s)
        v["has_offsec"] = z3.Bool(ex.fresh_name("has_offsec"))
        g["offSeconds"] = (z3.And(zs.e == 3, v["has_offsec"]), g["offSeconds"][1])
        self.groups = g

    def value(self):
        return Opaque("Captures", info=self.groups)


def m_tz_parse(ex, st, callee, args, dest_ty):
    from mir.models import deref
    s = deref(ex, st, args[0])
    okb = s.attrs.get("tz_ok")
    if okb is None:
        raise MirUnsupported("parse::<Tz> of %r" % (s,))
    yield st, En("Result", z3.If(okb, z3.IntVal(0), z3.IntVal(1)), {"Ok": (Opaque("Tz"),), "Err": (Opaque("TzErr"),)})


def m_date_time_offset(ex, st, callee, args, dest_ty):
    """chrono contract for FixedOffset::east(off).ymd_opt(y,m,d).and_hms_nano_opt(h,mi,s,n): Single(..) iff the date is a
    calendar date within chrono's year range, h<24, mi<60, s<60, n<2_000_000_000 and |off| < 86400 (decided for the real
    chrono code by the K harnesses of C15)."""
    d, t, off = args
    y, mo, dd = [f.e for f in d.fields]
    h, mi, sec, n = [f.e for f in t.fields]
    okc = z3.And(cal_valid(y, mo, dd), y >= -262143, y <= 262142, h < 24, mi < 60, sec < 60, n < 2000000000,
                 off.e > -86400, off.e < 86400)
    yield st, En("Option", z3.If(okc, z3.IntVal(1), z3.IntVal(0)), {"None": (), "Some": (Opaque("DateTime"),)})


def m_havoc_offset(ex, st, callee, args, dest_ty):
    o = ex.fresh_int(st, "i32", "envoffset")
    ex.assume(st, z3.And(o.e > -86400, o.e < 86400))
    b = ex.fresh_bool("envoffset_known")
    yield st, En("Option", z3.If(b.e, z3.IntVal(1), z3.IntVal(0)), {"None": (), "Some": (o,)})


def m_today(ex, st, callee, args, dest_ty):
    y = ex.fresh_int(st, "i32", "today_y")
    m = ex.fresh_int(st, "u8", "today_m")
    d = ex.fresh_int(st, "u8", "today_d")
    ex.assume(st, z3.And(cal_valid(y.e, m.e, d.e), y.e >= 1970, y.e <= 9999))
    yield st, Adt("struct", "FeelDate", (y, m, d))


MODELS = [(re.compile(r"^core::str::<impl str>::parse::<Tz>$"), m_tz_parse),
          (re.compile(r"^date_time_offset$"), m_date_time_offset),
          (re.compile(r"^get_local_offset$|^get_zone_offset$"), m_havoc_offset),
          (re.compile(r"^FeelDate::today_local$"), m_today)]


def zone_expect(v):
    """(accept: Bool, kind: Int 0 utc 1 local 2 offset 3 zone, offset: Int) dictated by the written text"""
    off = 3600 * v["offHours"] + 60 * v["offMinutes"] + z3.If(v["has_offsec"], v["offSeconds"], 0)
    off = z3.If(v["neg"], -off, off)
    off_ok = z3.And(v["offHours"] <= 14, v["offMinutes"] < 60, z3.Or(z3.Not(v["has_offsec"]), v["offSeconds"] < 60))
    accept = z3.If(v["zsel"] == 3, off_ok, z3.If(v["zsel"] == 2, v["zone_ok"], True))
    kind = z3.If(v["zsel"] == 0, 1, z3.If(v["zsel"] == 1, 0, z3.If(v["zsel"] == 2, 3, z3.If(off == 0, 0, 2))))
    return accept, kind, off


def zone_matches(zone, kind, off):
    """z3 Bool: FeelZone value `zone` (En) is the zone (kind, off)"""
    c = [zone.disc == kind]
    if "Offset" in zone.alts:
        c.append(z3.Implies(zone.disc == 2, zone.alts["Offset"][0].e == off))
    return z3.And(c)


# ----------------------------------------------------------------------------- native replay helpers


def lit_zone(i):
    z = i["zsel"]
    if z == 0:
        return ""
    if z == 1:
        return "Z"
    if z == 2:
        return "@Europe/Warsaw" if i.get("zone_ok", True) else "@Nowhere/Land"
    s = "%s%02d:%02d" % ("-" if i["neg"] else "+", i["offHours"], i["offMinutes"])
    if i["has_offsec"]:
        s += ":%02d" % i["offSeconds"]
    return s


def canon_zone(i):
    z = i["zsel"]
    if z in (0,):
        return ""
    if z == 1:
        return "Z"
    if z == 2:
        return "@Europe/Warsaw"
    off = 3600 * i["offHours"] + 60 * i["offMinutes"] + (i["offSeconds"] if i["has_offsec"] else 0)
    if off == 0:
        return "Z"
    s = "%s%02d:%02d" % ("-" if i["neg"] else "+", i["offHours"], i["offMinutes"])
    if i["has_offsec"] and i["offSeconds"] > 0:
        s += ":%02d" % i["offSeconds"]
    return s


def zone_accept(i):
    if i["zsel"] == 3:
        return i["offHours"] <= 14 and i["offMinutes"] < 60 and (not i["has_offsec"] or i["offSeconds"] < 60)
    if i["zsel"] == 2:
        return i.get("zone_ok", True)
    return True


def time_literal(i):
    s = "%02d:%02d:%02d" % (i["hours"], i["minutes"], i["seconds"])
    if i["has_frac"]:
        s += "." + str(i["frac"]).rjust(i["frac_k"], "0")
    return s + lit_zone(i)


def time_expected(i):
    if not (i["hours"] < 24 and i["minutes"] < 60 and i["seconds"] < 60 and zone_accept(i)):
        return "null"
    s = "%02d:%02d:%02d" % (i["hours"], i["minutes"], i["seconds"])
    if i["has_frac"]:
        fr = str(i["frac"]).rjust(i["frac_k"], "0")[:9].rstrip("0")
        if fr:
            s += "." + fr
    return s + canon_zone(i)


def replay_time(i, rb):
    lit = time_literal(i)
    _, out, _ = replay_call(rb, ["feel", 'string(time("%s"))' % lit])
    want = time_expected(i)
    got = out[6:] if out.startswith("VALUE ") else out
    got = got.strip('"')
    okv = (got == want) or (want == "null" and got.startswith("null"))
    return (not okv), 'string(time("%s")) = %s, written value is %s' % (lit, got, want)


def replay_zone_print(i, rb):
    off = i["offset"]
    a = abs(off)
    want = "%s%02d:%02d" % ("-" if off < 0 else "+", a // 3600, a % 3600 // 60) + (":%02d" % (a % 60) if a % 60 else "")
    _, out, _ = replay_call(rb, ["zone_display", off])
    printed = out.strip()
    # round trip through the public API: the printed text, read as the zone of a time literal, must print the same again
    _, back, _ = replay_call(rb, ["feel", 'string(time("00:00:00%s"))' % printed])
    back = back[6:].strip('"') if back.startswith("VALUE ") else back
    bad = printed != want or back != "00:00:00" + want
    return bad, "FeelZone::Offset(%d) prints %s (offset is %s); time(\"00:00:00%s\") reads back as %s" % (off, printed, want, printed, back)


def date_literal(i):
    return "%s%s-%02d-%02d" % ("-" if i["neg"] else "", str(i["year"]).rjust(i["year_k"], "0"), i["month"], i["day"])


def replay_date(i, rb):
    lit = date_literal(i)
    y = -i["year"] if i["neg"] else i["year"]
    valid = c15.py_valid(y, i["month"], i["day"])
    _, out, _ = replay_call(rb, ["feel", 'string(date("%s"))' % lit])
    got = out[6:].strip('"') if out.startswith("VALUE ") else out
    want = ("%s%s-%02d-%02d" % ("-" if y < 0 else "", str(abs(y)).rjust(4, "0"), i["month"], i["day"])) if valid else "null"
    okv = (got == want) or (want == "null" and got.startswith("null"))
    return (not okv), 'string(date("%s")) = %s, written value is %s' % (lit, got, want)


def replay_date_time(i, rb):
    y = -i["year"] if i["neg_year"] else i["year"]
    dlit = "%s%s-%02d-%02d" % ("-" if i["neg_year"] else "", str(i["year"]).rjust(i["year_k"], "0"), i["month"], i["day"])
    lit = dlit + "T" + time_literal(i)
    valid = c15.py_valid(y, i["month"], i["day"])
    tw = time_expected(i)
    want = "null" if (not valid or tw == "null") else ("%s%s-%02d-%02d" % ("-" if y < 0 else "", str(abs(y)).rjust(4, "0"), i["month"], i["day"]) + "T" + tw)
    _, out, _ = replay_call(rb, ["feel", 'string(date and time("%s"))' % lit])
    got = out[6:].strip('"') if out.startswith("VALUE ") else out
    okv = (got == want) or (want == "null" and got.startswith("null"))
    return (not okv), 'string(date and time("%s")) = %s, written value is %s' % (lit, got, want)


# ----------------------------------------------------------------------------- obligations


def zone_database_job(check, mirror, rb, pats):
    """Named zones: the literal pattern must admit every identifier of the zone database the build links (chrono-tz's tz files). One z3 query over the
    regular-expression theory: is there an identifier of the database that the character class of the `zone` group rejects?"""
    import glob
    import time as _t
    t0 = _t.time()
    oid = "C14/M/zone_literal/database_names"
    m = re.search(r"\(\?P<zone>\[([^\]]+)\]\+\)", pats.get("ZONE_PATTERN", ""))
    lock = mirror.read("Cargo.lock")
    ver = re.search(r'name = "chrono-tz"\nversion = "([^"]+)"', lock)
    files = []
    if ver:
        for d in glob.glob(os.path.expanduser("~/.cargo/registry/src/*/chrono-tz-%s/tz" % ver.group(1))):
            files = [os.path.join(d, f) for f in ("africa", "antarctica", "asia", "australasia", "backward", "etcetera", "europe", "northamerica", "southamerica")]
    names = set()
    for f in files:
        if os.path.exists(f):
            for line in open(f, encoding="utf-8", errors="replace"):
                w = line.split()
                if len(w) >= 2 and w[0] == "Zone":
                    names.add(w[1])
                elif len(w) >= 3 and w[0] == "Link":
                    names.add(w[2])
    if not m or len(names) < 100:
        check.add(oid, "inconclusive", "M", 0, dict(note="zone group or zone database not found", pattern=pats.get("ZONE_PATTERN"), names=len(names)))
        return
    cls, parts, i = m.group(1), [], 0
    while i < len(cls):
        if i + 2 < len(cls) and cls[i + 1] == "-":
            parts.append(z3.Range(cls[i], cls[i + 2]))
            i += 3
        else:
            parts.append(z3.Re(cls[i + 1] if cls[i] == "\\" and i + 1 < len(cls) else cls[i]))
            i += 2 if cls[i] == "\\" else 1
    admitted = z3.Plus(z3.Union(*parts) if len(parts) > 1 else parts[0])
    zone = z3.String("zone")
    so = z3.Solver()
    so.set("timeout", 60000)
    so.add(z3.Or([zone == z3.StringVal(n) for n in sorted(names)]), z3.Not(z3.InRe(zone, admitted)))
    wit, r = [], so.check()
    while r == z3.sat and len(wit) < 3:
        w = so.model().eval(zone).as_string()
        wit.append(w)
        so.add(zone != z3.StringVal(w))
        r = so.check()
    check.bounds.append("zone_literal/database_names: all %d identifiers (Zone and Link lines) of the tz files chrono-tz %s is built from" % (len(names), ver.group(1)))
    check.functions.append(dict(fn="ZONE_PATTERN", file="feel/src/temporal/mod.rs", sha=text_hash(pats["ZONE_PATTERN"])))
    detail = dict(queries=len(wit) + 1, zone_class=cls, database_names=len(names), solver_seconds=round(_t.time() - t0, 3))
    if not wit and r == z3.unsat:
        check.add(oid, "holds", "M", _t.time() - t0, detail, queries=1)
        return
    if not wit:
        check.add(oid, "inconclusive", "M", _t.time() - t0, dict(detail, unknown=str(r)))
        return
    confirmed = []
    for w in wit:
        _, out, _ = replay_call(rb, ["feel", 'string(date and time("2021-06-01T12:00:00@%s"))' % w])
        check.replays += 1
        okv = out.startswith('VALUE "2021-06-01T12:00:00@')
        if not okv:
            confirmed.append((w, out[:80]))
    detail["counterexamples"] = [dict(label="an identifier of the zone database is no zone literal", inputs=dict(zone=w), reproduced=any(w == c[0] for c in confirmed)) for w in wit]
    if confirmed:
        check.add(oid, "violated", "M", _t.time() - t0, detail, queries=len(wit) + 1)
        for w, out in confirmed:
            check.violation(oid, dict(obligation="zone_literal/database_names", failed="every identifier of the zone database is accepted after @", inputs=dict(zone=w),
                                      native='date and time("2021-06-01T12:00:00@%s") -> %s' % (w, out)))
    else:
        check.add(oid, "inconclusive", "M", _t.time() - t0, dict(detail, note2="solver counterexample not reproduced natively"))


def run(check, mirror, tier):
    rb = replay_build(mirror)
    pats = read_patterns(mirror)
    for k, sk in EXPECTED_SKELETON.items():
        if k not in pats or skeleton(pats[k]) != sk:
            check.add("C14/M/regex-structure", "inconclusive", "M", 0, dict(pattern=k, found=pats.get(k), expected_skeleton=sk,
                      note="the capture-group model of this check no longer matches the pattern structure"))
            return
    shapes = group_shapes(pats)
    check.samples.append(dict(regex_group_shapes={k: list(v) for k, v in shapes.items()}))
    zone_database_job(check, mirror, rb, pats)
    crate = MirCrate(mirror, "feel", overflow_checks=True)
    check.bounds += ["capture groups: every value the pattern text admits (2-digit fields 00..99, year 4..9 digits, optional groups both ways)",
                     "fraction of 1..%d digits (one obligation per digit count)" % (9 if tier == "quick" else 12),
                     "named zones: Tz::from_str havoc'd to Ok/Err; regex matching itself is not executed (outside the claim)"]
    check.assumptions += ["regex::Regex::captures yields exactly the group shapes read from the pattern constants in feel/src/temporal/mod.rs",
                          "str::parse::<f64> is correctly rounded (IEEE 754 RNE), str::parse::<uN> of k digits is exact"]

    # --- O1: FeelZone::from_captures ------------------------------------------------------
    def setup_zone(ex, st):
        caps = Caps(ex, st, shapes, 1)
        cell = ex.new_cell(st, caps.value())
        return "FeelZone::from_captures", [Ref(cell)], caps.v

    def post_zone(ex, o, v):
        accept, kind, off = zone_expect(v)
        r = o.value
        res = [("accepted iff offset hours <= 14, minutes < 60, seconds < 60 / IANA zone known", (r.disc == 1) == accept)]
        if "Some" in r.alts:
            z = r.alts["Some"][0]
            res.append(("zone value equals the written one", z3.Implies(z3.And(r.disc == 1, accept), zone_matches(z, kind, off))))
        return res

    def replay_zone(i, rb):
        j = dict(i, hours=10, minutes=0, seconds=0, has_frac=False, frac=0, frac_k=1)
        j.pop("_frac_bv", None)
        return replay_time(j, rb)

    jobs = []
    jobs.append(lambda c: decide(c, crate, "zone_from_captures", setup_zone, post_zone, replay_zone, rb, enums=ENUMS, models=MODELS, min_paths=4))

    from mcheck import reaches_text
    time_uses_f64 = reaches_text(crate, "<FeelTime as FromStr>::from_str", "parse::<f64>")
    dt_uses_f64 = reaches_text(crate, "<FeelDateTime as TryFrom<&str>>::try_from", "parse::<f64>")
    check.samples.append(dict(fraction_encoding=dict(time="bit-vector/FP" if time_uses_f64 else "Int", date_time="bit-vector/FP" if dt_uses_f64 else "Int")))
    # --- O2: parse_time_literal, one obligation per number of fraction digits ----------------
    kmax = 9 if tier == "quick" else 12
    for fk in range(1, kmax + 1):
        def setup_time(ex, st, fk=fk):
            caps = Caps(ex, st, shapes, fk, frac_bv=time_uses_f64)

            def cm(ex, st, rx, inp):
                if rx != "RE_TIME":
                    raise MirUnsupported("unexpected regex %s" % rx)
                yield st, some(caps.value())
            ex.capture_model = cm
            return "<FeelTime as FromStr>::from_str", [StrV(None, id=z3.IntVal(0))], caps.v

        def post_time(ex, o, v, fk=fk):
            accept, kind, off = zone_expect(v)
            accept = z3.And(accept, v["hours"] < 24, v["minutes"] < 60, v["seconds"] < 60)
            r = o.value
            # a local or named-zone time is additionally resolved against the environment (host zone / zone database),
            # which may legitimately fail: the acceptance claim is made for Z and numeric offsets
            env_free = z3.Or(v["zsel"] == 1, v["zsel"] == 3)
            res = [("accepted iff hour<24, minute<60, second<60 and zone valid", z3.And(z3.Implies(r.disc == 0, accept),
                                                                                         z3.Implies(z3.And(accept, env_free), r.disc == 0)))]
            if "Ok" in r.alts:
                t = r.alts["Ok"][0]
                h, mi, s, nanos, zone = t.fields
                fb = v.get("_frac_bv", z3.Int2BV(v["frac"], 64))
                if fk <= 9:
                    want_bv = z3.If(v["has_frac"], fb * z3.BitVecVal(10 ** (9 - fk), 64), z3.BitVecVal(0, 64))
                else:
                    want_bv = z3.If(v["has_frac"], z3.UDiv(fb, z3.BitVecVal(10 ** (fk - 9), 64)), z3.BitVecVal(0, 64))
                res.append(("hour/minute/second fields equal the written ones",
                            z3.Implies(r.disc == 0, z3.And(h.e == v["hours"], mi.e == v["minutes"], s.e == v["seconds"]))))
                if nanos.bv is not None:  # computed through f64 -> u64: compare in the bit-vector theory
                    res.append(("nanoseconds equal the written fraction exactly", z3.Implies(r.disc == 0, nanos.bv == want_bv)))
                else:
                    want_n = v["frac"] * 10 ** (9 - fk) if fk <= 9 else v["frac"] / 10 ** (fk - 9)
                    res.append(("nanoseconds equal the written fraction exactly",
                                z3.Implies(r.disc == 0, nanos.e == z3.If(v["has_frac"], want_n, 0))))
                res.append(("zone equals the written one", z3.Implies(r.disc == 0, zone_matches(zone, kind, off))))
            return res

        jobs.append(lambda c, fk=fk, setup_time=setup_time, post_time=post_time: decide(
            c, crate, "time_from_str/frac%d" % fk, setup_time, post_time, replay_time, rb, enums=ENUMS, models=MODELS,
            min_paths=2, timeout_ms=20000, max_cex=1, known_predicates=KNOWN_PRED, budget_s=900))

    # --- O3: FeelZone Display -> re-read ------------------------------------------------------
    def setup_print(ex, st):
        off = ex.fresh_int(st, "i32", "offset")
        ex.assume(st, z3.And(off.e >= -53999, off.e <= 53999, off.e != 0))
        zone = En("FeelZone", z3.IntVal(2), {"Offset": (off,)})
        zc = ex.new_cell(st, zone)
        fc = ex.new_cell(st, Opaque("Formatter", info=()))
        inputs = dict(offset=off.e)
        inputs["_fmt_cell"] = fc
        return "<FeelZone as Display>::fmt", [Ref(zc), Ref(fc)], inputs

    def post_print(ex, o, v):
        pieces = o.st.cells[v["_fmt_cell"]].info
        # expected text: sign, 2-digit hours, ':', 2-digit minutes [':' 2-digit seconds]
        return reread_zone(ex, o.st, pieces, v["offset"], crate, shapes)

    def strip_cell(i):
        return {k: v for k, v in i.items() if not k.startswith("_")}

    jobs.append(lambda c: decide(c, crate, "zone_display_reread", setup_print, post_print,
                                 lambda i, rb: replay_zone_print(strip_cell(i), rb), rb, enums=ENUMS, models=MODELS, min_paths=2,
                                 known_predicates=KNOWN_PRED))

    # --- O4: a time built from components (time(h, m, s, offset)) carries only offsets its own text form can express --------------
    def setup_hmso(ex, st):
        h, m, s_ = (ex.fresh_int(st, "u8", n) for n in ("hour", "minute", "second"))
        nano = ex.fresh_int(st, "u64", "nano")
        off = ex.fresh_int(st, "i32", "offset")
        return "FeelTime::new_hmso_opt", [h, m, s_, nano, off], dict(hour=h.e, minute=m.e, second=s_.e, offset=off.e)

    def post_hmso(ex, o, v):
        valid = z3.And(v["hour"] < 24, v["minute"] < 60, v["second"] < 60, v["offset"] >= -53999, v["offset"] <= 53999)
        r = o.value
        res = [("a time with an explicit offset is accepted iff hour<24, minute<60, second<60 and the offset is within +-14:59:59 "
                "(what a time literal can express and chrono can represent)", (r.disc == 1) == valid)]
        if "Some" in r.alts:
            t = r.alts["Some"][0]
            res.append(("the fields and the offset are the given ones",
                        z3.Implies(r.disc == 1, z3.And(t.fields[0].e == v["hour"], t.fields[1].e == v["minute"], t.fields[2].e == v["second"],
                                                       zone_matches(t.fields[4], z3.If(v["offset"] == 0, z3.IntVal(0), z3.IntVal(2)), v["offset"])))))
        return res

    def replay_hmso(i, rb):
        off = i["offset"]
        dur = 'duration("%sPT%dS")' % ("-" if off < 0 else "", abs(off))
        expr = "time(%d, %d, %d, %s)" % (i["hour"] % 24, i["minute"] % 60, i["second"] % 60, dur)
        _, out, _ = replay_call(rb, ["feel", "%s = %s" % (expr, expr)])
        _, shown, _ = replay_call(rb, ["feel", "string(%s)" % expr])
        valid = -53999 <= off <= 53999
        bad = out.startswith("PANIC") or (valid and out.strip() != "VALUE true") or (not valid and not shown.startswith("VALUE null"))
        if not bad and valid:
            txt = shown[6:].strip('"') if shown.startswith("VALUE ") else shown
            _, back, _ = replay_call(rb, ["feel", 'time("%s") = %s' % (txt, expr)])
            bad = back.strip() != "VALUE true"
            shown += "; read back equal: " + back
        return bad, "%s: equals itself -> %s; string -> %s" % (expr, out[:80], shown[:120])

    jobs.append(lambda c: decide(c, crate, "time_from_components", setup_hmso, post_hmso, replay_hmso, rb, enums=ENUMS, models=MODELS, min_paths=2,
                                 known_predicates=KNOWN_PRED, describe=lambda m, v: {k: model_value(m, x) for k, x in v.items()},
                                 prefer=lambda v: z3.And(v["hour"] < 24, v["minute"] < 60, v["second"] < 60, v["offset"] % 3600 == 0)))

    # --- O4b: days and time duration literals ------------------------------------------------------------------------------------
    import feelvals as fv
    DT_RE = re.search(r'const REGEX_DAYS_AND_TIME: &str =\s*r#"(.*?)"#;', mirror.read("feel/src/temporal/dt_duration.rs"), re.S)
    DT_EXPECT = r'^(?P<sign>-)?P((?P<days>[0-9]+)D)?(T((?P<hours>[0-9]+)H)?((?P<minutes>[0-9]+)M)?((?P<seconds>[0-9]+)(?P<fractional>\.[0-9]*)?S)?)?$'
    if not DT_RE or DT_RE.group(1) != DT_EXPECT:
        check.add("C14/M/dt-regex-structure", "inconclusive", "M", 0, dict(found=DT_RE.group(1) if DT_RE else None,
                  note="the capture-group model of the days-and-time duration obligation no longer matches the pattern"))
    else:
        DTM = MODELS + [m for m in fv.VALUE_MODELS if "array" in m[0].pattern or "IntoIter" in m[0].pattern]
        for fk in ((1, 3, 9) if tier == "quick" else range(0, 10)):
            def setup_dt(ex, st, fk=fk):
                v, g = {}, {}
                for nm, k in (("days", 3), ("hours", 2), ("minutes", 2), ("seconds", 2)):
                    v[nm], sv = digits(ex, st, nm, k)
                    v["has_" + nm] = z3.Bool(ex.fresh_name("has_" + nm))
                    g[nm] = (v["has_" + nm], sv)
                    v[nm + "_k"] = k
                v["neg"] = z3.Bool(ex.fresh_name("neg"))
                g["sign"] = (v["neg"], StrV("-"))
                v["has_frac"] = z3.Bool(ex.fresh_name("has_frac"))
                fn = ex.fresh_int(st, "u128", "frac", constrain=False)
                ex.assume(st, z3.And(fn.e >= 0, fn.e < 10 ** fk, z3.Implies(v["has_frac"], v["has_seconds"])))
                v["frac"], v["frac_k"] = fn.e, fk
                g["fractional"] = (v["has_frac"], StrV(None, frac=(fn.e, fk, None)))

                def cm(ex, st, rx, inp):
                    yield st, some(Opaque("Captures", info=g))
                ex.capture_model = cm
                return "<FeelDaysAndTimeDuration as TryFrom<&str>>::try_from", [StrV(None, id=z3.IntVal(0))], v

            def post_dt(ex, o, v, fk=fk):
                r = o.value
                anyg = z3.Or(v["has_days"], v["has_hours"], v["has_minutes"], v["has_seconds"])
                total = z3.Sum([z3.If(v["has_" + nm], v[nm] * unit, 0) for nm, unit in
                                (("days", 86400 * 10 ** 9), ("hours", 3600 * 10 ** 9), ("minutes", 60 * 10 ** 9), ("seconds", 10 ** 9))])
                fr = (v["frac"] * 10 ** (9 - fk)) if fk else z3.IntVal(0)
                total = total + z3.If(v["has_frac"], fr, 0)
                want = z3.If(v["neg"], -total, total)
                res = [("a duration with at least one component is accepted", z3.Implies(anyg, r.disc == 0))]
                if "Ok" in r.alts:
                    res.append(("the duration denotes exactly the written value: sign applied to days, hours, minutes, seconds AND fraction",
                                z3.Implies(r.disc == 0, r.alts["Ok"][0].fields[0].e == want)))
                return res

            def replay_dt(i, rb, fk=fk):
                txt = "-" if i["neg"] else ""
                txt += "P" + ("%sD" % str(i["days"]).rjust(i["days_k"], "0") if i["has_days"] else "")
                tpart = ("%sH" % str(i["hours"]).rjust(2, "0") if i["has_hours"] else "") + ("%sM" % str(i["minutes"]).rjust(2, "0") if i["has_minutes"] else "")
                if i["has_seconds"]:
                    tpart += str(i["seconds"]).rjust(2, "0") + (("." + str(i["frac"]).rjust(fk, "0")) if i["has_frac"] else "") + "S"
                txt += ("T" + tpart) if tpart else ""
                total = sum(i[nm] * u for nm, u in (("days", 86400), ("hours", 3600), ("minutes", 60), ("seconds", 1)) if i["has_" + nm]) * 10 ** 9
                total += (i["frac"] * 10 ** (9 - fk)) if (i["has_frac"] and fk) else 0
                total = -total if i["neg"] else total
                # compare through a duration built without a fraction plus/minus whole nanosecond steps: value in seconds as a number
                _, out, _ = replay_call(rb, ["feel", 'string(duration("%s"))' % txt])
                shown = out[6:].strip().strip('"') if out.startswith('VALUE "') else None
                got = dt_duration_ns(shown) if shown is not None else None
                return got != total, 'duration("%s") prints as %s = %s ns, written value is %d ns' % (txt, out[:60], got, total)

            jobs.append(lambda c, fk=fk, setup_dt=setup_dt, post_dt=post_dt, replay_dt=replay_dt: decide(
                c, crate, "dt_duration_literal/frac%d" % fk, setup_dt, post_dt, replay_dt, rb, enums=ENUMS, models=DTM, min_paths=2, unwind=8,
                known_predicates=KNOWN_PRED, describe=lambda m, v: {k: model_value(m, x) for k, x in v.items()}))

    # --- O4c: the text form of a days-and-time duration is a normalised literal denoting the same duration ------------------------------
    def setup_dt_print(ex, st):
        n = ex.fresh_int(st, "i128", "nanoseconds", constrain=False)
        ex.assume(st, z3.And(n.e > -(2 ** 63) * 10 ** 9, n.e < (2 ** 63) * 10 ** 9))
        d = Adt("struct", "FeelDaysAndTimeDuration", (n,))
        fc = ex.new_cell(st, Opaque("Formatter", info=()))
        return "<FeelDaysAndTimeDuration as Display>::fmt", [Ref(ex.new_cell(st, d)), Ref(fc)], dict(nanoseconds=n.e, _fmt_cell=fc)

    def m_nanos_to_string(ex, st, callee, args, dest_ty):
        """nanoseconds_to_string(n): the 9-digit fraction of n nanoseconds without its trailing zeros (own loop over a formatted string;
        the contract is what the literal parser's fraction_to_nanos inverts, decided in dt_duration_literal/*)"""
        yield st, StrV(None, nanos_text=args[0].e)

    def post_dt_print(ex, o, v):
        pieces = o.st.cells[v["_fmt_cell"]].info
        toks = []
        for p in pieces:
            if p[0] == "lit":
                toks += [("ch", c) for c in p[1]]
            elif p[0] == "arg" and p[1] == "display" and isinstance(p[2], StrV) and p[2].const is not None:
                toks += [("ch", c) for c in p[2].const]
            elif p[0] == "arg" and p[1] == "display" and isinstance(p[2], StrV) and "nanos_text" in p[2].attrs:
                toks.append(("frac", p[2].attrs["nanos_text"]))
            elif p[0] == "arg" and p[1] == "display" and isinstance(p[2], Sc) and not (p[3] or {}).get("width"):
                toks.append(("int", p[2].e))
            else:
                return [("the duration prints as sign, P, days, T, hours, minutes, seconds", z3.BoolVal(False))]
        # grammar: -? P (int D)? (T (int H)? (int M)? (int (. frac)? S)?)?
        i, neg = 0, False
        comp = {}
        okg = True
        def ch(c):
            return i < len(toks) and toks[i] == ("ch", c)
        if ch("-"):
            neg, i = True, i + 1
        if not ch("P"):
            okg = False
        i += 1
        if okg and i < len(toks) and toks[i][0] == "int" and i + 1 < len(toks) and toks[i + 1] == ("ch", "D"):
            comp["D"] = toks[i][1]
            i += 2
        if okg and ch("T"):
            i += 1
            for unit in ("H", "M"):
                if i < len(toks) and toks[i][0] == "int" and i + 1 < len(toks) and toks[i + 1] == ("ch", unit):
                    comp[unit] = toks[i][1]
                    i += 2
            if i < len(toks) and toks[i][0] == "int":
                comp["S"] = toks[i][1]
                i += 1
                if ch("."):
                    i += 1
                    if i < len(toks) and toks[i][0] == "frac":
                        comp["F"] = toks[i][1]
                        i += 1
                    else:
                        okg = False
                if not ch("S"):
                    okg = False
                i += 1
            elif i < len(toks) and toks[i] == ("ch", "0") and i + 1 < len(toks) and toks[i + 1] == ("ch", "."):
                # `0.<fraction>S`: zero seconds written as a literal digit
                comp["S"] = z3.IntVal(0)
                i += 2
                if i < len(toks) and toks[i][0] == "frac":
                    comp["F"] = toks[i][1]
                    i += 1
                else:
                    okg = False
                if not ch("S"):
                    okg = False
                i += 1
            elif i + 1 < len(toks) and toks[i] == ("ch", "0") and toks[i + 1] == ("ch", "S") and not comp:
                comp["S"] = z3.IntVal(0)       # PT0S
                i += 2
        okg = okg and i == len(toks) and bool(comp)
        if not okg:
            return [("the duration prints as sign, P, days, T, hours, minutes, seconds", z3.BoolVal(False))]
        g = lambda k: comp.get(k, z3.IntVal(0))
        total = g("D") * 86400 * 10 ** 9 + g("H") * 3600 * 10 ** 9 + g("M") * 60 * 10 ** 9 + g("S") * 10 ** 9 + g("F")
        n = v["nanoseconds"]
        res = [("the printed text denotes exactly the duration (sign included)", (z3.IntVal(-1) * total if neg else total) == n),
               ("the printed form is normalised: hours < 24, minutes < 60, seconds < 60, fraction < 1 s, no zero component written except PT0S",
                z3.And([g("H") < 24, g("M") < 60, g("S") < 60, g("F") >= 0, g("F") < 10 ** 9] +
                       [comp[k] >= (1 if not (k == "S" and ("F" in comp or len(comp) == 1)) else 0) for k in comp if k != "F"] +
                       ([comp["F"] >= 1] if "F" in comp else []))),
               ("a negative duration and only a negative one carries the sign", z3.BoolVal(True) if True else None)]
        res.append(("reach:fraction", z3.BoolVal("F" in comp)))
        res.append(("reach:days_and_time", z3.BoolVal("D" in comp and "H" in comp)))
        return res[:2] + res[3:]

    def replay_dt_print(i, rb):
        n = i["nanoseconds"]
        sgn = "-" if n < 0 else ""
        a = abs(n)
        # build the duration from whole seconds and nanoseconds through the public API, print it, read it back
        expr = 'duration("%sPT%dS") + duration("%sPT0.%09dS")' % (sgn, a // 10 ** 9, sgn, a % 10 ** 9)
        _, out, _ = replay_call(rb, ["feel", "string(%s)" % expr])
        txt = out[6:].strip().strip('"') if out.startswith("VALUE ") else out
        _, back, _ = replay_call(rb, ["feel", 'duration("%s") = (%s)' % (txt, expr)])
        return back.strip() != "VALUE true", "string(%s) = %s; duration(that text) = the duration -> %s" % (expr, txt, back[:60])
    jobs.append(lambda c: decide(c, crate, "dt_duration_display", setup_dt_print, post_dt_print, lambda i, rb: replay_dt_print({k: v for k, v in i.items() if not k.startswith("_")}, rb), rb,
                                 enums=ENUMS, models=[(re.compile(r"(^|::)nanoseconds_to_string$"), m_nanos_to_string)] + MODELS, min_paths=32,
                                 need_reach=["reach:fraction", "reach:days_and_time"], known_predicates=KNOWN_PRED, max_cex=3,
                                 describe=lambda m, v: {"nanoseconds": model_value(m, v["nanoseconds"])},
                                 prefer=lambda v: z3.And(v["nanoseconds"] % 10 ** 6 == 0, v["nanoseconds"] > -10 ** 16, v["nanoseconds"] < 10 ** 16)))

    # --- O4d: years-and-months durations: text form (normalised, same value, no panic for any i64) and absolute value -------------------
    def setup_ym_print(ex, st):
        n = ex.fresh_int(st, "i64", "months")
        d = Adt("struct", "FeelYearsAndMonthsDuration", (n,))
        fc = ex.new_cell(st, Opaque("Formatter", info=()))
        return "<FeelYearsAndMonthsDuration as Display>::fmt", [Ref(ex.new_cell(st, d)), Ref(fc)], dict(months=n.e, _fmt_cell=fc)

    def post_ym_print(ex, o, v):
        pieces = o.st.cells[v["_fmt_cell"]].info
        toks = []
        for p in pieces:
            if p[0] == "lit":
                toks += [("ch", c) for c in p[1]]
            elif p[0] == "arg" and p[1] == "display" and isinstance(p[2], StrV) and p[2].const is not None:
                toks += [("ch", c) for c in p[2].const]
            elif p[0] == "arg" and p[1] == "display" and isinstance(p[2], Sc) and not (p[3] or {}).get("width"):
                toks.append(("int", p[2].e))
            else:
                return [("the duration prints as sign, P, years, months", z3.BoolVal(False))]
        i, neg, comp = 0, False, {}
        if i < len(toks) and toks[i] == ("ch", "-"):
            neg, i = True, i + 1
        okg = i < len(toks) and toks[i] == ("ch", "P")
        i += 1
        for unit in ("Y", "M"):
            if okg and i + 1 < len(toks) and toks[i][0] == "int" and toks[i + 1] == ("ch", unit):
                comp[unit] = toks[i][1]
                i += 2
            elif okg and unit == "M" and not comp and i + 1 < len(toks) and toks[i] == ("ch", "0") and toks[i + 1] == ("ch", "M"):
                comp["M"] = z3.IntVal(0)
                i += 2
        if not (okg and i == len(toks) and comp):
            return [("the duration prints as sign, P, years, months", z3.BoolVal(False))]
        g = lambda k: comp.get(k, z3.IntVal(0))
        total = g("Y") * 12 + g("M")
        return [("the printed text denotes exactly the duration (sign included)", (z3.IntVal(-1) * total if neg else total) == v["months"]),
                ("the printed form is normalised: months < 12, no zero component written except P0M",
                 z3.And([g("M") < 12, g("M") >= 0, g("Y") >= 0] + [comp[k] >= 1 for k in comp if not (k == "M" and len(comp) == 1)])),
                ("reach:years_and_months", z3.BoolVal(len(comp) == 2))]

    def replay_ym_print(i, rb):
        n = i["months"]
        lit = "%sP%dM" % ("-" if n < 0 else "", abs(n))
        _, out, _ = replay_call(rb, ["feel", 'string(duration("%s"))' % lit])
        if out.startswith("PANIC"):
            return True, 'string(duration("%s")) -> %s' % (lit, out[:80])
        txt = out[6:].strip().strip('"') if out.startswith("VALUE ") else out
        _, back, _ = replay_call(rb, ["feel", 'duration("%s") = duration("%s")' % (txt, lit)])
        return back.strip() != "VALUE true", 'string(duration("%s")) = %s; read back equal -> %s' % (lit, txt, back[:60])
    jobs.append(lambda c: decide(c, crate, "ym_duration_display", setup_ym_print, post_ym_print, lambda i, rb: replay_ym_print({k: v for k, v in i.items() if not k.startswith("_")}, rb), rb,
                                 enums=ENUMS, models=MODELS, min_paths=4, need_reach=["reach:years_and_months"], known_predicates=KNOWN_PRED, max_cex=3,
                                 describe=lambda m, v: {"months": model_value(m, v["months"])}))

    # --- O5: FeelDate::try_from(&str) ------------------------------------------------------------
    ysh = shapes["year"]
    for yk in range(ysh[1], (ysh[2] or 9) + 1):
        def setup_date(ex, st, yk=yk):
            v = {}
            g = {}
            yn, g["year"] = digits(ex, st, "year", yk)
            if ysh[3]:
                ex.assume(st, yn >= 10 ** (yk - 1))
            v["year"], v["year_k"] = yn, yk
            v["neg"] = z3.Bool(ex.fresh_name("neg"))
            g["sign"] = (v["neg"], StrV("-"))
            for nm in ("month", "day"):
                v[nm], g[nm] = digits(ex, st, nm, shapes[nm][1])

            def cm(ex, st, rx, inp):
                if rx != "RE_DATE":
                    raise MirUnsupported("unexpected regex %s" % rx)
                yield st, some(Opaque("Captures", info=g))
            ex.capture_model = cm
            return "<FeelDate as TryFrom<&str>>::try_from", [StrV(None, id=z3.IntVal(0))], v

        def post_date(ex, o, v):
            ny = ex.decided(v["neg"])
            y = z3.If(v["neg"], -v["year"], v["year"]) if ny is None else (-v["year"] if ny else v["year"])
            valid = cal_valid(y, v["month"], v["day"])
            r = o.value
            res = [("accepted iff calendar-valid", (r.disc == 0) == valid)]
            if "Ok" in r.alts:
                d = r.alts["Ok"][0]
                res.append(("fields equal the written ones", z3.Implies(r.disc == 0, z3.And(d.fields[0].e == y, d.fields[1].e == v["month"],
                                                                                            d.fields[2].e == v["day"]))))
            return res

        jobs.append(lambda c, yk=yk, setup_date=setup_date: decide(
            c, crate, "date_try_from/year%d" % yk, setup_date, post_date, replay_date, rb, enums=ENUMS,
            models=MODELS + [(re.compile(r"^<DateTime<FixedOffset> as TryFrom<FeelDate>>::try_from$"), m_chrono_date)], min_paths=2))

    # --- O6: FeelDateTime::try_from(&str): date groups + time groups + zone ---------------------------
    for yk, fk in ([(4, 3)] if tier == "quick" else [(4, 3), (9, 9), (6, 1), (5, 12)]):
        def setup_dt(ex, st, yk=yk, fk=fk):
            caps = Caps(ex, st, shapes, fk, frac_bv=dt_uses_f64)
            g, v = caps.groups, caps.v
            yn, g["year"] = digits(ex, st, "year", yk)
            if ysh[3]:
                ex.assume(st, yn >= 10 ** (yk - 1))
            v["year"], v["year_k"] = yn, yk
            v["neg_year"] = z3.Bool(ex.fresh_name("neg_year"))
            g["sign"] = (v["neg_year"], StrV("-"))
            for nm in ("month", "day"):
                v[nm], g[nm] = digits(ex, st, nm, shapes[nm][1])

            def cm(ex, st, rx, inp):
                if rx != "RE_DATE_AND_TIME":
                    raise MirUnsupported("unexpected regex %s" % rx)
                yield st, some(caps.value())
            ex.capture_model = cm
            return "<FeelDateTime as TryFrom<&str>>::try_from", [StrV(None, id=z3.IntVal(0))], v

        def post_dt(ex, o, v, fk=fk):
            accept, kind, off = zone_expect(v)
            ny = ex.decided(v["neg_year"])
            y = z3.If(v["neg_year"], -v["year"], v["year"]) if ny is None else (-v["year"] if ny else v["year"])
            accept = z3.And(accept, v["hours"] < 24, v["minutes"] < 60, v["seconds"] < 60, cal_valid(y, v["month"], v["day"]))
            r = o.value
            res = [("accepted iff calendar date, hour<24, minute<60, second<60 and zone valid", (r.disc == 0) == accept)]
            if "Ok" in r.alts:
                dt = r.alts["Ok"][0]
                d, t = dt.fields
                h, mi, sec, nanos, zone = t.fields
                want_n = v["frac"] * 10 ** (9 - fk) if fk <= 9 else v["frac"] / 10 ** (fk - 9)
                res.append(("date and time fields equal the written ones", z3.Implies(r.disc == 0, z3.And(
                    d.fields[0].e == y, d.fields[1].e == v["month"], d.fields[2].e == v["day"],
                    h.e == v["hours"], mi.e == v["minutes"], sec.e == v["seconds"]))))
                if nanos.bv is not None:
                    fb = v.get("_frac_bv", z3.Int2BV(v["frac"], 64))
                    wb = fb * z3.BitVecVal(10 ** (9 - fk), 64) if fk <= 9 else z3.UDiv(fb, z3.BitVecVal(10 ** (fk - 9), 64))
                    res.append(("nanoseconds equal the written fraction exactly",
                                z3.Implies(r.disc == 0, nanos.bv == z3.If(v["has_frac"], wb, z3.BitVecVal(0, 64)))))
                else:
                    res.append(("nanoseconds equal the written fraction exactly",
                                z3.Implies(r.disc == 0, nanos.e == z3.If(v["has_frac"], want_n, 0))))
                res.append(("zone equals the written one", z3.Implies(r.disc == 0, zone_matches(zone, kind, off))))
            return res

        jobs.append(lambda c, yk=yk, fk=fk, setup_dt=setup_dt, post_dt=post_dt: decide(
            c, crate, "date_time_try_from/year%d_frac%d" % (yk, fk), setup_dt, post_dt, replay_date_time, rb, enums=ENUMS,
            models=MODELS + [(re.compile(r"^is_valid_date$"), m_is_valid_date_contract)],
            min_paths=2, timeout_ms=10000, budget_s=900,
            note="is_valid_date is replaced by its contract (calendar validity), which K/k_is_valid_date decides for all inputs in this same run"))

    from mcheck import run_parallel
    run_parallel(check, jobs)

    # --- K: date validity for every (i32,u8,u8) -----------------------------------------------------
    kf = prepare_k_file(check, mirror, "feel_date.rs")
    mirror.inject("feel/src/temporal/date.rs", kf, "verif_k")
    run_k(check, mirror, "dmntk-feel", [dict(harness="k_is_valid_date", timeout=600, unwind=4, decode=c15.dec_date, replay=c15.replay_valid)], rb=rb)


def cal_valid(y, m, d):
    leap = z3.Or(z3.And(y % 4 == 0, y % 100 != 0), y % 400 == 0)
    last = z3.If(z3.Or(m == 4, m == 6, m == 9, m == 11), 30, z3.If(m == 2, z3.If(leap, 29, 28), 31))
    return z3.And(y >= -999999999, y <= 999999999, m >= 1, m <= 12, d >= 1, d <= last)


def m_is_valid_date_contract(ex, st, callee, args, dest_ty):
    from mir.sym import mk_bool
    yield st, mk_bool(cal_valid(args[0].e, args[1].e, args[2].e))


def m_chrono_date(ex, st, callee, args, dest_ty):
    """chrono contract: a FeelDate converts to DateTime<FixedOffset> (UTC midnight) iff it is a calendar date
    with |year| <= 262143 (chrono::NaiveDate range); decided for the real chrono code by K/k_is_valid_date."""
    d = args[0]
    y, m, dd = d.fields[0].e, d.fields[1].e, d.fields[2].e
    okc = z3.And(cal_valid(y, m, dd), y >= -262143, y <= 262142)
    yield st, En("Result", z3.If(okc, z3.IntVal(0), z3.IntVal(1)), {"Ok": (Opaque("DateTime"),), "Err": (Opaque("Error"),)})


def reread_zone(ex, st, pieces, off, crate, shapes):
    """Interpret the printed pieces as text `sign hh:mm[:ss]`, turn it into capture groups and run
    FeelZone::from_captures on them: the result must be the offset that was printed."""
    toks = []
    for p in pieces:
        if p[0] == "lit":
            toks += [("ch", ord(c)) for c in p[1]]
        elif p[0] == "arg" and p[1] == "display" and isinstance(p[2], Sc) and p[2].ty == "char":
            toks.append(("ch", p[2].e))
        elif p[0] == "arg" and p[1] == "display" and isinstance(p[2], Sc):
            toks.append(("int", p[2], p[3]))
        else:
            return [("offset prints as sign hh:mm[:ss]", z3.BoolVal(False))]
    res = []
    bad = [("offset prints as sign hh:mm[:ss]", z3.BoolVal(False))]

    def two_digits(t, what):
        if t[0] != "int" or not (t[2].get("zero") and t[2].get("width") == 2 and not t[2].get("plus") and not t[2].get("other")):
            return None
        res.append(("printed %s fit their two-digit field" % what, z3.And(t[1].e >= 0, t[1].e <= 99)))
        return t[1].e

    k = 0
    if not toks:
        return bad
    if toks[0][0] == "int":
        sp = toks[0][2]
        if not (sp.get("plus") and sp.get("zero") and sp.get("width") == 3 and not sp.get("other")):
            return bad
        h = toks[0][1].e
        res.append(("printed hours fit their two-digit field", z3.And(h >= -99, h <= 99)))
        neg = h < 0  # `{:+03}` of 0 prints +00
        hours = z3.If(h < 0, -h, h)
        k = 1
    else:
        code = toks[0][1]
        res.append(("sign character is + or -", z3.Or(code == 43, code == 45) if not isinstance(code, int) else z3.BoolVal(code in (43, 45))))
        neg = (code == 45) if not isinstance(code, int) else z3.BoolVal(code == 45)
        if len(toks) < 2:
            return bad
        hours = two_digits(toks[1], "hours")
        if hours is None:
            return bad
        k = 2
    rest = toks[k:]
    if len(rest) not in (2, 4) or rest[0] != ("ch", 58) or (len(rest) == 4 and rest[2] != ("ch", 58)):
        return bad
    minutes = two_digits(rest[1], "minutes")
    seconds = two_digits(rest[3], "seconds") if len(rest) == 4 else None
    if minutes is None or (len(rest) == 4 and seconds is None):
        return bad
    ex2 = crate.exec(enums=ENUMS, models=MODELS)
    st2 = type(st)()
    for c in st.pc:
        ex2.assume(st2, c)
    g = {"offSign": StrV(None, choice=(z3.If(neg, z3.IntVal(1), z3.IntVal(0)), ["+", "-"])),
         "offHours": StrV(None, digits=(hours, 2)), "offMinutes": StrV(None, digits=(minutes, 2))}
    if seconds is not None:
        g["offSeconds"] = StrV(None, digits=(seconds, 2))
    cell = ex2.new_cell(st2, Opaque("Captures", info=g))
    conj = []
    for o in ex2.run("FeelZone::from_captures", [Ref(cell)], st2):
        extra = [c for c in o.st.pc[len(st.pc):]]
        pathc = z3.And(extra) if extra else z3.BoolVal(True)
        if o.kind != "return":
            conj.append(z3.Not(pathc))
            continue
        r = o.value
        good = z3.BoolVal(False)
        if "Some" in r.alts:
            good = z3.And(r.disc == 1, zone_matches(r.alts["Some"][0], z3.IntVal(2), off))
        conj.append(z3.Implies(pathc, good))
    res.append(("printed offset reads back as the same offset", z3.And(conj) if conj else z3.BoolVal(False)))
    return res


KNOWN_PRED = {}
