"""C15 — calendar and time line (DESIGN §4 C15)."""
from vcommon import *

ENGINE = "K (Kani/CBMC over the compiled crate) + M (MIR -> SMT)"


def py_leap(y):
    return (y % 4 == 0 and y % 100 != 0) or y % 400 == 0


def py_last(y, m):
    return 30 if m in (4, 6, 9, 11) else (29 if py_leap(y) else 28) if m == 2 else 31


def py_valid(y, m, d):
    return -999999999 <= y <= 999999999 and 1 <= m <= 12 and 1 <= d <= py_last(y, m)


def py_months(a, b):
    total = 12 * (a[0] - b[0]) + (a[1] - b[1])
    if total > 0 or (total == 0 and a[2] >= b[2]):
        return total - 1 if a[2] < b[2] else total
    return total + 1 if b[2] < a[2] else total


def dec_date(vals):
    return dict(y=le_int(vals[0], True), m=le_int(vals[1]), d=le_int(vals[2]))


def replay_valid(i, rb):
    rc, out, _ = replay_call(rb, ["is_valid_date", i["y"], i["m"], i["d"]])
    want = py_valid(i["y"], i["m"], i["d"])
    return (out.strip() != str(want).lower()), "FeelDate::new_opt(%d,%d,%d).is_some() = %s, calendar says %s" % (i["y"], i["m"], i["d"], out, want)


def dec_two_dates(vals):
    return dict(a=[le_int(vals[0], True), le_int(vals[1]), le_int(vals[2])], b=[le_int(vals[3], True), le_int(vals[4]), le_int(vals[5])])


def replay_ym(i, rb):
    a, b = i["a"], i["b"]
    _, ab, _ = replay_call(rb, ["ym_duration"] + a + b)
    _, ba, _ = replay_call(rb, ["ym_duration"] + b + a)
    want = py_months(a, b)
    bad = (ab.strip() != str(want)) or (ba.strip() != str(-want))
    return bad, "a=%s b=%s: a.ym_duration(b)=%s b.ym_duration(a)=%s, whole months a-b = %d" % (a, b, ab, ba, want)


def run(check, mirror, tier):
    rb = replay_build(mirror)
    kf = prepare_k_file(check, mirror, "feel_date.rs")
    mirror.inject("feel/src/temporal/date.rs", kf, "verif_k")
    check.functions += [dict(fn=f, file="feel/src/temporal/date.rs", sha=file_hash(mirror.path("feel/src/temporal/date.rs")))
                        for f in ("is_valid_date", "is_leap_year", "last_day_of_month", "FeelDate::new_opt", "FeelDate::ym_duration")]
    check.bounds += ["K/k_is_valid_date: all (i32,u8,u8), unwind 4 with unwinding assertions",
                     "K/k_ym_duration: all pairs of calendar-valid dates, full i32 year width"]
    specs = [
        dict(harness="k_is_valid_date", timeout=600, unwind=4, decode=dec_date, replay=replay_valid),
        dict(harness="k_ym_duration", timeout=600, unwind=4, decode=dec_two_dates, replay=replay_ym),
    ]
    run_k(check, mirror, "dmntk-feel", specs, rb=rb)

    # --- M: date from three numbers (narrowing conversions) -------------------------------------------------------------------
    import re
    import z3
    from mcheck import MirCrate, decide, run_parallel, model_value
    from mir.sym import Adt, En, Opaque, Ref, Sc
    import numvals as nv
    import feelvals as fv
    crate = MirCrate(mirror, ["feel", "feel-number"], overflow_checks=True)
    U = fv.Universe(mirror)
    check.bounds.append("M/date_from_numbers: year, month, day any FEEL numbers (integers of any magnitude and non-integers)")
    check.assumptions.append("decQuadToUInt32/ToInt32: value rounded to an integer, 0 when out of range (dec.rs contract); is_valid_date by its contract (K/k_is_valid_date)")

    def m_is_valid_date_contract(ex, st, callee, args, dest_ty):
        from mir.sym import mk_bool
        yield st, mk_bool(U.cal_valid(args[0].e, args[1].e, args[2].e))
    from mir.models import m_format_stub
    MODELS = [(re.compile(r"^is_valid_date$"), m_is_valid_date_contract),
              (re.compile(r"^format$|^std::fmt::format$|^alloc::fmt::format$"), m_format_stub)] + nv.NUM_MODELS

    def setup(ex, st):
        ns = [nv.fresh_number(ex, st, h) for h in ("year", "month", "day")]
        inputs = {}
        for h, n in zip(("year", "month", "day"), ns):
            inputs[h + "_floor"], inputs[h + "_isint"] = n.e, n.info["int"]
        return "<FeelDate as TryFrom<(FeelNumber, FeelNumber, FeelNumber)>>::try_from", [Adt("tuple", None, ns)], inputs

    def post(ex, o, v):
        allint = z3.And(v["year_isint"], v["month_isint"], v["day_isint"])
        y, m, d = v["year_floor"], v["month_floor"], v["day_floor"]
        valid = z3.And(allint, U.cal_valid(y, m, d))
        r = o.value
        res = [("date(y, m, d) is accepted iff the three numbers are integers forming a calendar date", (r.disc == 0) == valid)]
        if "Ok" in r.alts:
            f = r.alts["Ok"][0].fields
            res.append(("the date has exactly the given components", z3.Implies(r.disc == 0, z3.And(f[0].e == y, f[1].e == m, f[2].e == d))))
        return res

    def replay(i, rb):
        def t(h):
            return str(i[h + "_floor"]) if i[h + "_isint"] else "%d.5" % i[h + "_floor"]
        expr = "date(%s,%s,%s)" % (t("year"), t("month"), t("day"))
        _, out, _ = replay_call(rb, ["feel", expr.replace("(-", "((0-").replace(",-", ",(0-") if False else expr])
        ok_ = i["year_isint"] and i["month_isint"] and i["day_isint"] and py_valid(i["year_floor"], i["month_floor"], i["day_floor"])
        got_ok = out.startswith("VALUE ") and not out.startswith("VALUE null")
        bad = got_ok != ok_
        if ok_ and got_ok:
            y = i["year_floor"]
            want = "%s%s-%02d-%02d" % ("-" if y < 0 else "", str(abs(y)).rjust(4, "0"), i["month_floor"], i["day_floor"])
            bad = out[6:] != want
        return bad, "%s -> %s (a calendar date with integer components: %s)" % (expr, out[:60], ok_)

    decide(check, crate, "date_from_numbers", setup, post, replay, rb, models=MODELS, budget_s=600, min_paths=2, timeout_ms=20000,
           describe=lambda m, inputs: {k: model_value(m, x) for k, x in inputs.items()},
           prefer=lambda inp: z3.And(inp["year_floor"] >= 1000, inp["year_floor"] <= 9999, inp["month_floor"] >= -1000, inp["month_floor"] <= 1000,
                                     inp["day_floor"] >= -1000, inp["day_floor"] <= 1000))
    import checks.C15_timeline as tl
    run_parallel(check, tl.jobs(check, mirror, rb, KNOWN_PRED))


# ----------------------------------------------------------------------------- M: subtraction of date-and-time values with explicit offsets


def days_from_civil(y, m, d):
    """days since 1970-01-01 of the proleptic Gregorian date (y >= 1), integer arithmetic only"""
    import z3
    yp = z3.If(m <= 2, y - 1, y)
    era = yp / 400
    yoe = yp - era * 400
    mp = z3.If(m > 2, m - 3, m + 9)
    doy = (153 * mp + 2) / 5 + d - 1
    doe = yoe * 365 + yoe / 4 - yoe / 100 + doy
    return era * 146097 + doe - 719468


def subtraction_job(check, mirror, rb):
    import re
    import z3
    from mcheck import MirCrate, decide, model_value
    from mir.sym import Adt, En, Opaque, Ref, Sc, mk_int, none, some
    from mir.models import deref
    import feelvals as fv
    crate = MirCrate(mirror, ["feel"], overflow_checks=True)
    U = fv.Universe(mirror)
    check.bounds.append("M/datetime_subtraction: two date-and-time values, years 1..9999, any valid date / time / nanoseconds, zone Z or an explicit offset within +-14:59:59")
    check.assumptions.append("chrono contract: FixedOffset::east(off).ymd_opt(..).and_hms_nano_opt(..) is the instant (days from civil * 86400 + h*3600 + m*60 + s - off) s + n ns; "
                             "DateTime - DateTime is the difference of the instants; TimeDelta::num_nanoseconds is None when it does not fit i64")

    def fresh_dt(ex, st, hint):
        y = ex.fresh_int(st, "i32", hint + "_year")
        mo = ex.fresh_int(st, "u8", hint + "_month")
        d = ex.fresh_int(st, "u8", hint + "_day")
        h = ex.fresh_int(st, "u8", hint + "_hour")
        mi = ex.fresh_int(st, "u8", hint + "_minute")
        s_ = ex.fresh_int(st, "u8", hint + "_second")
        n = ex.fresh_int(st, "u64", hint + "_nano")
        off = ex.fresh_int(st, "i32", hint + "_offset")
        ex.assume(st, z3.And(U.cal_valid(y.e, mo.e, d.e), y.e >= 1, y.e <= 9999, h.e < 24, mi.e < 60, s_.e < 60, n.e < 10 ** 9, off.e >= -53999, off.e <= 53999))
        zone = En("FeelZone", z3.If(off.e == 0, z3.IntVal(0), z3.IntVal(2)), {"Utc": (), "Offset": (off,)})
        v = Adt("struct", "FeelDateTime", (Adt("struct", "FeelDate", (y, mo, d)), Adt("struct", "FeelTime", (h, mi, s_, n, zone))))
        inst = (days_from_civil(y.e, mo.e, d.e) * 86400 + h.e * 3600 + mi.e * 60 + s_.e - off.e) * 10 ** 9 + n.e
        fields = {hint + "_" + k: x.e for k, x in (("year", y), ("month", mo), ("day", d), ("hour", h), ("minute", mi), ("second", s_), ("nano", n), ("offset", off))}
        return v, inst, fields

    def m_dto(ex, st, callee, args, dest_ty):
        d, t, off = args
        y, mo, dd = [f.e for f in d.fields]
        h, mi, sec, n = [f.e for f in t.fields]
        okc = z3.And(U.cal_valid(y, mo, dd), y >= -262143, y <= 262142, h < 24, mi < 60, sec < 60, n < 2000000000, off.e > -86400, off.e < 86400)
        inst = (days_from_civil(y, mo, dd) * 86400 + h * 3600 + mi * 60 + sec - off.e) * 10 ** 9 + n
        yield st, En("Option", z3.If(okc, z3.IntVal(1), z3.IntVal(0)), {"None": (), "Some": (Opaque("DateTime", inst),)})

    def m_sub(ex, st, callee, args, dest_ty):
        yield st, Opaque("TimeDelta", z3.simplify(args[0].e - args[1].e))

    def m_num_ns(ex, st, callee, args, dest_ty):
        d = deref(ex, st, args[0]) if isinstance(args[0], Ref) else args[0]
        fits = z3.And(d.e >= -(2 ** 63), d.e <= 2 ** 63 - 1)
        yield st, En("Option", z3.If(fits, z3.IntVal(1), z3.IntVal(0)), {"None": (), "Some": (Sc(d.e, "i64"),)})
    MODELS = [(re.compile(r"^date_time_offset$"), m_dto),
              (re.compile(r"^<DateTime<FixedOffset> as Sub>::sub$|^<DateTime<FixedOffset> as Sub<DateTime<FixedOffset>>>::sub$"), m_sub),
              (re.compile(r"^(chrono::)?(TimeDelta|Duration)::num_nanoseconds$"), m_num_ns)]

    def setup(ex, st):
        a, ia, fa = fresh_dt(ex, st, "a")
        b, ib, fb = fresh_dt(ex, st, "b")
        inputs = dict(fa)
        inputs.update(fb)
        inputs["_diff"] = ia - ib
        return "subtract", [Ref(ex.new_cell(st, a, "a")), Ref(ex.new_cell(st, b, "b"))], inputs

    def post(ex, o, v):
        r = o.value
        res = [("the difference of two date-and-time values with explicit offsets is defined", r.disc == 1)]
        if "Some" in r.alts:
            res.append(("it is the exact distance of the two instants on the UTC time line, in nanoseconds", z3.Implies(r.disc == 1, r.alts["Some"][0].e == v["_diff"])))
        return res

    def lit(i, p):
        off = i[p + "_offset"]
        z = "Z" if off == 0 else "%s%02d:%02d%s" % ("-" if off < 0 else "+", abs(off) // 3600, abs(off) % 3600 // 60, (":%02d" % (abs(off) % 60)) if abs(off) % 60 else "")
        frac = (".%09d" % i[p + "_nano"]).rstrip("0").rstrip(".") if i[p + "_nano"] else ""
        return 'date and time("%04d-%02d-%02dT%02d:%02d:%02d%s%s")' % (i[p + "_year"], i[p + "_month"], i[p + "_day"], i[p + "_hour"], i[p + "_minute"], i[p + "_second"], frac, z)

    def py_instant(i, p):
        import datetime
        d = datetime.date(i[p + "_year"], i[p + "_month"], i[p + "_day"]).toordinal() - datetime.date(1970, 1, 1).toordinal()
        return (d * 86400 + i[p + "_hour"] * 3600 + i[p + "_minute"] * 60 + i[p + "_second"] - i[p + "_offset"]) * 10 ** 9 + i[p + "_nano"]

    def replay(i, rb):
        expr = "string(%s - %s)" % (lit(i, "a"), lit(i, "b"))
        _, out, _ = replay_call(rb, ["feel", expr])
        want = py_instant(i, "a") - py_instant(i, "b")
        txt = out[6:].strip().strip('"') if out.startswith("VALUE ") else out
        got = dt_duration_ns(txt) if out.startswith('VALUE "') else None
        return got != want, "%s -> %s (%s ns), the instants are %d ns apart" % (expr, txt[:80], got, want)

    def desc(m, v):
        return {k: model_value(m, x) for k, x in v.items() if not k.startswith("_")}

    def prefer(v):
        c = [v[p + "_nano"] == 0 for p in ("a", "b")] + [v[p + "_offset"] % 3600 == 0 for p in ("a", "b")]
        return z3.And(c)
    decide(check, crate, "datetime_subtraction", setup, post, replay, rb, enums={"FeelZone": {"Utc": 0, "Local": 1, "Offset": 2, "Zone": 3}}, models=MODELS, describe=desc,
           prefer=prefer, known_predicates=KNOWN_PRED, budget_s=600, min_paths=2, max_cex=3)


def kp_span(inputs):
    """KNOWN FINDING C15-subtraction-span: the two instants are more than i64::MAX nanoseconds (about 292 years) apart"""
    import z3
    d = inputs["_diff"]
    return z3.Or(d > 2 ** 63 - 1, d < -(2 ** 63))


KNOWN_PRED = {"C15-subtraction-span": kp_span}
