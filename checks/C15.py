"""C15 — calendar and time line (DESIGN §4 C15)."""
from vcommon import *

ENGINE = "K (Kani/CBMC over the compiled crate) + M (MIR -> SMT)"


def py_leap(y):
    return (y % 4 == 0 and y % 100 != 0) or y % 400 == 0


def py_last(y, m):
    return 30 if m in (4, 6, 9, 11) else (29 if py_leap(y) else 28) if m == 2 else 31


def py_valid(y, m, d):
    return -999999999 <= y <= 999999999 and 1 <= m <= 12 and 1 <= d <= py_last(y, m)


def py_months(a, b):
    total = 12 * (a[0] - b[0]) + (a[1] - b[1])
    if total > 0 or (total == 0 and a[2] >= b[2]):
        return total - 1 if a[2] < b[2] else total
    return total + 1 if b[2] < a[2] else total


def dec_date(vals):
    return dict(y=le_int(vals[0], True), m=le_int(vals[1]), d=le_int(vals[2]))


def replay_valid(i, rb):
    rc, out, _ = replay_call(rb, ["is_valid_date", i["y"], i["m"], i["d"]])
    want = py_valid(i["y"], i["m"], i["d"])
    return (out.strip() != str(want).lower()), "FeelDate::new_opt(%d,%d,%d).is_some() = %s, calendar says %s" % (i["y"], i["m"], i["d"], out, want)


def dec_two_dates(vals):
    return dict(a=[le_int(vals[0], True), le_int(vals[1]), le_int(vals[2])], b=[le_int(vals[3], True), le_int(vals[4]), le_int(vals[5])])


def replay_ym(i, rb):
    a, b = i["a"], i["b"]
    _, ab, _ = replay_call(rb, ["ym_duration"] + a + b)
    _, ba, _ = replay_call(rb, ["ym_duration"] + b + a)
    want = py_months(a, b)
    bad = (ab.strip() != str(want)) or (ba.strip() != str(-want))
    return bad, "a=%s b=%s: a.ym_duration(b)=%s b.ym_duration(a)=%s, whole months a-b = %d" % (a, b, ab, ba, want)


def run(check, mirror, tier):
    rb = replay_build(mirror)
    kf = prepare_k_file(check, mirror, "feel_date.rs")
    mirror.inject("feel/src/temporal/date.rs", kf, "verif_k")
    check.functions += [dict(fn=f, file="feel/src/temporal/date.rs", sha=file_hash(mirror.path("feel/src/temporal/date.rs")))
                        for f in ("is_valid_date", "is_leap_year", "last_day_of_month", "FeelDate::new_opt", "FeelDate::ym_duration")]
    check.bounds += ["K/k_is_valid_date: all (i32,u8,u8), unwind 4 with unwinding assertions",
                     "K/k_ym_duration: all pairs of calendar-valid dates, full i32 year width"]
    specs = [
        dict(harness="k_is_valid_date", timeout=600, unwind=4, decode=dec_date, replay=replay_valid),
        dict(harness="k_ym_duration", timeout=600, unwind=4, decode=dec_two_dates, replay=replay_ym),
    ]
    run_k(check, mirror, "dmntk-feel", specs, rb=rb)
