"""C15 — calendar and time line (DESIGN §4 C15)."""
from vcommon import *

ENGINE = "K (Kani/CBMC over the compiled crate) + M (MIR -> SMT)"


def py_leap(y):
    return (y % 4 == 0 and y % 100 != 0) or y % 400 == 0


def py_last(y, m):
    return 30 if m in (4, 6, 9, 11) else (29 if py_leap(y) else 28) if m == 2 else 31


def py_valid(y, m, d):
    return -999999999 <= y <= 999999999 and 1 <= m <= 12 and 1 <= d <= py_last(y, m)


def py_months(a, b):
    total = 12 * (a[0] - b[0]) + (a[1] - b[1])
    if total > 0 or (total == 0 and a[2] >= b[2]):
        return total - 1 if a[2] < b[2] else total
    return total + 1 if b[2] < a[2] else total


def dec_date(vals):
    return dict(y=le_int(vals[0], True), m=le_int(vals[1]), d=le_int(vals[2]))


def replay_valid(i, rb):
    rc, out, _ = replay_call(rb, ["is_valid_date", i["y"], i["m"], i["d"]])
    want = py_valid(i["y"], i["m"], i["d"])
    return (out.strip() != str(want).lower()), "FeelDate::new_opt(%d,%d,%d).is_some() = %s, calendar says %s" % (i["y"], i["m"], i["d"], out, want)


def dec_two_dates(vals):
    return dict(a=[le_int(vals[0], True), le_int(vals[1]), le_int(vals[2])], b=[le_int(vals[3], True), le_int(vals[4]), le_int(vals[5])])


def replay_ym(i, rb):
    a, b = i["a"], i["b"]
    _, ab, _ = replay_call(rb, ["ym_duration"] + a + b)
    _, ba, _ = replay_call(rb, ["ym_duration"] + b + a)
    want = py_months(a, b)
    bad = (ab.strip() != str(want)) or (ba.strip() != str(-want))
    return bad, "a=%s b=%s: a.ym_duration(b)=%s b.ym_duration(a)=%s, whole months a-b = %d" % (a, b, ab, ba, want)


def run(check, mirror, tier):
    rb = replay_build(mirror)
    kf = prepare_k_file(check, mirror, "feel_date.rs")
    mirror.inject("feel/src/temporal/date.rs", kf, "verif_k")
    check.functions += [dict(fn=f, file="feel/src/temporal/date.rs", sha=file_hash(mirror.path("feel/src/temporal/date.rs")))
                        for f in ("is_valid_date", "is_leap_year", "last_day_of_month", "FeelDate::new_opt", "FeelDate::ym_duration")]
    check.bounds += ["K/k_is_valid_date: all (i32,u8,u8), unwind 4 with unwinding assertions",
                     "K/k_ym_duration: all pairs of calendar-valid dates, full i32 year width"]
    specs = [
        dict(harness="k_is_valid_date", timeout=600, unwind=4, decode=dec_date, replay=replay_valid),
        dict(harness="k_ym_duration", timeout=600, unwind=4, decode=dec_two_dates, replay=replay_ym),
    ]
    run_k(check, mirror, "dmntk-feel", specs, rb=rb)

    # --- M: date from three numbers (narrowing conversions) -------------------------------------------------------------------
    import re
    import z3
    from mcheck import MirCrate, decide, run_parallel, model_value
    from mir.sym import Adt, En, Opaque, Ref, Sc
    import numvals as nv
    import feelvals as fv
    crate = MirCrate(mirror, ["feel", "feel-number"], overflow_checks=True)
    U = fv.Universe(mirror)
    check.bounds.append("M/date_from_numbers: year, month, day any FEEL numbers (integers of any magnitude and non-integers)")
    check.assumptions.append("decQuadToUInt32/ToInt32: value rounded to an integer, 0 when out of range (dec.rs contract); is_valid_date by its contract (K/k_is_valid_date)")

    def m_is_valid_date_contract(ex, st, callee, args, dest_ty):
        from mir.sym import mk_bool
        yield st, mk_bool(U.cal_valid(args[0].e, args[1].e, args[2].e))
    from mir.models import m_format_stub
    MODELS = [(re.compile(r"^is_valid_date$"), m_is_valid_date_contract),
              (re.compile(r"^format$|^std::fmt::format$|^alloc::fmt::format$"), m_format_stub)] + nv.NUM_MODELS

    def setup(ex, st):
        ns = [nv.fresh_number(ex, st, h) for h in ("year", "month", "day")]
        inputs = {}
        for h, n in zip(("year", "month", "day"), ns):
            inputs[h + "_floor"], inputs[h + "_isint"] = n.e, n.info["int"]
        return "<FeelDate as TryFrom<(FeelNumber, FeelNumber, FeelNumber)>>::try_from", [Adt("tuple", None, ns)], inputs

    def post(ex, o, v):
        allint = z3.And(v["year_isint"], v["month_isint"], v["day_isint"])
        y, m, d = v["year_floor"], v["month_floor"], v["day_floor"]
        valid = z3.And(allint, U.cal_valid(y, m, d))
        r = o.value
        res = [("date(y, m, d) is accepted iff the three numbers are integers forming a calendar date", (r.disc == 0) == valid)]
        if "Ok" in r.alts:
            f = r.alts["Ok"][0].fields
            res.append(("the date has exactly the given components", z3.Implies(r.disc == 0, z3.And(f[0].e == y, f[1].e == m, f[2].e == d))))
        return res

    def replay(i, rb):
        def t(h):
            return str(i[h + "_floor"]) if i[h + "_isint"] else "%d.5" % i[h + "_floor"]
        expr = "date(%s,%s,%s)" % (t("year"), t("month"), t("day"))
        _, out, _ = replay_call(rb, ["feel", expr.replace("(-", "((0-").replace(",-", ",(0-") if False else expr])
        ok_ = i["year_isint"] and i["month_isint"] and i["day_isint"] and py_valid(i["year_floor"], i["month_floor"], i["day_floor"])
        got_ok = out.startswith("VALUE ") and not out.startswith("VALUE null")
        bad = got_ok != ok_
        if ok_ and got_ok:
            y = i["year_floor"]
            want = "%s%s-%02d-%02d" % ("-" if y < 0 else "", str(abs(y)).rjust(4, "0"), i["month_floor"], i["day_floor"])
            bad = out[6:] != want
        return bad, "%s -> %s (a calendar date with integer components: %s)" % (expr, out[:60], ok_)

    decide(check, crate, "date_from_numbers", setup, post, replay, rb, models=MODELS, budget_s=600, min_paths=2, timeout_ms=20000,
           describe=lambda m, inputs: {k: model_value(m, x) for k, x in inputs.items()},
           prefer=lambda inp: z3.And(inp["year_floor"] >= 1000, inp["year_floor"] <= 9999, inp["month_floor"] >= -1000, inp["month_floor"] <= 1000,
                                     inp["day_floor"] >= -1000, inp["day_floor"] <= 1000))
