"""C15 — the UTC time line with named zones, comparison, weekday and duration components (DESIGN §4 C15).

`compare`, `subtract`, `weekday` and `feel_time_offset` of feel/src/temporal/mod.rs resolve the UTC offset of each operand in
four hand-copied blocks (Utc / Local / Offset / named zone) before they hand the wall-clock fields to chrono. Here the zone
database and the local-time lookup are uninterpreted functions of exactly the arguments the operand itself supplies; the solver
decides that every operand is resolved with ITS OWN zone, date and time (a slip between the copies makes the two sides of the
equation apply the function to different arguments, which is satisfiable). Explicit offsets and Z are exact."""
import re

from vcommon import *

WARSAW = 77  # identity of the zone name used for replayable witnesses ("Europe/Warsaw")


def days_from_civil(y, m, d):
    import z3
    yp = z3.If(m <= 2, y - 1, y)
    era = yp / 400
    yoe = yp - era * 400
    mp = z3.If(m > 2, m - 3, m + 9)
    doy = (153 * mp + 2) / 5 + d - 1
    doe = yoe * 365 + yoe / 4 - yoe / 100 + doy
    return era * 146097 + doe - 719468


def warsaw_2021(m, d, h):
    """(UTC offset, defined) of Europe/Warsaw in 2021 at a wall-clock time (z3 terms): clocks went forward on 03-28 at 02:00 (the hour 02 does not
    exist) and back on 10-31 at 03:00 (the hour 02 exists twice; the earlier, summer-time instant is taken)"""
    import z3
    after_start = z3.Or(m > 3, z3.And(m == 3, d > 28), z3.And(m == 3, d == 28, h >= 3))
    before_end = z3.Or(m < 10, z3.And(m == 10, d < 31), z3.And(m == 10, d == 31, h <= 2))
    return z3.If(z3.And(after_start, before_end), z3.IntVal(7200), z3.IntVal(3600)), z3.Not(z3.And(m == 3, d == 28, h == 2))


def py_warsaw_2021(m, d, h):
    summer = (m > 3 or (m == 3 and d > 28) or (m == 3 and d == 28 and h >= 3)) and (m < 10 or (m == 10 and d < 31) or (m == 10 and d == 31 and h <= 2))
    return 7200 if summer else 3600


class TimeLine:
    """symbolic date-and-time operands + the chrono / zone contracts shared by the four obligations"""

    def __init__(self, U):
        import z3
        self.U = U
        I = z3.IntSort()
        self.zoff = z3.Function("zone_offset", *([I] * 9))      # (zone id, y, m, d, h, mi, s, n) -> seconds east
        self.zdef = z3.Function("zone_offset_defined", *([I] * 8 + [z3.BoolSort()]))
        self.loff = z3.Function("local_offset", *([I] * 8))
        self.ldef = z3.Function("local_offset_defined", *([I] * 7 + [z3.BoolSort()]))
        self.apps = []   # (kind, args, value term) of every application made by the code under test and by the oracle

    # ---- inputs
    def fresh_dt(self, ex, st, hint, kinds=("Utc", "Local", "Offset", "Zone")):
        import z3
        from mir.sym import Adt, En, StrV
        U = self.U
        y = ex.fresh_int(st, "i32", hint + "_year")
        mo = ex.fresh_int(st, "u8", hint + "_month")
        d = ex.fresh_int(st, "u8", hint + "_day")
        h = ex.fresh_int(st, "u8", hint + "_hour")
        mi = ex.fresh_int(st, "u8", hint + "_minute")
        s_ = ex.fresh_int(st, "u8", hint + "_second")
        n = ex.fresh_int(st, "u64", hint + "_nano")
        off = ex.fresh_int(st, "i32", hint + "_offset")
        kind = ex.fresh_int(st, "u8", hint + "_zonekind")
        zid = ex.fresh_int(st, "u8", hint + "_zoneid")
        idx = {"Utc": 0, "Local": 1, "Offset": 2, "Zone": 3}
        ex.assume(st, z3.And(U.cal_valid(y.e, mo.e, d.e), y.e >= 1, y.e <= 9999, h.e < 24, mi.e < 60, s_.e < 60, n.e < 10 ** 9, off.e >= -53999, off.e <= 53999,
                             z3.Or([kind.e == idx[k] for k in kinds])))
        zone = En("FeelZone", kind.e, {"Utc": (), "Local": (), "Offset": (off,), "Zone": (StrV(None, id=zid.e),)})
        v = Adt("struct", "FeelDateTime", (Adt("struct", "FeelDate", (y, mo, d)), Adt("struct", "FeelTime", (h, mi, s_, n, zone))))
        wall = (y.e, mo.e, d.e, h.e, mi.e, s_.e, n.e)
        zo, zd = self.zoff(zid.e, *wall), self.zdef(zid.e, *wall)
        lo, ld = self.loff(*wall), self.ldef(*wall)
        self.apps.append(("zone", (zid.e,) + wall, zo, zd))
        ex.assume(st, z3.And(zo > -86400, zo < 86400, lo > -86400, lo < 86400))
        eff = z3.If(kind.e == 0, z3.IntVal(0), z3.If(kind.e == 1, lo, z3.If(kind.e == 2, off.e, zo)))
        defined = z3.If(kind.e == 1, ld, z3.If(kind.e == 3, zd, z3.BoolVal(True)))
        inst = (days_from_civil(y.e, mo.e, d.e) * 86400 + h.e * 3600 + mi.e * 60 + s_.e - eff) * 10 ** 9 + n.e
        fields = {hint + "_" + k: x.e for k, x in (("year", y), ("month", mo), ("day", d), ("hour", h), ("minute", mi), ("second", s_), ("nano", n), ("offset", off),
                                                   ("zonekind", kind), ("zoneid", zid))}
        return v, dict(inst=inst, defined=defined, eff=eff, wall=wall, kind=kind.e, zid=zid.e), fields

    # ---- contracts
    def models(self):
        import z3
        from mir.sym import En, Opaque, Ref, Sc, mk_int, ordering
        from mir.models import deref
        U = self

        def tup(ex, st, a):
            a = deref(ex, st, a) if isinstance(a, Ref) else a
            return [f.e for f in a.fields]

        def m_zone(ex, st, callee, args, dest_ty):
            z = deref(ex, st, args[0]) if isinstance(args[0], Ref) else args[0]
            zid = z.attrs["id"]
            a = (zid,) + tuple(tup(ex, st, args[1])) + tuple(tup(ex, st, args[2]))
            v, dfd = U.zoff(*a), U.zdef(*a)
            U.apps.append(("zone", a, v, dfd))
            ex.assume(st, z3.And(v > -86400, v < 86400))
            yield st, En("Option", z3.If(dfd, z3.IntVal(1), z3.IntVal(0)), {"None": (), "Some": (Sc(v, "i32"),)})

        def m_local(ex, st, callee, args, dest_ty):
            a = tuple(tup(ex, st, args[0])) + tuple(tup(ex, st, args[1]))
            v, dfd = U.loff(*a), U.ldef(*a)
            ex.assume(st, z3.And(v > -86400, v < 86400))
            yield st, En("Option", z3.If(dfd, z3.IntVal(1), z3.IntVal(0)), {"None": (), "Some": (Sc(v, "i32"),)})

        def m_dto(ex, st, callee, args, dest_ty):
            y, mo, dd = tup(ex, st, args[0])
            h, mi, sec, n = tup(ex, st, args[1])
            off = args[2]
            okc = z3.And(U.U.cal_valid(y, mo, dd), y >= -262143, y <= 262142, h < 24, mi < 60, sec < 60, n < 2000000000, off.e > -86400, off.e < 86400)
            inst = (days_from_civil(y, mo, dd) * 86400 + h * 3600 + mi * 60 + sec - off.e) * 10 ** 9 + n
            wd = (days_from_civil(y, mo, dd) + 3) % 7   # 1970-01-01 was a Thursday; Monday = 0
            yield st, En("Option", z3.If(okc, z3.IntVal(1), z3.IntVal(0)), {"None": (), "Some": (Opaque("DateTime", inst, dict(weekday=wd)),)})

        def val(ex, st, a):
            return deref(ex, st, a) if isinstance(a, Ref) else a

        def m_sub(ex, st, callee, args, dest_ty):
            yield st, Opaque("TimeDelta", z3.simplify(val(ex, st, args[0]).e - val(ex, st, args[1]).e))

        def m_cmp(ex, st, callee, args, dest_ty):
            a, b = val(ex, st, args[0]).e, val(ex, st, args[1]).e
            yield st, ordering(z3.If(a < b, z3.IntVal(-1), z3.If(a == b, z3.IntVal(0), z3.IntVal(1))))

        def m_num_ns(ex, st, callee, args, dest_ty):
            d = val(ex, st, args[0])
            fits = z3.And(d.e >= -(2 ** 63), d.e <= 2 ** 63 - 1)
            yield st, En("Option", z3.If(fits, z3.IntVal(1), z3.IntVal(0)), {"None": (), "Some": (Sc(d.e, "i64"),)})

        def m_weekday(ex, st, callee, args, dest_ty):
            yield st, Opaque("Weekday", val(ex, st, args[0]).info["weekday"])

        def m_from_monday(ex, st, callee, args, dest_ty):
            yield st, Sc(val(ex, st, args[0]).e + 1, "u32")
        return [(re.compile(r"^get_zone_offset$"), m_zone), (re.compile(r"^get_local_offset$"), m_local), (re.compile(r"^date_time_offset$"), m_dto),
                (re.compile(r"^<DateTime<FixedOffset> as Sub>::sub$|^<DateTime<FixedOffset> as Sub<DateTime<FixedOffset>>>::sub$"), m_sub),
                (re.compile(r"^<DateTime<FixedOffset> as Ord>::cmp$|^<DateTime<FixedOffset> as PartialOrd>::partial_cmp$"), m_cmp),
                (re.compile(r"^(chrono::)?(TimeDelta|Duration)::num_nanoseconds$"), m_num_ns),
                (re.compile(r"^<DateTime<FixedOffset> as Datelike>::weekday$"), m_weekday),
                (re.compile(r"^(chrono::)?Weekday::number_from_monday$"), m_from_monday)]

    # ---- replayable witnesses: zone = Europe/Warsaw in 2021 away from the transition nights; no local zone
    def prefer(self, v, names):
        import z3
        c = []
        for p in names:
            c += [v[p + "_nano"] == 0, v[p + "_offset"] % 3600 == 0, v[p + "_zonekind"] != 1, v[p + "_zoneid"] == WARSAW, v[p + "_year"] >= 1900, v[p + "_year"] <= 2100,
                  z3.Implies(v[p + "_zonekind"] == 3, z3.And(v[p + "_year"] == 2021, z3.Not(z3.And(v[p + "_hour"] == 2, z3.Or(z3.And(v[p + "_month"] == 3, v[p + "_day"] == 28),
                                                                                                                            z3.And(v[p + "_month"] == 10, v[p + "_day"] == 31))))))]
        for kind, a, val_, dfd in self.apps:
            if kind == "zone":
                w_off, w_def = warsaw_2021(a[2], a[3], a[4])
                c.append(z3.Implies(z3.And(a[0] == WARSAW, a[1] == 2021), z3.And(dfd == w_def, val_ == w_off)))
        return z3.And(c)


def lit(i, p):
    k = i[p + "_zonekind"]
    off = i[p + "_offset"]
    if k == 0:
        z = "Z"
    elif k == 1:
        z = ""
    elif k == 2:
        z = "%s%02d:%02d%s" % ("-" if off < 0 else "+", abs(off) // 3600, abs(off) % 3600 // 60, (":%02d" % (abs(off) % 60)) if abs(off) % 60 else "")
    else:
        z = "@Europe/Warsaw"
    frac = (".%09d" % i[p + "_nano"]).rstrip("0").rstrip(".") if i[p + "_nano"] else ""
    return 'date and time("%04d-%02d-%02dT%02d:%02d:%02d%s%s")' % (i[p + "_year"], i[p + "_month"], i[p + "_day"], i[p + "_hour"], i[p + "_minute"], i[p + "_second"], frac, z)


def replayable(i, names):
    """the native replay knows Z, explicit offsets and Europe/Warsaw in 2021 (but for the skipped and the repeated hour)"""
    for p in names:
        k = i[p + "_zonekind"]
        if k == 1:
            return False
        if k == 3 and not (i[p + "_zoneid"] == WARSAW and i[p + "_year"] == 2021 and not (i[p + "_hour"] == 2 and (i[p + "_month"], i[p + "_day"]) in ((3, 28), (10, 31)))):
            return False
    return True


def py_offset(i, p):
    k = i[p + "_zonekind"]
    return 0 if k == 0 else i[p + "_offset"] if k == 2 else py_warsaw_2021(i[p + "_month"], i[p + "_day"], i[p + "_hour"])


def py_instant(i, p):
    import datetime
    d = datetime.date(i[p + "_year"], i[p + "_month"], i[p + "_day"]).toordinal() - datetime.date(1970, 1, 1).toordinal()
    return (d * 86400 + i[p + "_hour"] * 3600 + i[p + "_minute"] * 60 + i[p + "_second"] - py_offset(i, p)) * 10 ** 9 + i[p + "_nano"]


def desc(m, v):
    from mcheck import model_value
    return {k: model_value(m, x) for k, x in v.items() if not k.startswith("_")}


ZONE_ENUM = {"FeelZone": {"Utc": 0, "Local": 1, "Offset": 2, "Zone": 3}}
CONTRACT = ("chrono contract: FixedOffset::east(off).ymd_opt(..).and_hms_nano_opt(..) is the instant (days from civil * 86400 + h*3600 + m*60 + s - off) s + n ns; "
            "DateTime - DateTime / cmp are the difference / order of the instants; TimeDelta::num_nanoseconds is None when it does not fit i64; weekday() is the "
            "weekday of the local calendar date; get_zone_offset / get_local_offset are UNINTERPRETED functions (partial, within +-24 h) of the zone name and the "
            "wall-clock fields they are given - the zone database itself (chrono-tz) is not decided")


def jobs(check, mirror, rb, known_pred):
    import z3
    from mcheck import MirCrate, decide
    from mir.sym import Ref
    import feelvals as fv
    crate = MirCrate(mirror, ["feel"], overflow_checks=True)
    U = fv.Universe(mirror)
    check.bounds.append("M/datetime_{subtraction,compare,weekday,time_offset}: date-and-time values with years 1..9999, any valid date / time / nanoseconds, zone Z, local, "
                        "an explicit offset within +-14:59:59 or a named zone (uninterpreted offset function)")
    check.assumptions.append(CONTRACT)

    # ---------------------------------------------------------------- subtraction
    def sub_job(c):
        T = TimeLine(U)

        def setup(ex, st):
            a, ia, fa = T.fresh_dt(ex, st, "a")
            b, ib, fb = T.fresh_dt(ex, st, "b")
            inputs = dict(fa)
            inputs.update(fb)
            inputs["_diff"] = ia["inst"] - ib["inst"]
            inputs["_defined"] = z3.And(ia["defined"], ib["defined"])
            return "subtract", [Ref(ex.new_cell(st, a, "a")), Ref(ex.new_cell(st, b, "b"))], inputs

        def post(ex, o, v):
            r = o.value
            res = [("the difference of two date-and-time values is defined whenever both offsets are", (r.disc == 1) == v["_defined"])]
            if "Some" in r.alts:
                res.append(("it is the exact distance of the two instants on the UTC time line, each operand resolved with its own zone, date and time",
                            z3.Implies(r.disc == 1, r.alts["Some"][0].e == v["_diff"])))
            return res

        def replay(i, rb):
            if not replayable(i, ("a", "b")):
                return False, "witness needs a zone the replay does not know"
            expr = "string(%s - %s)" % (lit(i, "a"), lit(i, "b"))
            _, out, _ = replay_call(rb, ["feel", expr])
            want = py_instant(i, "a") - py_instant(i, "b")
            txt = out[6:].strip().strip('"') if out.startswith("VALUE ") else out
            got = dt_duration_ns(txt) if out.startswith('VALUE "') else None
            return got != want, "%s -> %s (%s ns), the instants are %d ns apart" % (expr, txt[:80], got, want)
        decide(c, crate, "datetime_subtraction", setup, post, replay, rb, enums=ZONE_ENUM, models=T.models(), describe=desc,
               prefer=lambda v: T.prefer(v, ("a", "b")), known_predicates=known_pred, budget_s=600, min_paths=2, max_cex=3)

    # ---------------------------------------------------------------- comparison
    def cmp_job(c):
        T = TimeLine(U)

        def setup(ex, st):
            a, ia, fa = T.fresh_dt(ex, st, "a")
            b, ib, fb = T.fresh_dt(ex, st, "b")
            inputs = dict(fa)
            inputs.update(fb)
            inputs["_diff"] = ia["inst"] - ib["inst"]
            inputs["_defined"] = z3.And(ia["defined"], ib["defined"])
            return "compare", [Ref(ex.new_cell(st, a, "a")), Ref(ex.new_cell(st, b, "b"))], inputs

        def post(ex, o, v):
            r = o.value
            res = [("two date-and-time values are comparable whenever both offsets are defined", (r.disc == 1) == v["_defined"])]
            if "Some" in r.alts:
                od = r.alts["Some"][0].disc
                res.append(("they compare as their instants on the UTC time line do", z3.Implies(r.disc == 1, od == z3.If(v["_diff"] < 0, -1, z3.If(v["_diff"] == 0, 0, 1)))))
            return res

        def replay(i, rb):
            if not replayable(i, ("a", "b")):
                return False, "witness needs a zone the replay does not know"
            d = py_instant(i, "a") - py_instant(i, "b")
            bad, seen = False, []
            # `<` and `>` on date-and-time values are not implemented by the evaluator (null): the order is observed through equality and half-open ranges
            lo, hi = 'date and time("0001-01-01T00:00:00Z")', 'date and time("9999-12-31T23:59:59Z")'
            for what, expr, want in (("=", "%s = %s" % (lit(i, "a"), lit(i, "b")), d == 0),
                                     ("before", "%s in [%s..%s)" % (lit(i, "a"), lo, lit(i, "b")), d < 0),
                                     ("after", "%s in (%s..%s]" % (lit(i, "a"), lit(i, "b"), hi), d > 0)):
                _, out, _ = replay_call(rb, ["feel", expr])
                seen.append("%s %s" % (what, out[6:20].strip()))
                bad = bad or out.strip() != "VALUE " + str(want).lower()
            return bad, "%s ? %s: %s; the instants are %d ns apart" % (lit(i, "a"), lit(i, "b"), ", ".join(seen), d)
        decide(c, crate, "datetime_compare", setup, post, replay, rb, enums=dict(ZONE_ENUM, Ordering={"Less": -1, "Equal": 0, "Greater": 1}), models=T.models(), describe=desc,
               prefer=lambda v: T.prefer(v, ("a", "b")), budget_s=600, min_paths=2, max_cex=3)

    # ---------------------------------------------------------------- weekday, time offset
    def weekday_job(c):
        T = TimeLine(U)

        def setup(ex, st):
            a, ia, fa = T.fresh_dt(ex, st, "a")
            inputs = dict(fa)
            inputs["_defined"] = ia["defined"]
            inputs["_weekday"] = (days_from_civil(*ia["wall"][:3]) + 3) % 7 + 1
            return "weekday", [Ref(ex.new_cell(st, a, "a"))], inputs

        def post(ex, o, v):
            r = o.value
            res = [("the weekday of a date-and-time value is defined whenever its offset is", (r.disc == 1) == v["_defined"])]
            if "Some" in r.alts:
                res.append(("it is the weekday of the written calendar date (Monday = 1)", z3.Implies(r.disc == 1, r.alts["Some"][0].e == v["_weekday"])))
            return res

        def replay(i, rb):
            import datetime
            if not replayable(i, ("a",)):
                return False, "witness needs a zone the replay does not know"
            _, out, _ = replay_call(rb, ["feel", lit(i, "a") + ".weekday"])
            want = datetime.date(i["a_year"], i["a_month"], i["a_day"]).isoweekday()
            return out.strip() != "VALUE %d" % want, "%s.weekday -> %s, the calendar says %d" % (lit(i, "a"), out[:40], want)
        decide(c, crate, "datetime_weekday", setup, post, replay, rb, enums=ZONE_ENUM, models=T.models(), describe=desc,
               prefer=lambda v: T.prefer(v, ("a",)), budget_s=300, min_paths=2, max_cex=2)

    def offset_job(c):
        T = TimeLine(U)

        def setup(ex, st):
            a, ia, fa = T.fresh_dt(ex, st, "a")
            inputs = dict(fa)
            inputs["_defined"] = z3.And(ia["defined"], ia["kind"] != 1)
            inputs["_eff"] = ia["eff"]
            return "feel_time_offset", [Ref(ex.new_cell(st, a, "a"))], inputs

        def post(ex, o, v):
            r = o.value
            res = [("the time offset property is defined for Z, explicit offsets and resolvable named zones, and undefined for local times", (r.disc == 1) == v["_defined"])]
            if "Some" in r.alts:
                res.append(("it is the offset of the value's own zone at the value's own date and time", z3.Implies(r.disc == 1, r.alts["Some"][0].e == v["_eff"])))
            return res

        def replay(i, rb):
            if not replayable(i, ("a",)):
                return False, "witness needs a zone the replay does not know"
            _, out, _ = replay_call(rb, ["feel", "string(%s.time offset)" % lit(i, "a")])
            want = py_offset(i, "a") * 10 ** 9
            txt = out[6:].strip().strip('"') if out.startswith("VALUE ") else out
            got = dt_duration_ns(txt) if out.startswith('VALUE "') else None
            return got != want, "%s.time offset -> %s, the zone is %d s east of UTC then" % (lit(i, "a"), txt[:40], want // 10 ** 9)
        decide(c, crate, "datetime_time_offset", setup, post, replay, rb, enums=ZONE_ENUM, models=T.models(), describe=desc,
               prefer=lambda v: T.prefer(v, ("a",)), budget_s=300, min_paths=2, max_cex=2)

    # ---------------------------------------------------------------- duration components
    def dt_components_job(c):
        from mir.sym import Adt

        def setup(ex, st):
            n = ex.fresh_int(st, "i128", "nanos")
            # what literals, date-time differences and sums of a few of them can hold: |n| < 2^100 (a literal's day count is a u64)
            ex.assume(st, z3.And(n.e > -(2 ** 100), n.e < 2 ** 100))
            cell = ex.new_cell(st, Adt("struct", "FeelDaysAndTimeDuration", (n,)), "d")

            def runner(ex2, st2):
                outs = {}

                def go(names, stx):
                    if not names:
                        from mir.sym import Outcome
                        yield Outcome("return", stx, dict(outs))
                        return
                    for o in ex2.run("FeelDaysAndTimeDuration::" + names[0], [Ref(cell)], stx):
                        if o.kind != "return":
                            yield o
                            continue
                        outs[names[0]] = o.value
                        yield from go(names[1:], o.st)
                yield from go(["get_days", "get_hours", "get_minutes", "get_seconds", "as_seconds"], st2)
            return runner, [], {"nanos": n.e}

        def post(ex, o, v):
            r = o.value
            d, h, mi, s_, tot = [r[k].e for k in ("get_days", "get_hours", "get_minutes", "get_seconds", "as_seconds")]
            mag = z3.If(v["nanos"] < 0, -v["nanos"], v["nanos"])
            secs = d * 86400 + h * 3600 + mi * 60 + s_
            res = [("hours < 24, minutes < 60, seconds < 60, none negative", z3.And(d >= 0, h >= 0, h < 24, mi >= 0, mi < 60, s_ >= 0, s_ < 60)),
                   ("days, hours, minutes and seconds add up to the whole seconds of the duration's length",
                    z3.Implies(mag < 2 ** 63 * 86400 * 10 ** 9, z3.And(secs * 10 ** 9 <= mag, mag < (secs + 1) * 10 ** 9))),
                   ("the signed number of whole seconds has the duration's sign and magnitude; a length beyond the result type is clamped, never wrapped around into another length",
                    tot == z3.If(v["nanos"] < 0, -1, 1) * z3.If(mag / 10 ** 9 > 2 ** 63 - 1, z3.If(v["nanos"] < 0, z3.IntVal(2 ** 63), z3.IntVal(2 ** 63 - 1)), mag / 10 ** 9))]
            return res

        def replay(i, rb):
            n = i["nanos"]
            mag = abs(n)
            if mag >= 2 ** 64 * 86400 * 10 ** 9:
                return False, "beyond what a literal can denote"
            lit_ = "%sP%dDT%dH%dM%d.%09dS" % ("-" if n < 0 else "", mag // (86400 * 10 ** 9), mag // (3600 * 10 ** 9) % 24, mag // (60 * 10 ** 9) % 60, mag // 10 ** 9 % 60, mag % 10 ** 9)
            got = []
            for prop in ("days", "hours", "minutes", "seconds"):
                _, out, _ = replay_call(rb, ["feel", 'duration("%s").%s' % (lit_, prop)])
                got.append(out[6:].strip() if out.startswith("VALUE ") else out[:30])
            want = [mag // (86400 * 10 ** 9), mag // (3600 * 10 ** 9) % 24, mag // (60 * 10 ** 9) % 60, mag // 10 ** 9 % 60]
            bad = [g.lstrip("-") for g in got] != [str(w) for w in want]
            note = ""
            if mag // 10 ** 9 > 53999:
                # the whole seconds are observable through time(h, m, s, offset): an offset beyond +-14:59:59 is no offset
                _, out, _ = replay_call(rb, ["feel", 'time(10, 0, 0, duration("%s"))' % lit_])
                note = '; time(10, 0, 0, duration("%s")) -> %s (no valid offset: null)' % (lit_, out[:40])
                bad = bad or not out.startswith("VALUE null")
            return bad, 'duration("%s") has days, hours, minutes, seconds %s; its length says %s%s' % (lit_, got, want, note)
        decide(c, crate, "dt_duration_components", setup, post, replay, rb, budget_s=300, min_paths=1, max_cex=2,
               prefer=lambda v: [z3.And(v["nanos"] % 10 ** 9 == 0, v["nanos"] > -(10 ** 16), v["nanos"] < 10 ** 16),
                                 z3.Or([v["nanos"] == (2 ** 64 * k + 3600) * 10 ** 9 for k in (1, 2, -1)]), z3.And(v["nanos"] % 10 ** 9 == 0, v["nanos"] > 0)])

    def ym_components_job(c):
        from mir.sym import Adt

        def setup(ex, st):
            n = ex.fresh_int(st, "i64", "months")
            cell = ex.new_cell(st, Adt("struct", "FeelYearsAndMonthsDuration", (n,)), "d")

            def runner(ex2, st2):
                from mir.sym import Outcome
                for o1 in ex2.run("FeelYearsAndMonthsDuration::years", [Ref(cell)], st2):
                    if o1.kind != "return":
                        yield o1
                        continue
                    for o2 in ex2.run("FeelYearsAndMonthsDuration::months", [Ref(cell)], o1.st):
                        if o2.kind != "return":
                            yield o2
                            continue
                        for o3 in ex2.run("FeelYearsAndMonthsDuration::as_months", [Ref(cell)], o2.st):
                            if o3.kind != "return":
                                yield o3
                                continue
                            yield Outcome("return", o3.st, dict(years=o1.value, months=o2.value, total=o3.value))
            return runner, [], {"months": n.e}

        def post(ex, o, v):
            y, m, t = o.value["years"].e, o.value["months"].e, o.value["total"].e
            return [("years * 12 + months is the duration's length in months", z3.And(y * 12 + m == v["months"], t == v["months"])),
                    ("|months| < 12 and neither component has the opposite sign of the duration",
                     z3.And(m > -12, m < 12, z3.Implies(v["months"] >= 0, z3.And(y >= 0, m >= 0)), z3.Implies(v["months"] <= 0, z3.And(y <= 0, m <= 0))))]

        def replay(i, rb):
            n = i["months"]
            lit_ = "%sP%dY%dM" % ("-" if n < 0 else "", abs(n) // 12, abs(n) % 12)
            got = []
            for prop in ("years", "months"):
                _, out, _ = replay_call(rb, ["feel", 'duration("%s").%s' % (lit_, prop)])
                got.append(out[6:].strip() if out.startswith("VALUE ") else out[:30])
            sgn = -1 if n < 0 else 1
            want = [str(sgn * (abs(n) // 12)), str(sgn * (abs(n) % 12))]
            return got != want, 'duration("%s") has years, months %s; its length says %s' % (lit_, got, want)
        decide(c, crate, "ym_duration_components", setup, post, replay, rb, budget_s=300, min_paths=1, max_cex=2,
               prefer=lambda v: z3.And(v["months"] > -100000, v["months"] < 100000))

    return [sub_job, cmp_job, weekday_job, offset_job, dt_components_job, ym_components_job, zone_offset_job(check, mirror, rb, crate, U)]


# ----------------------------------------------------------------------------- the offset of a named zone at a wall-clock time
# get_zone_offset (feel/src/temporal/mod.rs) asks chrono-tz for the instant a wall-clock time denotes in the zone and derives the offset
# from it. The zone rules are an uninterpreted function o(zone, UTC instant) -> seconds east; chrono's API is modelled by its contract
# over that function (a local time maps to the instants t with t + o(t) = wall clock: one or none; times that occur twice are outside the property and discarded by chrono 0.4).


def zone_offset_job(check, mirror, rb, crate, U):
    import z3
    from mcheck import decide, model_value
    from mir.sym import Adt, En, Opaque, Ref, Sc, StrV, mk_bool, some, none
    from mir.models import deref
    from mir.parser import MirUnsupported
    check.bounds.append("M/zone_offset: get_zone_offset for any zone name (known or unknown to the database), years 1..9999, any valid date and time; the zone rules are an uninterpreted "
                        "function of the UTC instant (offsets within +-16 h), a wall-clock time denotes one instant or none (times that occur twice are outside the property)")
    I = z3.IntSort()
    o = z3.Function("zone_rule_offset", I, I, I)
    S_2021 = (18628 * 86400, 18714 * 86400 + 3600, 18931 * 86400 + 3600)   # 2021-01-01T00:00Z, 2021-03-28T01:00Z, 2021-10-31T01:00Z

    def setup(ex, st):
        zid = ex.fresh_int(st, "u8", "zoneid")
        y = ex.fresh_int(st, "i32", "year")
        mo = ex.fresh_int(st, "u32", "month")
        d = ex.fresh_int(st, "u32", "day")
        h = ex.fresh_int(st, "u32", "hour")
        mi = ex.fresh_int(st, "u32", "minute")
        s_ = ex.fresh_int(st, "u32", "second")
        n = ex.fresh_int(st, "u32", "nano")
        known = z3.Bool(ex.fresh_name("zone_known"))
        ex.assume(st, z3.And(U.cal_valid(y.e, mo.e, d.e), y.e >= 1, y.e <= 9999, h.e < 24, mi.e < 60, s_.e < 60, n.e < 10 ** 9))
        W = days_from_civil(y.e, mo.e, d.e) * 86400 + h.e * 3600 + mi.e * 60 + s_.e     # the wall clock read as seconds since the epoch
        kind = ex.fresh_int(st, "u8", "local_result")      # 0 single, 1 ambiguous, 2 none (chrono's LocalResult)
        t1 = z3.Int(ex.fresh_name("instant1"))
        t2 = z3.Int(ex.fresh_name("instant2"))
        apps = []

        def rule(t):
            v = o(zid.e, t)
            apps.append((t, v))
            ex.assume(st, z3.And(v >= -57600, v <= 57600))
            return v
        # wall-clock times that occur twice are outside the property ("away from ambiguous local times"): chrono 0.4's LocalResult<Date>::and_hms_nano_opt discards
        # them anyway (native: null), so the Ambiguous arm of the code is never entered; a wall-clock time denotes one instant or none
        ex.assume(st, z3.And(z3.Or(kind.e == 0, kind.e == 2), z3.Implies(kind.e == 0, t1 + rule(t1) == W)))
        inputs = dict(zoneid=zid.e, year=y.e, month=mo.e, day=d.e, hour=h.e, minute=mi.e, second=s_.e, nano=n.e, zone_known=known, local_result=kind.e,
                      _W=W, _t1=t1, _t2=t2, _apps=apps)

        def fields(a):
            return [f.e for f in (deref(ex, st, a) if isinstance(a, Ref) else a).fields] if isinstance(a, (Adt, Ref)) else None

        def m_ymd(ex, st, callee, a, dest_ty):
            zone = "utc" if "<Utc as" in callee else val(st, a[0])
            yy, mm, dd = a[1].e, a[2].e, a[3].e
            okc = z3.And(U.cal_valid(yy, mm, dd), yy >= -262143, yy <= 262142)
            yield st, En("LocalResult", z3.If(okc, z3.IntVal(0), z3.IntVal(2)), {"Single": (Opaque("Date", days_from_civil(yy, mm, dd), zone),), "Ambiguous": (), "None": ()})

        def m_hms(ex, st, callee, a, dest_ty):
            lr = a[0]
            hh, mm, ss, nn = [x.e for x in a[1:5]]
            date = lr.alts["Single"][0]
            okt = z3.And(lr.disc == 0, hh < 24, mm < 60, ss < 60, nn < 2000000000)
            wall = date.e * 86400 + hh * 3600 + mm * 60 + ss
            if date.info == "utc":
                yield st, En("LocalResult", z3.If(okt, z3.IntVal(0), z3.IntVal(2)), {"Single": (Opaque("DateTime", wall * 10 ** 9 + nn, "utc"),), "Ambiguous": (), "None": ()})
                return
            # a local time of the zone: the instants t with t + o(t) = wall clock (the obligation's own W when the code asks about the wall clock it was given)
            same = z3.simplify(wall == W)
            for st2 in ex.branch(st, z3.Not(z3.And(okt, same))):
                raise MirUnsupported("the code asks chrono-tz about a wall-clock time other than the one it was given")
            for st2 in ex.branch(st, z3.And(okt, same)):
                yield st2, En("LocalResult", kind.e, {"Single": (Opaque("DateTime", t1 * 10 ** 9 + nn, date.info),),
                                                      "Ambiguous": (Opaque("DateTime", t1 * 10 ** 9 + nn, date.info), Opaque("DateTime", t2 * 10 ** 9 + nn, date.info)), "None": ()})

        def m_lr_pick(ex, st, callee, a, dest_ty):
            """LocalResult::earliest / latest / single -> Option"""
            lr = a[0]
            which = callee.rsplit("::", 1)[1]
            for st2 in ex.branch(st, lr.disc == 0):
                yield st2, some(lr.alts["Single"][0])
            if lr.alts.get("Ambiguous"):
                for st2 in ex.branch(st, lr.disc == 1):
                    yield st2, (none() if which == "single" else some(lr.alts["Ambiguous"][0 if which == "earliest" else 1]))
            for st2 in ex.branch(st, lr.disc == 2):
                yield st2, none()

        def m_parse_tz(ex, st, callee, a, dest_ty):
            yield st, En("Result", z3.If(known, z3.IntVal(0), z3.IntVal(1)), {"Ok": (Opaque("Tz", zid.e),), "Err": (Opaque("Error"),)})

        def val(st, a):
            return deref(ex, st, a) if isinstance(a, Ref) else a

        def m_with_tz(ex, st, callee, a, dest_ty):
            yield st, Opaque("DateTime", val(st, a[0]).e, val(st, a[1]))

        def m_sub(ex, st, callee, a, dest_ty):
            yield st, Opaque("TimeDelta", z3.simplify(val(st, a[0]).e - val(st, a[1]).e))

        def m_num_seconds(ex, st, callee, a, dest_ty):
            from mir.sym import tdiv
            yield st, Sc(tdiv(val(st, a[0]).e, z3.IntVal(10 ** 9)), "i64")

        def m_offset(ex, st, callee, a, dest_ty):
            dt = val(st, a[0])
            yield st, Opaque("TzOffset", rule(dt.e / 10 ** 9) if dt.info != "utc" else z3.IntVal(0))

        def m_fix(ex, st, callee, a, dest_ty):
            yield st, Opaque("FixedOffset", val(st, a[0]).e)

        def m_lmu(ex, st, callee, a, dest_ty):
            yield st, Sc(val(st, a[0]).e, "i32")
        models = [(re.compile(r"^<(Utc|Tz|chrono_tz::Tz) as TimeZone>::ymd_opt$"), m_ymd),
                  (re.compile(r"^LocalResult::<Date<.*>>::and_hms_nano_opt$"), m_hms),
                  (re.compile(r"^core::str::<impl str>::parse::<(chrono_tz::)?Tz>$|^<(chrono_tz::)?Tz as FromStr>::from_str$"), m_parse_tz),
                  (re.compile(r"^LocalResult::<.*>::(earliest|latest|single)$"), m_lr_pick),
                  (re.compile(r"^DateTime::<.*>::with_timezone::<.*>$"), m_with_tz),
                  (re.compile(r"^<DateTime<.*> as Sub(<.*>)?>::sub$|^DateTime::<.*>::signed_duration_since::<.*>$"), m_sub),
                  (re.compile(r"^(chrono::)?(TimeDelta|Duration)::num_seconds$"), m_num_seconds),
                  (re.compile(r"^DateTime::<.*>::offset$"), m_offset),
                  (re.compile(r"^<.* as Offset>::fix$"), m_fix),
                  (re.compile(r"^FixedOffset::local_minus_utc$"), m_lmu)]

        def runner(ex, st):
            ex.models[:0] = models
            yield from ex.run("get_zone_offset", [StrV(None, id=zid.e), Adt("tuple", None, (y, mo, d)), Adt("tuple", None, (h, mi, s_, n))], st)
        return runner, None, inputs

    def post(ex, o_, v):
        r = o_.value
        defined = z3.And(v["zone_known"], v["local_result"] <= 1)
        res = [("the offset is defined exactly for a known zone and a wall-clock time that exists there", (r.disc == 1) == defined)]
        if "Some" in r.alts:
            res.append(("it is the zone's offset at the instant the wall-clock time denotes (the earlier one when it occurs twice)", z3.Implies(r.disc == 1, r.alts["Some"][0].e == v["_W"] - v["_t1"])))
        return res

    def prefer(v):
        t0, ts, te = S_2021
        # months 2..11: every instant the code or the oracle can ask the rules about then lies inside 2021, where the rules are pinned to Warsaw's
        c = [v["year"] == 2021, v["month"] >= 2, v["month"] <= 11, v["zoneid"] == WARSAW, v["zone_known"], v["nano"] == 0]
        for t, val_ in v["_apps"]:
            c.append(z3.Implies(z3.And(t >= t0, t < t0 + 365 * 86400), val_ == z3.If(z3.And(t >= ts, t < te), 7200, 3600)))
        W = v["_W"]
        gap = z3.And(W >= ts + 3600, W < ts + 7200)
        fold = z3.And(W >= te + 3600, W < te + 7200)
        c.append(z3.Not(fold))
        c.append(v["local_result"] == z3.If(gap, 2, 0))
        return z3.And(c)

    def desc(m, v):
        return {k: (bool(model_value(m, x)) if k == "zone_known" else model_value(m, x)) for k, x in v.items() if not k.startswith("_")}

    def replay(i, rb):
        if not (i["zone_known"] and i["zoneid"] == WARSAW and i["year"] == 2021):
            return False, "witness needs a zone the replay does not know"
        lit_ = 'date and time("2021-%02d-%02dT%02d:%02d:%02d@Europe/Warsaw")' % (i["month"], i["day"], i["hour"], i["minute"], i["second"])
        _, out, _ = replay_call(rb, ["feel", "string(%s.time offset)" % lit_])
        import datetime
        W = (datetime.date(2021, i["month"], i["day"]).toordinal() - datetime.date(1970, 1, 1).toordinal()) * 86400 + i["hour"] * 3600 + i["minute"] * 60 + i["second"]
        t0, ts, te = S_2021
        if te + 3600 <= W < te + 7200:
            return False, "%s is a wall-clock time that occurs twice: outside the property" % lit_
        if ts + 3600 <= W < ts + 7200:
            want = None
        else:
            want = 7200 if ts + 7200 <= W < te + 7200 else 3600
        txt = out[6:].strip().strip('"') if out.startswith("VALUE ") else out
        got = dt_duration_ns(txt) if out.startswith('VALUE "') else None
        bad = (got is None) != (want is None) or (want is not None and got != want * 10 ** 9)
        return bad, "%s.time offset -> %s; Europe/Warsaw is %s then" % (lit_, txt[:40], "%d s east of UTC" % want if want is not None else "skipping that hour")
    return lambda c: decide(c, crate, "zone_offset/get_zone_offset", setup, post, replay, rb, describe=desc, prefer=prefer, budget_s=300, min_paths=2, max_cex=3)
