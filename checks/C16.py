"""C16 — type conformance is a preorder compatible with equivalence; coercion (DESIGN §4 C16).

Engine M: FeelType::is_equivalent / is_conformant (feel/src/types.rs) executed from MIR on symbolic type trees of bounded
depth (lib/feeltypes.py); every law is a query between the results of several symbolic runs.
"""
import re

import z3

from vcommon import *  # noqa
from mcheck import MirCrate, decide, run_parallel, model_value
from mir.sym import Adt, En, FnV, Opaque, Outcome, Ref, Sc, StrV, VecV, UNIT, mk_bool, mk_int
from mir.parser import MirUnsupported
import feelvals as fv
import feeltypes as ft

ENGINE = "M (MIR -> SMT, z3) over symbolic FeelType trees"


def run_rel(ex, st, fn, a, b):
    ra, rb = Ref(ex.new_cell(st, a)), Ref(ex.new_cell(st, b))
    body = ex.resolve("FeelType::" + fn)
    merged = ex._merged_call(st, body, [ra, rb]) if ex.merge_pat is not None else None
    if merged is not None:
        yield merged
    else:
        yield from ex.run("FeelType::" + fn, [ra, rb], st)


def n_rel(specs):
    """specs: list of (fn, a, b) -> Outcome.value = tuple of Bool results"""
    def runner(ex, st):
        def rec(st, k, acc):
            if k == len(specs):
                yield Outcome("return", st, value=tuple(acc))
                return
            fn, a, b = specs[k]
            for o in run_rel(ex, st, fn, a, b):
                if o.kind != "return":
                    yield o
                    continue
                yield from rec(o.st, k + 1, acc + [o.value.e])
        yield from rec(st, 0, [])
    return runner


def run(check, mirror, tier):
    rb = replay_build(mirror)
    crate = MirCrate(mirror, ["feel"], overflow_checks=True)
    TU = ft.TypeUniverse(mirror)
    from mir.models import m_format_stub
    MODELS = [(re.compile(r"^format$|^std::fmt::format$|^alloc::fmt::format$"), m_format_stub)] + fv.VALUE_MODELS
    D2 = 2
    NP = 2
    check.bounds += ["types: the 10 simple types closed under list, range, context (0..%d entries over key names a<b<c<d) and function "
                     "(0..%d parameters); pairs to depth %d, triples to depth 1" % (NP, NP, D2)]
    check.assumptions += ["BTreeMap<Name, FeelType> as a sorted association list over an ordered key alphabet; Vec/Box/iterator std models"]
    jobs = []

    def mk(oid, names, depths, specs_fn, post_fn, unwind=10, budget=1200, kinds=None):
        def setup(ex, st):
            vals = {n: TU.fresh(ex, st, d, n, NP, NP, kinds=(kinds or {}).get(n)) for n, d in zip(names, depths)}
            st0 = st
            inputs = dict(vals)
            inputs["_st"] = st0
            inputs["_ex"] = ex
            return n_rel(specs_fn(vals, ex, st)), None, inputs

        def post(ex, o, vals):
            return post_fn(o.value, vals)

        def desc(m, inputs):
            return {n: TU.describe(inputs["_ex"], inputs["_st"], m, inputs[n], model_value) for n in names}

        jobs.append(lambda c: decide(c, crate, oid, setup, post, lambda i, rb: replay_types(oid, i, rb), rb, models=MODELS, unwind=unwind,
                                     describe=desc, budget_s=budget, min_paths=1, timeout_ms=20000, known_predicates=KNOWN_PRED,
                                     merge=r"::(is_equivalent|is_conformant)$"))

    # 1. reflexivity, Null <= T <= Any -----------------------------------------------------------------------------
    mk("reflexive", ["a"], [D2], lambda v, ex, st: [("is_equivalent", v["a"], v["a"]), ("is_conformant", v["a"], v["a"]),
                                                      ("is_conformant", TU.simple("Null"), v["a"]), ("is_conformant", v["a"], TU.simple("Any"))],
       lambda r, v: [("every type is equivalent to itself", r[0]), ("every type conforms to itself", r[1]),
                     ("Null conforms to every type", r[2]), ("every type conforms to Any", r[3])])
    # 2. symmetry of equivalence; equivalence => mutual conformance (pairs, depth 2) --------------------------------------
    mk("equivalence_pairs", ["a", "b"], [D2, D2],
       lambda v, ex, st: [("is_equivalent", v["a"], v["b"]), ("is_equivalent", v["b"], v["a"]),
                          ("is_conformant", v["a"], v["b"]), ("is_conformant", v["b"], v["a"])],
       lambda r, v: [("equivalence is symmetric", r[0] == r[1]),
                     ("equivalent types conform to each other", z3.Implies(r[0], z3.And(r[2], r[3])))], budget=1500)
    # 3. transitivity (triples, depth 1) --------------------------------------------------------------------------------------
    mk("equivalence_transitive", ["a", "b", "c"], [1, 1, 1],
       lambda v, ex, st: [("is_equivalent", v["a"], v["b"]), ("is_equivalent", v["b"], v["c"]), ("is_equivalent", v["a"], v["c"])],
       lambda r, v: [("equivalence is transitive", z3.Implies(z3.And(r[0], r[1]), r[2]))], budget=1500)
    mk("conformance_transitive", ["a", "b", "c"], [1, 1, 1],
       lambda v, ex, st: [("is_conformant", v["a"], v["b"]), ("is_conformant", v["b"], v["c"]), ("is_conformant", v["a"], v["c"])],
       lambda r, v: [("conformance is transitive", z3.Implies(z3.And(r[0], r[1]), r[2]))], budget=1500)

    # 4. variance: constructors built around symbolic children ---------------------------------------------------------------
    def boxed(ex, st, ctor, child):
        return En("FeelType", z3.IntVal(TU.idx(ctor)), {ctor: (Ref(ex.new_cell(st, child, "box")),)})

    for ctor in ("List", "Range"):
        mk("covariance/%s" % ctor, ["a", "b"], [1, 1],
           lambda v, ex, st, ctor=ctor: [("is_conformant", boxed(ex, st, ctor, v["a"]), boxed(ex, st, ctor, v["b"])), ("is_conformant", v["a"], v["b"]),
                                         ("is_equivalent", boxed(ex, st, ctor, v["a"]), boxed(ex, st, ctor, v["b"])), ("is_equivalent", v["a"], v["b"])],
           lambda r, v, ctor=ctor: [("%s<a> conforms to %s<b> iff a conforms to b" % (ctor.lower(), ctor.lower()), r[0] == r[1]),
                                    ("%s<a> is equivalent to %s<b> iff a is equivalent to b" % (ctor.lower(), ctor.lower()), r[2] == r[3])])

    def fun(ex, st, params, res):
        return En("FeelType", z3.IntVal(TU.idx("Function")), {"Function": (VecV(z3.IntVal(len(params)), params, "FeelType"),
                                                                            Ref(ex.new_cell(st, res, "box")))})

    for arity in (0, 1, 2):
        names = ["r1", "r2"] + ["p%d" % i for i in range(arity)] + ["q%d" % i for i in range(arity)]

        def specs(v, ex, st, arity=arity):
            f1 = fun(ex, st, [v["p%d" % i] for i in range(arity)], v["r1"])
            f2 = fun(ex, st, [v["q%d" % i] for i in range(arity)], v["r2"])
            s = [("is_conformant", f1, f2), ("is_equivalent", f1, f2), ("is_conformant", v["r1"], v["r2"]), ("is_equivalent", v["r1"], v["r2"])]
            for i in range(arity):
                s += [("is_conformant", v["q%d" % i], v["p%d" % i]), ("is_equivalent", v["p%d" % i], v["q%d" % i])]
            return s

        def post(r, v, arity=arity):
            conf_params = z3.And([r[4 + 2 * i] for i in range(arity)]) if arity else z3.BoolVal(True)
            eq_params = z3.And([r[5 + 2 * i] for i in range(arity)]) if arity else z3.BoolVal(True)
            return [("function types conform iff results conform (covariant) and parameters conform the other way (contravariant)",
                     r[0] == z3.Or(z3.And(r[2], conf_params), z3.And(r[3], eq_params))),
                    ("function types are equivalent iff their results and parameters are (whatever the number of parameters)",
                     r[1] == z3.And(r[3], eq_params))]
        mk("function_variance/arity%d" % arity, names, [1] * len(names), specs, post,
           kinds={n: (ft.SIMPLE if arity == 2 else None) for n in names} if arity == 2 else None, budget=1500)

    def ctx(ex, st, entries):
        return En("FeelType", z3.IntVal(TU.idx("Context")), {"Context": (fv.MapV(z3.IntVal(len(entries)), [
            Adt("tuple", None, (Opaque("Name", z3.IntVal(k)), t)) for k, t in entries], "(Name, FeelType)"),)})

    def ctx_specs(v, ex, st):
        c1 = ctx(ex, st, [(0, v["a1"]), (1, v["b1"])])
        c2 = ctx(ex, st, [(0, v["a2"])])
        c3 = ctx(ex, st, [(0, v["a2"]), (1, v["b2"])])
        return [("is_conformant", c1, c2), ("is_conformant", c2, c1), ("is_conformant", v["a1"], v["a2"]),
                ("is_conformant", c1, c3), ("is_conformant", v["b1"], v["b2"]), ("is_equivalent", c1, c3),
                ("is_equivalent", v["a1"], v["a2"]), ("is_equivalent", v["b1"], v["b2"]), ("is_equivalent", c1, c2)]
    mk("context_variance", ["a1", "b1", "a2", "b2"], [1, 1, 1, 1], ctx_specs,
       lambda r, v: [("a context conforms to one with fewer entries iff the shared entries conform", r[0] == r[2]),
                     ("a context lacking an entry does not conform", z3.Not(r[1])),
                     ("contexts with the same keys conform entry-wise", r[3] == z3.And(r[2], r[4])),
                     ("contexts are equivalent iff same keys and equivalent entries", z3.And(r[5] == z3.And(r[6], r[7]), z3.Not(r[8])))],
       budget=1500)

    # 5. coercion: coerced(T, v) is v, [v], v[0] or null; it conforms to T or is null; coercing again changes nothing -------------
    U = fv.Universe(mirror)

    def coercion_job(vkinds, tag):
        def setup(ex, st):
            T = TU.fresh(ex, st, 1, "T", 1, 1)
            v = U.fresh(ex, st, 1, "v", kinds=vkinds, list_len=2, ctx_len=1, others=False)
            tref = Ref(ex.new_cell(st, T, "T"))
            vref = Ref(ex.new_cell(st, v, "v"))
            inputs = {"_T": T, "_v": v, "_st": st, "_ex": ex}

            def classify(ex, st, r):
                r = deref(ex, st, r)
                if r is v:
                    return "same", r
                if isinstance(r, En) and ex.concrete(r.disc) == U.idx("Null"):
                    return "null", r
                if isinstance(r, En) and ex.concrete(r.disc) == U.idx("List"):
                    vec = r.alts["List"][0].fields[0]
                    if ex.concrete(vec.len) == 1 and deref(ex, st, vec.items[0]) is v:
                        return "wrapped", r
                if "List" in v.alts:
                    items = v.alts["List"][0].fields[0].items
                    if items and r is items[0]:
                        return "unwrapped", r
                return "other", r

            def runner(ex, st):
                body_t = ex.resolve("Value::type_of")
                for o1 in ex.run("FeelType::coerced", [tref, vref], st):
                    if o1.kind != "return":
                        yield o1
                        continue
                    kind1, r = classify(ex, o1.st, o1.value)
                    rref = Ref(ex.new_cell(o1.st, r, "r"))
                    # type of the result, its conformance to T
                    ot = ex._merged_call(o1.st, body_t, [rref])
                    if ot is None:
                        raise MirUnsupported("type_of could not be summarised")
                    oc = ex._merged_call(o1.st, ex.resolve("FeelType::is_conformant"), [Ref(ex.new_cell(o1.st, ot.value, "tr")), tref])
                    if oc is None:
                        raise MirUnsupported("is_conformant could not be summarised")
                    for o2 in ex.run("FeelType::coerced", [tref, rref], o1.st):
                        if o2.kind != "return":
                            yield o2
                            continue
                        r2 = deref(ex, o2.st, o2.value)
                        same2 = (r2 is r) or (kind1 == "null" and isinstance(r2, En) and ex.concrete(r2.disc) == U.idx("Null"))
                        yield Outcome("return", o2.st, value=(kind1, oc.value.e, same2))
            return runner, None, inputs

        def post(ex, o, inputs):
            kind1, conforms, same2 = o.value
            v = inputs["_v"]
            props = [("coercion returns the value itself, a singleton wrap, a singleton unwrap or null", z3.BoolVal(kind1 in ("same", "null", "wrapped", "unwrapped")))]
            if kind1 == "unwrapped":
                props.append(("only a singleton list is unwrapped", v.alts["List"][0].fields[0].len == 1))
            if kind1 != "null":
                props.append(("the coerced value conforms to the target type", conforms))
            props.append(("coercing twice changes nothing", z3.BoolVal(bool(same2))))
            return props

        def desc(m, inputs):
            return {"T": TU.describe(inputs["_ex"], inputs["_st"], m, inputs["_T"], model_value), "v": U.describe(m, inputs["_v"], model_value)}
        jobs.append(lambda c: decide(c, crate, "coercion/%s" % tag, setup, post, replay_coercion, rb, models=MODELS, unwind=10, describe=desc,
                                     budget_s=1500, min_paths=3, timeout_ms=20000, known_predicates=KNOWN_PRED, merge=r"::(is_equivalent|is_conformant|type_of)$",
                                     prefer=lambda inp: U.replayable_pref(inp["_v"])))
    from mir.models import deref
    coercion_job(["Number", "String", "Boolean", "Null"], "scalars")
    coercion_job(["List"], "lists")
    coercion_job(["Context"], "contexts")
    run_parallel(check, jobs)


def replay_coercion(i, rb):
    if not fv.replayable(i["v"]):
        return False, "value not expressible"
    _, out, _ = replay_call(rb, ["coerce", i["T"], fv.feel_text(i["v"])])
    m = re.search(r"null=(\w+) conforms=(\w+) idempotent=(\w+)", out)
    if not m:
        return False, "replay output not understood: %s" % out[:200]
    isnull, conforms, idem = [x == "true" for x in m.groups()]
    bad = (not isnull and not conforms) or not idem
    return bad, "coerce %s to %s -> %s" % (fv.feel_text(i["v"]), i["T"], out[:200])


def replay_types(oid, i, rb):
    """re-evaluate the law natively on the concrete types of the counterexample"""
    def rel(x, y):
        _, out, _ = replay_call(rb, ["type_rel", x, y])
        m = re.match(r"equiv=(\w+) conf=(\w+)", out)
        return (m.group(1) == "true", m.group(2) == "true") if m else (None, None)
    fam = oid.split("/")[0]
    t = i
    txt = ""
    bad = False
    if fam == "reflexive":
        e, c = rel(t["a"], t["a"])
        _, c2 = rel("U", t["a"])
        _, c3 = rel(t["a"], "A")
        bad = not (e and c and c2 and c3)
        txt = "%s: equiv(self)=%s conf(self)=%s Null conf=%s conf Any=%s" % (t["a"], e, c, c2, c3)
    elif fam == "equivalence_pairs":
        e1, c1 = rel(t["a"], t["b"])
        e2, c2 = rel(t["b"], t["a"])
        bad = e1 != e2 or (e1 and not (c1 and c2))
        txt = "a=%s b=%s: equiv(a,b)=%s equiv(b,a)=%s conf(a,b)=%s conf(b,a)=%s" % (t["a"], t["b"], e1, e2, c1, c2)
    elif fam in ("equivalence_transitive", "conformance_transitive"):
        k = 0 if fam.startswith("equiv") else 1
        r1, r2, r3 = rel(t["a"], t["b"])[k], rel(t["b"], t["c"])[k], rel(t["a"], t["c"])[k]
        bad = r1 and r2 and not r3
        txt = "a=%s b=%s c=%s: %s %s %s" % (t["a"], t["b"], t["c"], r1, r2, r3)
    elif fam == "covariance":
        c = oid.split("/")[1][0]
        e0, c0 = rel(t["a"], t["b"])
        e1, c1 = rel("%s(%s)" % (c, t["a"]), "%s(%s)" % (c, t["b"]))
        bad = e0 != e1 or c0 != c1
        txt = "a=%s b=%s: equiv %s/%s conf %s/%s (children/wrapped)" % (t["a"], t["b"], e0, e1, c0, c1)
    elif fam == "function_variance":
        n = int(oid[-1])
        f1 = "F(%s;%s)" % (",".join(t["p%d" % k] for k in range(n)), t["r1"])
        f2 = "F(%s;%s)" % (",".join(t["q%d" % k] for k in range(n)), t["r2"])
        e, c = rel(f1, f2)
        er, cr = rel(t["r1"], t["r2"])
        ep = all(rel(t["p%d" % k], t["q%d" % k])[0] for k in range(n))
        cp = all(rel(t["q%d" % k], t["p%d" % k])[1] for k in range(n))
        bad = e != (er and ep) or c != ((cr and cp) or (er and ep))
        txt = "%s vs %s: equiv=%s conf=%s; results equiv=%s conf=%s; params equiv=%s contra-conf=%s" % (f1, f2, e, c, er, cr, ep, cp)
    elif fam == "context_variance":
        c1 = "C(a:%s,b:%s)" % (t["a1"], t["b1"])
        c2 = "C(a:%s)" % t["a2"]
        c3 = "C(a:%s,b:%s)" % (t["a2"], t["b2"])
        ea, ca = rel(t["a1"], t["a2"])
        eb, cb = rel(t["b1"], t["b2"])
        r12, r21, r13 = rel(c1, c2), rel(c2, c1), rel(c1, c3)
        bad = r12[1] != ca or r21[1] or r13[1] != (ca and cb) or r13[0] != (ea and eb) or r12[0]
        txt = "%s / %s / %s: %s %s %s; entries a %s b %s" % (c1, c2, c3, r12, r21, r13, (ea, ca), (eb, cb))
    return bool(bad), txt


KNOWN_PRED = {}
