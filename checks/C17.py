"""C17 — the workspace holds exactly the models its history leaves in it (DESIGN §4 C17).

Engine M, one inductive step: Workspace::add/remove/replace/clear/deploy (workspace/src/workspace.rs) are executed from MIR
on an ARBITRARY pre-state that satisfies the representation invariant I (list of <= N stored models with pairwise distinct
namespaces and names; both indexes mirror the list; evaluators' keys are names of the list), with arbitrary arguments.
After the operation I must hold again and the list must be what the abstract semantics says.  One step from an arbitrary
I-state covers histories of any length.
"""
import re

import z3

from vcommon import *  # noqa
from mcheck import MirCrate, decide, run_parallel, model_value
from mir.sym import Adt, En, FnV, Opaque, Outcome, Ref, Sc, StrV, VecV, UNIT, mk_bool, mk_int, none, some, ok, err
from mir.models import deref, call_fn_value, m_format_stub
from mir.parser import MirUnsupported
import rsenum
from feelvals import MapV, VALUE_MODELS

ENGINE = "M (MIR -> SMT, z3): inductive step over an arbitrary invariant-satisfying workspace state"


class HMap(VecV):
    """HashMap<String, V> model: `len` entries (key StrV with id, value), keys pairwise distinct"""
    __slots__ = ()


def key_id(s):
    if isinstance(s, StrV) and "id" in s.attrs:
        return s.attrs["id"]
    raise MirUnsupported("map key without identity: %r" % (s,))


def _hm(ex, st, r):
    base = r
    while isinstance(ex.read(st, base.cell, base.projs), Ref):
        base = ex.read(st, base.cell, base.projs)
    m = ex.read(st, base.cell, base.projs)
    if not isinstance(m, HMap):
        raise MirUnsupported("HashMap operation on %r" % (m,))
    return base, m


def m_hm_contains(ex, st, callee, args, dest_ty):
    base, m = _hm(ex, st, args[0])
    k = key_id(deref(ex, st, args[1]))
    c = z3.Or([z3.And(m.len > i, key_id(e.fields[0]) == k) for i, e in enumerate(m.items)]) if m.items else z3.BoolVal(False)
    yield st, mk_bool(z3.simplify(c))


def m_hm_clear(ex, st, callee, args, dest_ty):
    base, m = _hm(ex, st, args[0])
    ex.write(st, base.cell, base.projs, HMap(z3.IntVal(0), (), m.elem_ty))
    yield st, UNIT


def m_hm_insert(ex, st, callee, args, dest_ty):
    base, m = _hm(ex, st, args[0])
    key, val = deref(ex, st, args[1]), args[2]
    k = key_id(key)
    for st2, n in ex.enum_values(st, m.len, limit=len(m.items) + 2):
        items = list(_hm(ex, st2, args[0])[1].items[:n])
        hit = []
        for i, e in enumerate(items):
            c = key_id(e.fields[0]) == k
            hit.append(c)
            for st3 in ex.branch(st2, c):
                it2 = list(items)
                it2[i] = Adt("tuple", None, (e.fields[0], val))
                ex.write(st3, base.cell, base.projs, HMap(z3.IntVal(n), it2, m.elem_ty))
                yield st3, some(e.fields[1])
        for st3 in ex.branch(st2, z3.Not(z3.Or(hit)) if hit else z3.BoolVal(True)):
            ex.write(st3, base.cell, base.projs, HMap(z3.IntVal(n + 1), items + [Adt("tuple", None, (key, val))], m.elem_ty))
            yield st3, none()


def m_hm_remove(ex, st, callee, args, dest_ty):
    base, m = _hm(ex, st, args[0])
    k = key_id(deref(ex, st, args[1]))
    for st2, n in ex.enum_values(st, m.len, limit=len(m.items) + 2):
        items = list(_hm(ex, st2, args[0])[1].items[:n])
        hit = []
        for i, e in enumerate(items):
            c = key_id(e.fields[0]) == k
            hit.append(c)
            for st3 in ex.branch(st2, c):
                ex.write(st3, base.cell, base.projs, HMap(z3.IntVal(n - 1), items[:i] + items[i + 1:], m.elem_ty))
                yield st3, some(e.fields[1])
        for st3 in ex.branch(st2, z3.Not(z3.Or(hit)) if hit else z3.BoolVal(True)):
            ex.write(st3, base.cell, base.projs, HMap(z3.IntVal(n), items, m.elem_ty))
            yield st3, none()


def m_hm_get(ex, st, callee, args, dest_ty):
    base, m = _hm(ex, st, args[0])
    k = key_id(deref(ex, st, args[1]))
    hit = []
    for i, e in enumerate(m.items):
        c = z3.And(m.len > i, key_id(e.fields[0]) == k)
        hit.append(c)
        for st2 in ex.branch(st, c):
            yield st2, some(Ref(base.cell, base.projs + (("index", i), ("field", 1, None))))
    for st2 in ex.branch(st, z3.Not(z3.Or(hit)) if hit else z3.BoolVal(True)):
        yield st2, none()


def m_hm_entry(ex, st, callee, args, dest_ty):
    """HashMap::entry(key): Entry::Occupied when the key is present, Entry::Vacant (remembering map and key) otherwise"""
    base, m = _hm(ex, st, args[0])
    key = args[1]
    k = key_id(deref(ex, st, key) if isinstance(key, Ref) else key)
    hit = []
    for i, e in enumerate(m.items):
        c = z3.And(m.len > i, key_id(e.fields[0]) == k)
        hit.append(c)
        for st2 in ex.branch(st, c):
            yield st2, En("Entry", z3.IntVal(0), {"Occupied": (Opaque("OccupiedEntry", info=(base, i, key)),)})
    for st2 in ex.branch(st, z3.Not(z3.Or(hit)) if hit else z3.BoolVal(True)):
        yield st2, En("Entry", z3.IntVal(1), {"Vacant": (Opaque("VacantEntry", info=(base, key)),)})


def m_vacant_insert(ex, st, callee, args, dest_ty):
    base, key = args[0].info
    for item in m_hm_insert(ex, st, "HashMap::insert", [base, key, args[1]], None):
        st2 = item[0]
        m = ex.read(st2, base.cell, base.projs)
        n = ex.concrete(m.len)
        yield st2, Ref(base.cell, base.projs + (("index", n - 1), ("field", 1, None)))


def m_entry_key(ex, st, callee, args, dest_ty):
    e = deref(ex, st, args[0]) if isinstance(args[0], Ref) else args[0]
    key = e.info[-1]
    yield st, key if isinstance(key, Ref) else Ref(ex.new_cell(st, key, "key"))


def m_arc_new(ex, st, callee, args, dest_ty):
    yield st, Ref(ex.new_cell(st, args[0], "arc"))


def m_arc_clone(ex, st, callee, args, dest_ty):
    yield st, deref_once(ex, st, args[0])


def m_arc_ptr_eq(ex, st, callee, args, dest_ty):
    """Arc::ptr_eq(&a, &b): the two Arcs share one allocation (the Arc value is a Ref to the shared cell)"""
    a, b = deref_once(ex, st, args[0]), deref_once(ex, st, args[1])
    if not (isinstance(a, Ref) and isinstance(b, Ref)):
        raise MirUnsupported("Arc::ptr_eq on %r / %r" % (a, b))
    yield st, mk_bool(a.cell == b.cell and tuple(a.projs) == tuple(b.projs))


def deref_once(ex, st, r):
    return ex.read(st, r.cell, r.projs)


def m_arc_deref(ex, st, callee, args, dest_ty):
    # &Arc<T> -> &T : the Arc value is a Ref to the shared cell
    yield st, deref_once(ex, st, args[0])


def m_def_ns(ex, st, callee, args, dest_ty):
    d = deref(ex, st, args[0])
    yield st, StrV(None, id=d.info["ns"])


def m_def_name(ex, st, callee, args, dest_ty):
    d = deref(ex, st, args[0])
    yield st, StrV(None, id=d.info["name"])


def m_me_new(ex, st, callee, args, dest_ty):
    d = deref(ex, st, args[0])
    b = d.info["builds"]
    yield st, En("Result", z3.If(b, z3.IntVal(0), z3.IntVal(1)), {"Ok": (Ref(ex.new_cell(st, Opaque("ModelEvaluator", info=d.info), "arc")),),
                                                                "Err": (Opaque("Error"),)})


def m_vec_clear(ex, st, callee, args, dest_ty):
    r = args[0]
    v = deref(ex, st, r)
    base = r
    while isinstance(ex.read(st, base.cell, base.projs), Ref):
        base = ex.read(st, base.cell, base.projs)
    ex.write(st, base.cell, base.projs, VecV(z3.IntVal(0), (), v.elem_ty))
    yield st, UNIT


def m_vec_retain(ex, st, callee, args, dest_ty):
    """Vec::retain(&mut v, closure): the closure body is executed from its MIR on every element"""
    r, f = args
    base = r
    while isinstance(ex.read(st, base.cell, base.projs), Ref):
        base = ex.read(st, base.cell, base.projs)
    v = ex.read(st, base.cell, base.projs)

    def rec(st, n, i, kept):
        if i == n:
            ex.write(st, base.cell, base.projs, VecV(z3.IntVal(len(kept)), kept, v.elem_ty))
            yield st, UNIT
            return
        item = ex.read(st, base.cell, base.projs).items[i]
        cell = ex.new_cell(st, item, "retain")
        for o in call_fn_value(ex, st, f, [Ref(cell)]):
            if o.kind != "return":
                yield o
                continue
            for st2 in ex.branch(o.st, o.value.e):
                yield from rec(st2, n, i + 1, kept + [item])
            for st2 in ex.branch(o.st, z3.Not(o.value.e)):
                yield from rec(st2, n, i + 1, kept)
    for st2, n in ex.enum_values(st, v.len, limit=len(v.items) + 2):
        yield from rec(st2, n, 0, [])


def m_vec_into_iter_ref(ex, st, callee, args, dest_ty):
    r = args[0]
    base = r
    while isinstance(ex.read(st, base.cell, base.projs), Ref):
        base = ex.read(st, base.cell, base.projs)
    yield st, Opaque("SliceIter", info=(base, 0))


def _hm_fill(ex, st, cell, items, k=0):
    """inserts (key, value) tuples one after another into the map in `cell` (later equal keys replace earlier ones, as std does)"""
    if k == len(items):
        yield st
        return
    key, val = items[k].fields
    for st2, _ in m_hm_insert(ex, st, "HashMap::insert", [Ref(cell), key, val], None):
        yield from _hm_fill(ex, st2, cell, items, k + 1)


def m_hm_collect(ex, st, callee, args, dest_ty):
    """iterator.collect::<HashMap<String, V>>() / HashMap::from_iter: the pairs the (lazily pulled) iterator yields, inserted in order"""
    import feelvals as fv
    it = args[0] if isinstance(args[0], Opaque) else fv._sub_iter(ex, st, args[0])
    for st2, items, fin in fv._drain(ex, st, it):
        cell = ex.new_cell(st2, HMap(z3.IntVal(0), (), "kv"), "collected")
        for st3 in _hm_fill(ex, st2, cell, items):
            yield st3, ex.read(st3, cell, ())


def m_hm_extend(ex, st, callee, args, dest_ty):
    import feelvals as fv
    base, m = _hm(ex, st, args[0])
    it = args[1] if isinstance(args[1], Opaque) else fv._sub_iter(ex, st, args[1])
    for st2, items, fin in fv._drain(ex, st, it):
        for st3 in _hm_fill(ex, st2, base.cell if not base.projs else ex.new_cell(st2, m, "x"), items):
            if base.projs:
                raise MirUnsupported("extend of a map behind projections")
            yield st3, UNIT


MODELS = [
    (re.compile(r" as Iterator>::collect::<(std::collections::)?HashMap<.*>>$|^<HashMap<.*> as FromIterator<.*>>::from_iter::<.*>$"), m_hm_collect),
    (re.compile(r"^<HashMap<.*> as Extend<.*>>::extend::<.*>$"), m_hm_extend),
    (re.compile(r"^HashMap::<.*>::new$|^<HashMap<.*> as Default>::default$"), lambda ex, st, c, a, d: iter([(st, HMap(z3.IntVal(0), (), "kv"))])),
    (re.compile(r"^HashMap::<.*>::contains_key::<.*>$"), m_hm_contains),
    (re.compile(r"^HashMap::<.*>::clear$"), m_hm_clear),
    (re.compile(r"^HashMap::<.*>::insert$"), m_hm_insert),
    (re.compile(r"^HashMap::<.*>::remove::<.*>$"), m_hm_remove),
    (re.compile(r"^HashMap::<.*>::get::<.*>$"), m_hm_get),
    (re.compile(r"^HashMap::<.*>::entry$"), m_hm_entry),
    (re.compile(r"^(std::collections::hash_map::)?VacantEntry::<.*>::insert$"), m_vacant_insert),
    (re.compile(r"^(std::collections::hash_map::)?(Occupied|Vacant)Entry::<.*>::key$"), m_entry_key),
    (re.compile(r"^Arc::<.*>::new$"), m_arc_new),
    (re.compile(r"^<Arc<.*> as Clone>::clone$"), m_arc_clone),
    (re.compile(r"^Arc::<.*>::ptr_eq$"), m_arc_ptr_eq),
    (re.compile(r"^<Arc<.*> as Deref>::deref$"), m_arc_deref),
    (re.compile(r"^Definitions::namespace$"), m_def_ns),
    (re.compile(r"^<Definitions as NamedElement>::name$"), m_def_name),
    (re.compile(r"^ModelEvaluator::new$"), m_me_new),
    (re.compile(r"^Vec::<.*>::clear$"), m_vec_clear),
    (re.compile(r"^Vec::<.*>::retain::<.*>$"), m_vec_retain),
    (re.compile(r"^<&Vec<.*> as IntoIterator>::into_iter$"), m_vec_into_iter_ref),
    (re.compile(r"^format$|^std::fmt::format$|^alloc::fmt::format$"), m_format_stub),
    (re.compile(r"^errors::err_"), lambda ex, st, callee, args, dest_ty: iter([(st, Opaque("Error", info=callee))])),
] + VALUE_MODELS


def fresh_def(ex, st, hint):
    ns = z3.Int(ex.fresh_name(hint + "_ns"))
    nm = z3.Int(ex.fresh_name(hint + "_name"))
    b = z3.Bool(ex.fresh_name(hint + "_builds"))
    return Opaque("Definitions", info=dict(ns=ns, name=nm, builds=b, tag=hint))


def pre_state(ex, st, fields, N):
    """arbitrary workspace state satisfying the invariant I, with 0..N stored models"""
    n = ex.fresh_int(st, "usize", "n", constrain=False)
    ex.assume(st, z3.And(n.e >= 0, n.e <= N))
    defs = [fresh_def(ex, st, "m%d" % i) for i in range(N)]
    for i in range(N):
        for j in range(i):
            ex.assume(st, z3.And(defs[i].info["ns"] != defs[j].info["ns"], defs[i].info["name"] != defs[j].info["name"]))
    arcs = [Ref(ex.new_cell(st, d, "arc")) for d in defs]
    # evaluators: an arbitrary subset of the stored names (presence flags), compacted by the flags being a prefix permutation:
    ev_flags = [z3.Bool(ex.fresh_name("deployed%d" % i)) for i in range(N)]
    vals = {
        "definitions": VecV(n.e, arcs, "Arc<Definitions>"),
        "definitions_by_namespace": HMap(n.e, [Adt("tuple", None, (StrV(None, id=d.info["ns"]), a)) for d, a in zip(defs, arcs)], "kv"),
        "definitions_by_name": HMap(n.e, [Adt("tuple", None, (StrV(None, id=d.info["name"]), a)) for d, a in zip(defs, arcs)], "kv"),
    }
    # evaluators for a prefix of length k <= n of the stored models (any subset is reachable only through deploy, which fills
    # a subset determined by `builds`; an arbitrary prefix is a superset of what the invariant needs: keys are stored names)
    k = ex.fresh_int(st, "usize", "ndeployed", constrain=False)
    ex.assume(st, z3.And(k.e >= 0, k.e <= n.e))
    vals["model_evaluators_by_name"] = HMap(k.e, [Adt("tuple", None, (StrV(None, id=d.info["name"]), Ref(ex.new_cell(st, Opaque("ModelEvaluator", info=d.info), "arc"))))
                                                  for d in defs], "kv")
    missing = [f for f in fields if f not in vals]
    if missing or len(fields) != len(vals):
        raise MirUnsupported("Workspace has fields the model does not know: %s" % (missing or fields))
    ws = Adt("struct", "Workspace", [vals[f] for f in fields])
    return Ref(ex.new_cell(st, ws, "ws")), defs, n.e, k.e


def read_ws(ex, st, wsref, fields):
    ws = ex.read(st, wsref.cell, wsref.projs)
    return {f: ws.fields[i] for i, f in enumerate(fields)}


def list_of(ex, st, vec):
    """[(present cond, definitions info)] of the stored list"""
    out = []
    for i, a in enumerate(vec.items):
        d = deref(ex, st, a)
        out.append((vec.len > i, d.info))
    return out


def invariant(ex, st, w):
    lst = list_of(ex, st, w["definitions"])
    conj = []
    for i, (pi, di) in enumerate(lst):
        for j, (pj, dj) in enumerate(lst[:i]):
            conj.append(z3.Implies(z3.And(pi, pj), z3.And(di["ns"] != dj["ns"], di["name"] != dj["name"])))

    def mirrors(hm, attr):
        c = [hm.len == w["definitions"].len]
        ents = [(hm.len > i, key_id(e.fields[0]), deref(ex, st, e.fields[1]).info) for i, e in enumerate(hm.items)]
        # every stored model is indexed under its own key, pointing at itself
        for p, d in lst:
            c.append(z3.Implies(p, z3.Or([z3.And(pe, k == d[attr], dd[attr] == d[attr], dd["ns"] == d["ns"], dd["name"] == d["name"]) for pe, k, dd in ents]) if ents else z3.BoolVal(False)))
        # every index entry belongs to a stored model with that key
        for pe, k, dd in ents:
            c.append(z3.Implies(pe, z3.Or([z3.And(p, d[attr] == k, dd["ns"] == d["ns"], dd["name"] == d["name"]) for p, d in lst]) if lst else z3.BoolVal(False)))
        # keys pairwise distinct
        for i, (pi, ki, _) in enumerate(ents):
            for pj, kj, _ in ents[:i]:
                c.append(z3.Implies(z3.And(pi, pj), ki != kj))
        return z3.And(c)
    ev = w["model_evaluators_by_name"]
    evc = []
    for i, e in enumerate(ev.items):
        evc.append(z3.Implies(ev.len > i, z3.Or([z3.And(p, d["name"] == key_id(e.fields[0])) for p, d in lst]) if lst else z3.BoolVal(False)))
    return [("stored models have pairwise distinct namespaces and names", z3.And(conj) if conj else z3.BoolVal(True)),
            ("the namespace index describes exactly the stored list", mirrors(w["definitions_by_namespace"], "ns")),
            ("the name index describes exactly the stored list", mirrors(w["definitions_by_name"], "name")),
            ("evaluators exist only for stored models", z3.And(evc) if evc else z3.BoolVal(True))]


def same_list(ex, st, post_vec, expected):
    """post list == expected (list of (cond present, info)) as sequences of (ns, name)"""
    exp = [(c, d) for c, d in expected]
    # expected length
    explen = z3.Sum([z3.If(c, 1, 0) for c, _ in exp]) if exp else z3.IntVal(0)
    post = list_of(ex, st, post_vec)
    conj = [post_vec.len == explen]
    # k-th present expected element equals post[k]
    for k, (pk, dk) in enumerate(post):
        # index of the k-th present element of exp
        opts = []
        for j, (cj, dj) in enumerate(exp):
            before = z3.Sum([z3.If(c, 1, 0) for c, _ in exp[:j]]) if j else z3.IntVal(0)
            opts.append(z3.And(cj, before == k, dj["ns"] == dk["ns"], dj["name"] == dk["name"]))
        conj.append(z3.Implies(pk, z3.Or(opts) if opts else z3.BoolVal(False)))
    return z3.And(conj)


def run(check, mirror, tier):
    mirror.inject("workspace/src/workspace.rs", os.path.join(VERIF, "engines/shims/workspace_dump.rs"), "verif_ws", cfg="dmntk_verif_ws")
    rb = replay_build(mirror, extra_cfg="--cfg dmntk_verif_ws")
    crate = MirCrate(mirror, ["workspace"], overflow_checks=True, enum_crates=("common",))
    fields = rsenum.struct_fields(mirror.read("workspace/src/workspace.rs"), "Workspace")
    N = 3 if tier == "quick" else 4
    check.bounds += ["pre-state: any workspace with 0..%d stored models satisfying the representation invariant; arguments arbitrary "
                     "(a model whose namespace/name may coincide with any stored one; remove(ns, name) with any two strings)" % N,
                     "one operation (inductive step); Vec::retain / iteration unrolled over the stored list"]
    check.assumptions += ["HashMap<String,_> as an association list with pairwise distinct keys; Arc as a shared cell; strings as identities",
                          "ModelEvaluator::new(d) succeeds exactly when the symbolic flag `builds(d)` says so; Definitions::namespace/name are the model's two identities"]
    jobs = []

    def mk(oid, op_fn, post_fn, unwind=8):
        def setup(ex, st):
            wsref, defs, n, k = pre_state(ex, st, fields, N)
            inputs = dict(n=n, ndeployed=k)
            for i, d in enumerate(defs):
                inputs["m%d_ns" % i], inputs["m%d_name" % i], inputs["m%d_builds" % i] = d.info["ns"], d.info["name"], d.info["builds"]
            ctx = dict(wsref=wsref, defs=defs, n=n, k=k)
            runner = op_fn(ex, st, ctx, inputs)
            inputs["_ctx"] = ctx
            return runner, None, inputs

        def post(ex, o, inputs):
            ctx = inputs["_ctx"]
            w = read_ws(ex, o.st, ctx["wsref"], fields)
            pre = [(ctx["n"] > i, d.info) for i, d in enumerate(ctx["defs"])]
            return invariant(ex, o.st, w) + post_fn(ex, o, w, pre, ctx)

        def desc(m, inputs):
            return {k: model_value(m, v) for k, v in inputs.items() if not k.startswith("_")}

        jobs.append(lambda c: decide(c, crate, oid, setup, post, lambda i, rb: replay_ws(oid, i, rb, N), rb, models=MODELS, unwind=unwind,
                                     describe=desc, budget_s=900, min_paths=1, timeout_ms=20000, known_predicates=KNOWN_PRED))

    # add -------------------------------------------------------------------------------------------------------------------
    def op_add(ex, st, ctx, inputs):
        d = fresh_def(ex, st, "arg")
        ctx["arg"] = d
        inputs["arg_ns"], inputs["arg_name"], inputs["arg_builds"] = d.info["ns"], d.info["name"], d.info["builds"]
        return lambda ex, st: ex.run("Workspace::add", [ctx["wsref"], d], st)

    def post_add(ex, o, w, pre, ctx):
        a = ctx["arg"].info
        clash = z3.Or([z3.And(p, z3.Or(d["ns"] == a["ns"], d["name"] == a["name"])) for p, d in pre]) if pre else z3.BoolVal(False)
        okr = o.value.disc == 0
        exp_ok = pre + [(z3.BoolVal(True), a)]
        return [("add succeeds iff no stored model has its namespace or its name", okr == z3.Not(clash)),
                ("a successful add appends the model, a rejected add changes nothing",
                 z3.If(okr, same_list(ex, o.st, w["definitions"], exp_ok), same_list(ex, o.st, w["definitions"], pre))),
                ("a successful add empties the deployed evaluators", z3.Implies(okr, w["model_evaluators_by_name"].len == 0))]
    mk("add", op_add, post_add)

    # remove ----------------------------------------------------------------------------------------------------------------
    def op_remove(ex, st, ctx, inputs):
        ns, nm = z3.Int(ex.fresh_name("rm_ns")), z3.Int(ex.fresh_name("rm_name"))
        ctx["rm"] = (ns, nm)
        inputs["rm_ns"], inputs["rm_name"] = ns, nm
        return lambda ex, st: ex.run("Workspace::remove", [ctx["wsref"], StrV(None, id=ns), StrV(None, id=nm)], st)

    def post_remove(ex, o, w, pre, ctx):
        ns, nm = ctx["rm"]
        exp = [(z3.And(p, z3.Not(z3.And(d["ns"] == ns, d["name"] == nm))), d) for p, d in pre]
        return [("remove(namespace, name) deletes the model with that namespace and name and nothing else", same_list(ex, o.st, w["definitions"], exp)),
                ("remove empties the deployed evaluators", w["model_evaluators_by_name"].len == 0)]
    mk("remove", op_remove, post_remove)

    # replace ---------------------------------------------------------------------------------------------------------------
    def op_replace(ex, st, ctx, inputs):
        d = fresh_def(ex, st, "arg")
        ctx["arg"] = d
        inputs["arg_ns"], inputs["arg_name"], inputs["arg_builds"] = d.info["ns"], d.info["name"], d.info["builds"]
        return lambda ex, st: ex.run("Workspace::replace", [ctx["wsref"], d], st)

    def post_replace(ex, o, w, pre, ctx):
        a = ctx["arg"].info
        rest = [(z3.And(p, z3.Not(z3.And(d["ns"] == a["ns"], d["name"] == a["name"]))), d) for p, d in pre]
        clash = z3.Or([z3.And(p, z3.Or(d["ns"] == a["ns"], d["name"] == a["name"])) for p, d in rest]) if rest else z3.BoolVal(False)
        okr = o.value.disc == 0
        return [("replace = remove(the model of the same namespace and name) then add", okr == z3.Not(clash)),
                ("replace leaves exactly the remaining models plus the new one (or just the remaining ones when rejected)",
                 z3.If(okr, same_list(ex, o.st, w["definitions"], rest + [(z3.BoolVal(True), a)]), same_list(ex, o.st, w["definitions"], rest)))]
    mk("replace", op_replace, post_replace)

    # clear -----------------------------------------------------------------------------------------------------------------
    mk("clear", lambda ex, st, ctx, inputs: (lambda ex, st: ex.run("Workspace::clear", [ctx["wsref"]], st)),
       lambda ex, o, w, pre, ctx: [("clear leaves nothing", z3.And(w["definitions"].len == 0, w["model_evaluators_by_name"].len == 0))])

    # deploy ----------------------------------------------------------------------------------------------------------------
    def post_deploy(ex, o, w, pre, ctx):
        ev = w["model_evaluators_by_name"]
        keys = [(ev.len > i, key_id(e.fields[0])) for i, e in enumerate(ev.items)]
        c = [same_list(ex, o.st, w["definitions"], pre), o.value.disc == 0]
        for p, d in pre:
            has = z3.Or([z3.And(pk, k == d["name"]) for pk, k in keys]) if keys else z3.BoolVal(False)
            c.append(z3.Implies(p, has == d["builds"]))
        return [("deploy keeps the list and creates an evaluator exactly for the stored models that build (a failing model does not stop the others)", z3.And(c))]
    mk("deploy", lambda ex, st, ctx, inputs: (lambda ex, st: ex.run("Workspace::deploy", [ctx["wsref"]], st)), post_deploy, unwind=N + 3)

    run_parallel(check, jobs)


# ----------------------------------------------------------------------------- native replay


def replay_ws(oid, i, rb, N):
    """rebuild the pre-state through the public API (adds of generated models), apply the operation, print the indexes"""
    n = i["n"]
    models = [(i["m%d_ns" % k], i["m%d_name" % k], i["m%d_builds" % k]) for k in range(min(n, N))]
    ops = ["add:%d:%d:%d" % (ns, nm, 1 if b else 0) for ns, nm, b in models]
    if i.get("ndeployed", 0) > 0:
        ops.append("deploy")
    if oid in ("add", "replace"):
        ops.append("%s:%d:%d:%d" % (oid, i["arg_ns"], i["arg_name"], 1 if i["arg_builds"] else 0))
    elif oid == "remove":
        ops.append("remove:%d:%d" % (i["rm_ns"], i["rm_name"]))
    else:
        ops.append(oid)
    _, out, _ = replay_call(rb, ["workspace"] + ops)
    m = re.match(r"results=(\S*) list=(\S*) by_ns=(\S*) by_name=(\S*) evals=(\S*)$", out.strip())
    if not m:
        return False, "replay output not understood: %s" % out[:300]
    results = m.group(1).split(",")
    lst = [x for x in m.group(2).split(",") if x]
    by_ns, by_name, evals = [sorted(x for x in m.group(k).split(",") if x) for k in (3, 4, 5)]
    # reference semantics on the same operation sequence
    ref, ref_eval, want = [], set(), []
    for op in ops:
        p = op.split(":")
        if p[0] in ("add", "replace"):
            ns, nm, b = "ns" + p[1], "name" + p[2], p[3] == "1"
            if p[0] == "replace":
                ref = [x for x in ref if not (x[0] == ns and x[1] == nm)]
                ref_eval = set()
            if any(x[0] == ns or x[1] == nm for x in ref):
                want.append("err")
            else:
                ref.append((ns, nm, b))
                ref_eval = set()
                want.append("ok")
        elif p[0] == "remove":
            ref = [x for x in ref if not (x[0] == "ns" + p[1] and x[1] == "name" + p[2])]
            ref_eval = set()
            want.append("ok")
        elif p[0] == "clear":
            ref, ref_eval = [], set()
            want.append("ok")
        elif p[0] == "deploy":
            ref_eval = {x[1] for x in ref if x[2]}
            want.append("ok")
    problems = []
    if lst != ["%s/%s" % (x[0], x[1]) for x in ref]:
        problems.append("WRONG list %s, expected %s" % (lst, ["%s/%s" % (x[0], x[1]) for x in ref]))
    if by_ns != sorted(x.split("/")[0] for x in lst):
        problems.append("INCONSISTENT namespace index %s vs list %s" % (by_ns, lst))
    if by_name != sorted(x.split("/")[1] for x in lst):
        problems.append("INCONSISTENT name index %s vs list %s" % (by_name, lst))
    if evals != sorted(ref_eval):
        problems.append("WRONG evaluators %s, expected %s" % (evals, sorted(ref_eval)))
    if results != want:
        problems.append("WRONG results %s, expected %s" % (results, want))
    return bool(problems), "ops %s -> %s" % (ops, "; ".join(problems) or out[:200])


KNOWN_PRED = {}
