"""C18 — JSON rendering of evaluation results, decided fragment: string escaping (DESIGN §4 C18).

The HTTP service itself (sockets, actix, RwLock sharing, request histories) is outside every engine here.  What the service puts
into the `data` member of its answer is `Value::jsonify()` (server.rs: format!("{{\\"data\\":{}}}", value.jsonify())), and the part of
it that decides whether the answer is well-formed JSON at all is the rendering of strings.

Engine M: `<Value as Jsonify>::jsonify` is executed from the MIR of the feel crate on
  * Value::String(s), s a sequence of 0..3 (thorough 4) symbolic Unicode scalar values;
  * Value::Null, Value::Boolean(b).
The rendering is read back by a JSON string decoder written over the symbolic output: every output character is either a constant
the code wrote or one of the input's characters under the path condition of the branch that copied it.  Obligation: the output is
one JSON string literal (quotation mark, the characters, quotation mark; no unescaped quotation mark, reverse solidus or control
character < U+0020 inside) that decodes to exactly s; null and Booleans render as the JSON literals.
"""
import json
import re

import z3

from vcommon import *  # noqa
from mcheck import MirCrate, decide, run_parallel, model_value
from mir.sym import Adt, En, FnV, Opaque, Outcome, Ref, Sc, StrV, VecV, UNIT, mk_bool, mk_int, none, some
from mir.models import deref, R, expand_pieces
from mir.parser import MirUnsupported
import feelvals as fv
import charseq as cs

ENGINE = "M (MIR -> SMT, z3): Value::jsonify over strings as sequences of symbolic Unicode scalar values"


def _seq_items(ex, st, s):
    q = cs.seq_of(s)
    n = ex.concrete(q.len)
    if n is None:
        raise MirUnsupported("string of symbolic length in a formatting position")
    return list(q.items[:n])


def m_format_seq(ex, st, callee, args, dest_ty):
    """format!: literal pieces and `{}` of strings, as one character sequence (lengths concrete on the path)"""
    a = deref(ex, st, args[0])
    for item in expand_pieces(ex, st, a.info):
        if isinstance(item, Outcome):
            yield item
            continue
        st2, flat = item

        def rec(st, k, acc):
            if k == len(flat):
                yield st, StrV(None, seq=VecV(z3.IntVal(len(acc)), tuple(acc), "char"))
                return
            p = flat[k]
            if p[0] == "lit":
                yield from rec(st, k + 1, acc + [Sc(z3.IntVal(ord(c)), "char") for c in p[1]])
            elif p[0] == "arg" and isinstance(p[2], StrV) and not (p[3] or {}).get("width"):
                q = cs.seq_of(p[2])
                for st3, n in ex.enum_values(st, q.len, limit=len(q.items) + 2):
                    yield from rec(st3, k + 1, acc + list(q.items[:n]))
            elif p[0] == "arg" and isinstance(p[2], Sc) and p[2].ty == "bool":
                for st3 in ex.branch(st, p[2].e):
                    yield from rec(st3, k + 1, acc + [Sc(z3.IntVal(ord(c)), "char") for c in "true"])
                for st3 in ex.branch(st, z3.Not(p[2].e)):
                    yield from rec(st3, k + 1, acc + [Sc(z3.IntVal(ord(c)), "char") for c in "false"])
            elif p[0] == "arg" and isinstance(p[2], Sc) and p[2].ty in ("u32", "u8", "u16", "usize", "char") and p[1] in ("lower_hex", "upper_hex") \
                    and (p[3] or {}).get("zero") and (p[3] or {}).get("width"):
                w = int(p[3]["width"])
                v = p[2].e
                up = 55 if p[1] == "upper_hex" else 87

                def digits_of(n):
                    out = []
                    for j in range(n - 1, -1, -1):
                        d = (v / (16 ** j)) % 16
                        out.append(Sc(z3.simplify(z3.If(d < 10, 48 + d, up + d)), "char"))
                    return out
                # zero-padded to the width; a value that needs more digits gets them all (std::fmt): widths up to 8 digits (u32)
                for st3 in ex.branch(st, v < 16 ** w):
                    yield from rec(st3, k + 1, acc + digits_of(w))
                for n in range(w + 1, 9):
                    for st3 in ex.branch(st, z3.And(v >= 16 ** (n - 1), v < 16 ** n)):
                        yield from rec(st3, k + 1, acc + digits_of(n))
            else:
                raise MirUnsupported("format argument %r" % (p,))
        yield from rec(st2, 0, [])


def _base(ex, st, r):
    base = r
    while isinstance(ex.read(st, base.cell, base.projs), Ref):
        base = ex.read(st, base.cell, base.projs)
    return base


def m_string_new(ex, st, callee, args, dest_ty):
    yield st, StrV(None, seq=VecV(z3.IntVal(0), (), "char"))


def m_string_push(ex, st, callee, args, dest_ty):
    base = _base(ex, st, args[0])
    s = ex.read(st, base.cell, base.projs)
    items = _seq_items(ex, st, s)
    ex.write(st, base.cell, base.projs, StrV(None, seq=VecV(z3.IntVal(len(items) + 1), tuple(items + [args[1]]), "char")))
    yield st, UNIT


def _hex_digit(d, upper=False):
    return z3.If(d < 10, 48 + d, (55 if upper else 87) + d)


def m_char_escape(ex, st, callee, args, dest_ty):
    """char::escape_unicode: the characters \\ u { <hex digits of the scalar, lower case, no leading zeros> } ; escape_default / escape_debug are not modelled"""
    c = args[0].e
    for k in range(1, 7):
        lo, hi = (16 ** (k - 1) if k > 1 else 0), 16 ** k
        for st2 in ex.branch(st, z3.And(c >= lo, c < hi)):
            digs = [Sc(z3.simplify(_hex_digit((c / (16 ** j)) % 16)), "char") for j in range(k - 1, -1, -1)]
            chars = [Sc(z3.IntVal(ord(x)), "char") for x in "\\u{"] + digs + [Sc(z3.IntVal(ord("}")), "char")]
            yield st2, Opaque("CharsOf", info=chars)


def m_string_extend_chars(ex, st, callee, args, dest_ty):
    it = args[1]
    if not (isinstance(it, Opaque) and it.sort == "CharsOf"):
        raise MirUnsupported("String::extend from %r" % (it,))
    base = _base(ex, st, args[0])
    items = _seq_items(ex, st, ex.read(st, base.cell, base.projs))
    ex.write(st, base.cell, base.projs, StrV(None, seq=VecV(z3.IntVal(len(items) + len(it.info)), tuple(items + list(it.info)), "char")))
    yield st, UNIT


def m_string_push_str(ex, st, callee, args, dest_ty):
    base = _base(ex, st, args[0])
    s = ex.read(st, base.cell, base.projs)
    t = deref(ex, st, args[1])
    q = cs.seq_of(t)
    for st2, n in ex.enum_values(st, q.len, limit=len(q.items) + 2):
        items = _seq_items(ex, st2, ex.read(st2, base.cell, base.projs)) + list(q.items[:n])
        ex.write(st2, base.cell, base.projs, StrV(None, seq=VecV(z3.IntVal(len(items)), tuple(items), "char")))
        yield st2, UNIT


def m_chars_next(ex, st, callee, args, dest_ty):
    r = args[0]
    it = ex.read(st, r.cell, r.projs)
    seq = it.info
    for st2 in ex.branch(st, seq.len <= 0):
        yield st2, none()
    if seq.items:
        for st2 in ex.branch(st, seq.len >= 1):
            ex.write(st2, r.cell, r.projs, Opaque("CharsIt", info=VecV(z3.simplify(seq.len - 1), tuple(seq.items[1:]), "char")))
            yield st2, some(seq.items[0])


def m_str_deref(ex, st, callee, args, dest_ty):
    yield st, args[0]


JSON_MODELS = [
    (R(r"^format$|^std::fmt::format$|^alloc::fmt::format$"), m_format_seq),
    (R(r"^(std::string::)?String::(new|with_capacity)$"), m_string_new),
    (R(r"^(std::string::)?String::push$"), m_string_push),
    (R(r"^(std::string::)?String::push_str$"), m_string_push_str),
    (R(r"^char::methods::<impl char>::escape_unicode$"), m_char_escape),
    (R(r"^<(std::string::)?String as Extend<char>>::extend::<.*>$"), m_string_extend_chars),
    (R(r"^<Chars<'_> as Iterator>::next$"), m_chars_next),
    (R(r"^<Chars<'_> as IntoIterator>::into_iter$"), lambda ex, st, c, a, d: iter([(st, a[0])])),
    (R(r"^<(std::string::)?String as Deref>::deref$|^(std::string::)?String::as_str$"), m_str_deref),
] + cs.STR_MODELS


def decode_json_string(ex, items):
    """-> (list of decoded code point terms, list of validity conditions) or None when the shape is not a JSON string literal.
    `items`: the output characters (z3 Int terms); constants are what the code wrote itself, symbolic ones are copied input."""
    conds = []
    const = lambda t: t.as_long() if z3.is_int_value(t) else None
    its = [z3.simplify(x.e) for x in items]
    if len(its) < 2 or const(its[0]) != 0x22 or const(its[-1]) != 0x22:
        return None
    body, out, i = its[1:-1], [], 0
    while i < len(body):
        c = const(body[i])
        if c is None:   # a copied input character: must be allowed unescaped
            conds.append(z3.And(body[i] >= 0x20, body[i] != 0x22, body[i] != 0x5C))
            out.append(body[i])
            i += 1
        elif c == 0x5C:
            if i + 1 >= len(body) or const(body[i + 1]) is None:
                return None
            e = chr(const(body[i + 1]))
            simple = {'"': 0x22, "\\": 0x5C, "/": 0x2F, "b": 8, "f": 12, "n": 10, "r": 13, "t": 9}
            if e in simple:
                out.append(z3.IntVal(simple[e]))
                i += 2
            elif e == "u" and i + 5 < len(body) + 0 and i + 5 <= len(body) - 0:
                hx = body[i + 2:i + 6]
                if len(hx) < 4:
                    return None
                val = z3.IntVal(0)
                for h in hx:
                    d = z3.If(z3.And(h >= 48, h <= 57), h - 48, z3.If(z3.And(h >= 97, h <= 102), h - 87, z3.If(z3.And(h >= 65, h <= 70), h - 55, -1)))
                    conds.append(d >= 0)
                    val = val * 16 + d
                out.append(z3.simplify(val))
                i += 6
            else:
                return None
        elif c < 0x20 or c == 0x22:
            return None
        else:
            out.append(body[i])
            i += 1
    return out, conds


def run(check, mirror, tier):
    import os
    # the request workers are private functions of dmntk-server: a shim (child module, cfg dmntk_verif_srv) runs them natively for the replay
    mirror.inject("workspace/src/workspace.rs", os.path.join(VERIF, "engines/shims/workspace_dump.rs"), "verif_ws", cfg="dmntk_verif_ws")
    with open(mirror.path("server/src/server.rs"), "a") as f:
        f.write('\n#[cfg(dmntk_verif_srv)]\n#[path = "%s"]\npub mod verif_srv;\n' % os.path.join(VERIF, "engines/shims/server_ops.rs"))
    with open(mirror.path("server/src/lib.rs"), "a") as f:
        f.write('\n#[cfg(dmntk_verif_srv)]\npub use server::verif_srv::{verif_server_ops, verif_tck};\n')
    rb = replay_build(mirror)
    rb_srv = replay_build(mirror, extra_cfg="--cfg dmntk_verif_ws --cfg dmntk_verif_srv", crate="replay_server", binary="dmntk-replay-server")
    crate = MirCrate(mirror, ["feel"], overflow_checks=True, enum_crates=("common", "feel-number", "feel"))
    U = fv.Universe(mirror)
    N = 3 if tier == "quick" else 4
    check.bounds += ["strings of 0..%d symbolic Unicode scalar values (any scalar value, surrogates excluded)" % N]
    check.assumptions += ["String::new / with_capacity / push / push_str, str::chars and format! by their std contracts over character sequences",
                          "the server wraps the rendering as {\"data\": <rendering>} (server.rs); everything else of the HTTP service is outside this family"]
    jobs = []

    def setup(ex, st):
        s, n, cps = cs.fresh_string(ex, st, "s", N)
        v = En("Value", z3.IntVal(U.idx("String")), {"String": (s,)})
        return "<Value as Jsonify>::jsonify", [Ref(ex.new_cell(st, v, "value"))], dict(n=n, _cps=cps)

    def post(ex, o, v):
        out = o.value
        if not isinstance(out, StrV):
            return [("the rendering is a string", z3.BoolVal(False))]
        try:
            items = _seq_items(ex, o.st, out)
        except MirUnsupported:
            return [("the rendering has a definite shape on every path", z3.BoolVal(False))]
        dec = decode_json_string(ex, items)
        if ex.check() != z3.sat:
            return []
        m = ex.solver.model()
        n = m.eval(v["n"], model_completion=True).as_long()
        props = []
        if dec is None:
            props.append(("the rendering of a string is one JSON string literal", z3.BoolVal(False)))
            return props
        chars, conds = dec
        props.append(("no quotation mark, reverse solidus or control character appears unescaped", z3.And(conds + [z3.BoolVal(True)])))
        props.append(("the JSON string decodes to exactly the characters of the value",
                      z3.And([v["n"] == n, z3.BoolVal(len(chars) == n)] + [c == v["_cps"][j].e for j, c in enumerate(chars[:n])] if len(chars) == n else [z3.BoolVal(False)])))
        props.append(("reach:three", z3.BoolVal(n >= 3)))
        return props

    def desc(m, v):
        n = model_value(m, v["n"])
        return {"chars": [model_value(m, c.e) for c in v["_cps"][:n]]}

    def prefer(v):
        # witnesses a FEEL string literal can spell: quotation mark, reverse solidus, line feed, tab, U+0001, a
        ok_ = lambda c: z3.Or(c == 0x22, c == 0x5C, c == 0x0A, c == 0x09, c == 0x01, c == 0x61)
        return z3.And([ok_(c.e) for c in v["_cps"]])

    def replay(i, rb):
        esc = {0x22: '\\"', 0x5C: "\\\\", 0x0A: "\\n", 0x09: "\\t", 0x0D: "\\r"}
        lit = '"' + "".join(esc.get(c, chr(c) if c >= 0x20 and c < 0xD800 else "\\u%04X" % c if c < 0x10000 else "\\U%06X" % c) for c in i["chars"]) + '"'
        _, out, _ = replay_call(rb, ["jsonify", lit])
        if not out.startswith("JSON "):
            return False, "replay failed: " + out[:100]
        txt = bytes.fromhex(out[5:].strip()).decode("utf-8", "replace")
        want = "".join(chr(c) for c in i["chars"])
        try:
            got = json.loads(txt)
            bad = got != want
            note = "decodes to %r" % got
        except Exception as e:
            bad, note = True, "is not valid JSON (%s)" % str(e)[:60]
        return bad, "the FEEL string %s renders as %s, which %s; the value is %r" % (lit, txt[:80], note, want)

    jobs.append(lambda c: decide(c, crate, "json/string", setup, post, replay, rb, models=JSON_MODELS, unwind=4 * N + 8, describe=desc, prefer=prefer,
                                 need_reach=["reach:three"], max_cex=4, budget_s=900, known_predicates=KNOWN_PRED))

    def setup_lit(ex, st):
        b = ex.fresh_bool("b")
        isnull = z3.Bool(ex.fresh_name("is_null"))
        v = En("Value", z3.If(isnull, z3.IntVal(U.idx("Null")), z3.IntVal(U.idx("Boolean"))), {"Null": (none(),), "Boolean": (b,)})
        return "<Value as Jsonify>::jsonify", [Ref(ex.new_cell(st, v, "value"))], dict(is_null=isnull, b=b.e)

    def post_lit(ex, o, v):
        out = o.value
        if not isinstance(out, StrV):
            return [("the rendering is a string", z3.BoolVal(False))]
        txt = out.const
        if txt is None:
            try:
                its = [z3.simplify(x.e) for x in _seq_items(ex, o.st, out)]
                txt = "".join(chr(t.as_long()) for t in its) if all(z3.is_int_value(t) for t in its) else None
            except MirUnsupported:
                txt = None
        return [("null renders as null, Booleans as true / false", z3.And(z3.Implies(v["is_null"], z3.BoolVal(txt == "null")),
                                                                          z3.Implies(z3.And(z3.Not(v["is_null"]), v["b"]), z3.BoolVal(txt == "true")),
                                                                          z3.Implies(z3.And(z3.Not(v["is_null"]), z3.Not(v["b"])), z3.BoolVal(txt == "false"))))]
    jobs.append(lambda c: decide(c, crate, "json/literals", setup_lit, post_lit, None, rb, models=JSON_MODELS, min_paths=3,
                                 describe=lambda m, v: {k: model_value(m, x) for k, x in v.items()}, known_predicates=KNOWN_PRED))
    # --- every other kind of value a decision can return: temporal values, ranges, functions --------------------------------------
    KINDS = {"Date": 'date("2021-10-03")', "Time": 'time("12:00:00")', "DateTime": 'date and time("2021-10-03T12:00:00")',
             "DaysAndTimeDuration": 'duration("P1DT2H")', "YearsAndMonthsDuration": 'duration("P1Y2M")'}
    check.bounds.append("json/kinds: Value::jsonify on date, time, date-and-time and duration values whose FEEL text is a sequence of 1..%d symbolic characters" % N)

    def mk_kind(kind):
        def setup(ex, st):
            s, n, cps = cs.fresh_string(ex, st, "text", N)
            ex.assume(st, n >= 1)
            # the payload stands for "a value whose Display text is the character sequence s"
            v = En("Value", z3.IntVal(U.idx(kind)), {kind: (s,)})

            def m_display(ex, st, callee, args, dest_ty):
                f = args[1]
                cur = deref(ex, st, f)
                ex.write(st, f.cell, f.projs, Opaque("Formatter", info=tuple(cur.info) + (("arg", "display", s, {}),)))
                yield st, En("Result", z3.IntVal(0), {"Ok": (UNIT,)})

            def runner(ex, st):
                ex.models[:0] = [(R(r"^<(dmntk_feel::values::)?Value as (std::fmt::)?Display>::fmt$"), m_display),
                                 (R(r"^<(dmntk_feel::values::)?Value as ToString>::to_string$"), lambda ex, st, c, a, d: iter([(st, s)]))]
                yield from ex.run("<Value as Jsonify>::jsonify", [Ref(ex.new_cell(st, v, "value"))], st)
            return runner, None, dict(n=n, _cps=cps, kind=kind)

        def post_kind(ex, o, v):
            out = o.value
            if not isinstance(out, StrV):
                return [("the rendering is a string", z3.BoolVal(False))]
            try:
                items = _seq_items(ex, o.st, out)
            except MirUnsupported:
                return [("the rendering has a definite shape on every path", z3.BoolVal(False))]
            dec = decode_json_string(ex, items)
            if ex.check() != z3.sat:
                return []
            n = ex.solver.model().eval(v["n"], model_completion=True).as_long()
            if dec is None:
                return [("the rendering of a %s value is a JSON value: a string holding its FEEL text" % kind, z3.BoolVal(False))]
            chars, conds = dec
            return [("no quotation mark, reverse solidus or control character appears unescaped", z3.And(conds + [z3.BoolVal(True)])),
                    ("the JSON string decodes to exactly the text of the value",
                     z3.And([v["n"] == n, z3.BoolVal(len(chars) == n)] + [c == v["_cps"][j].e for j, c in enumerate(chars[:n])] if len(chars) == n else [z3.BoolVal(False)]))]

        def replay_kind(i, rb):
            notes, bad = [], False
            for expr in (KINDS[kind], "[%s]" % KINDS[kind], "{a: %s}" % KINDS[kind]):
                _, out, _ = replay_call(rb, ["jsonify", expr])
                if not out.startswith("JSON "):
                    notes.append("%s: replay failed %s" % (expr, out[:60]))
                    continue
                txt = bytes.fromhex(out[5:].strip()).decode("utf-8", "replace")
                try:
                    json.loads(txt)
                    notes.append("%s renders as %s" % (expr, txt[:60]))
                except Exception as e:
                    bad = True
                    notes.append("%s renders as %s, which is not valid JSON (%s)" % (expr, txt[:70], str(e)[:40]))
            return bad, "; ".join(notes)
        jobs.append(lambda c: decide(c, crate, "json/kinds/" + kind, setup, post_kind, replay_kind, rb, models=JSON_MODELS, unwind=4 * N + 8,
                                     describe=lambda m, v: {"kind": kind, "text": [model_value(m, c.e) for c in v["_cps"][:model_value(m, v["n"])]]}, max_cex=1, budget_s=600))
    for kind in KINDS:
        mk_kind(kind)
    from checks import C18_handlers
    C18_handlers.jobs_for(check, mirror, rb_srv, jobs)
    C18_handlers.tck_jobs(check, mirror, MirCrate(mirror, ["server"], overflow_checks=True, enum_crates=("common", "feel", "model", "workspace")), U, jobs, rb_srv)
    run_parallel(check, jobs)
    # "the definitions endpoints behave as the same sequence of workspace operations": what those operations do is C17's inductive step
    run_companion(check, mirror, tier, "C17", ["add", "replace", "remove", "clear", "deploy"])


KNOWN_PRED = {}
