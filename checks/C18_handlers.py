"""C18 — the definitions endpoints behave as the same sequence of workspace operations (DESIGN §4 C18).

The request workers the HTTP handlers delegate to (`do_add_definitions`, `do_replace_definitions`, `do_remove_definitions`,
`do_clear_definitions`, `do_deploy_definitions` of server/src/server.rs; the handlers themselves only take the lock and wrap the
answer) are executed from the MIR of dmntk-server with `Workspace::*` as recorders and base64 / UTF-8 / XML decoding as arbitrary
successes or failures. Obligation: a well-formed request performs exactly the workspace operation its endpoint is named after,
with the decoded model (replace REPLACES), and answers with that operation's outcome; a malformed request performs no workspace
operation at all and answers with an error. Why a wrong mapping matters is decided by C17 (what the operations do)."""
import base64
import re

import z3

from vcommon import *  # noqa
from mcheck import MirCrate, decide, model_value
from mir.sym import Adt, En, Opaque, Outcome, Ref, Sc, StrV, VecV, UNIT, mk_bool, mk_int, none, some
from mir.models import deref, m_format_stub
from mir.parser import MirUnsupported
import feelvals as fv

MODEL = ('<?xml version="1.0" encoding="UTF-8"?><definitions namespace="%s" name="%s" id="_m" xmlns="https://www.omg.org/spec/DMN/20191111/MODEL/">'
         '<decision name="d" id="_d"><variable name="d"/><literalExpression><text>%s</text></literalExpression></decision></definitions>')


def b64(ns, name, text):
    return base64.b64encode((MODEL % (ns, name, text)).encode()).decode()


def jobs_for(check, mirror, rb_srv, jobs):
    crate = MirCrate(mirror, ["server"], overflow_checks=True, enum_crates=("common", "feel", "model", "workspace"))
    check.bounds.append("request workers: every combination of present / absent parameters, decodable / undecodable base64, valid / invalid UTF-8, parsable / unparsable model, "
                        "succeeding / failing workspace operation")
    check.assumptions.append("request workers: Workspace::{add, replace, remove, clear, deploy} are recorders with an arbitrary outcome (their effect: C17); base64::decode, String::from_utf8 and "
                             "dmntk_model::parse succeed or fail arbitrarily; the actix handlers around the workers (lock, JSON wrapping) are not executed")

    def mk(op):
        def setup(ex, st):
            inputs = {}
            flags = {}

            def flag(n):
                b = z3.Bool(ex.fresh_name(n))
                flags[n] = b
                inputs[n] = b
                return b

            def opt_str(n, sid):
                b = flag(n)
                return En("Option", z3.If(b, z3.IntVal(1), z3.IntVal(0)), {"None": (), "Some": (StrV(None, id=z3.IntVal(sid)),)})
            ws = Ref(ex.new_cell(st, Opaque("Workspace"), "workspace"))

            def res(okb, okv, tag):
                return En("Result", z3.If(okb, z3.IntVal(0), z3.IntVal(1)), {"Ok": (okv,), "Err": (Opaque("Error", info=tag),)})

            def m_b64(ex, st, callee, args, dest_ty):
                st.log.append(("decode", deref(ex, st, args[0]) if isinstance(args[0], Ref) else args[0]))
                yield st, res(flag("base64_ok"), Opaque("Bytes", "decoded"), "base64")

            def m_utf8(ex, st, callee, args, dest_ty):
                yield st, res(flag("utf8_ok"), StrV(None, id=z3.IntVal(77)), "utf8")

            def m_parse(ex, st, callee, args, dest_ty):
                yield st, res(flag("xml_ok"), Opaque("Definitions", "parsed"), "xml")

            def m_ws(name, fallible):
                def m(ex, st, callee, args, dest_ty):
                    st.log.append(("workspace", name, [deref(ex, st, a) if isinstance(a, Ref) else a for a in args[1:]]))
                    if fallible:
                        yield st, res(flag("workspace_ok"), UNIT, "workspace")
                    else:
                        yield st, UNIT
                return m
            models = [(re.compile(r"^(base64::)?decode(::<.*>)?$"), m_b64),
                      (re.compile(r"^(std::string::)?String::from_utf8$"), m_utf8),
                      (re.compile(r"^(dmntk_model::)?parse$"), m_parse),
                      (re.compile(r"^(dmntk_model::model::)?Definitions::namespace$"), lambda ex, st, c, a, d: iter([(st, StrV(None, id=z3.IntVal(501)))])),
                      (re.compile(r"^<(dmntk_model::model::)?Definitions as (dmntk_model::)?NamedElement>::name$"), lambda ex, st, c, a, d: iter([(st, StrV(None, id=z3.IntVal(502)))])),
                      (re.compile(r"^errors::err_|^err_"), lambda ex, st, c, a, d: iter([(st, Opaque("Error", info=c))])),
                      (re.compile(r"^format$|^std::fmt::format$|^alloc::fmt::format$"), m_format_stub)]
            for name, fallible in (("add", True), ("replace", True), ("remove", False), ("clear", False), ("deploy", True), ("evaluate_invocable", True)):
                models.append((re.compile(r"^(dmntk_workspace::)?Workspace::%s$" % name), m_ws(name, fallible)))
            if op in ("add", "replace"):
                params = Ref(ex.new_cell(st, Adt("struct", "Params", (opt_str("has_content", 11),)), "params"))
                argv = [ws, params]
            elif op == "remove":
                params = Ref(ex.new_cell(st, Adt("struct", "Params", (opt_str("has_namespace", 21), opt_str("has_name", 22))), "params"))
                argv = [ws, params]
            else:
                argv = [ws]

            def runner(ex, st):
                ex.models[:0] = models
                yield from ex.run("do_%s_definitions" % op, argv, st)
            inputs["_flags"] = flags
            return runner, None, inputs

        def post(ex, o, v):
            f = v["_flags"]
            calls = [e for e in o.st.log if e[0] == "workspace"]
            r = o.value
            T, F = z3.BoolVal(True), z3.BoolVal(False)
            g = lambda n: f.get(n, T)
            if op in ("add", "replace"):
                wellformed = z3.And(g("has_content"), g("base64_ok"), g("utf8_ok"), g("xml_ok"))
            elif op == "remove":
                wellformed = z3.And(g("has_namespace"), g("has_name"))
            else:
                wellformed = T
            one = len(calls) == 1 and calls[0][1] == op
            props = [("a well-formed request performs exactly the workspace operation of its endpoint, once", z3.Implies(wellformed, z3.BoolVal(one))),
                     ("a malformed request performs no workspace operation", z3.Implies(z3.Not(wellformed), z3.BoolVal(len(calls) == 0))),
                     ("a malformed request is answered with an error", z3.Implies(z3.Not(wellformed), r.disc == 1))]
            if one:
                args = calls[0][2]
                if op in ("add", "replace"):
                    props.append(("the operation receives the decoded model", z3.BoolVal(len(args) == 1 and isinstance(args[0], Opaque) and args[0].e == "parsed")))
                if op == "remove":
                    okr = len(args) == 2 and all(isinstance(a, StrV) and "id" in a.attrs for a in args) and ex.concrete(args[0].attrs["id"]) == 21 and ex.concrete(args[1].attrs["id"]) == 22
                    props.append(("remove receives the namespace and the name, in that order", z3.BoolVal(bool(okr))))
                if op in ("add", "replace", "deploy"):
                    props.append(("the answer reports the outcome of the workspace operation", z3.Implies(wellformed, (r.disc == 0) == g("workspace_ok"))))
                else:
                    props.append(("the answer reports success", z3.Implies(wellformed, r.disc == 0)))
                if op == "add" and "Ok" in r.alts:
                    res_ = r.alts["Ok"][0]
                    okn = isinstance(res_, Adt) and len(res_.fields) == 2 and all(isinstance(x, StrV) and "id" in x.attrs for x in res_.fields) and \
                        ex.concrete(res_.fields[0].attrs["id"]) == 501 and ex.concrete(res_.fields[1].attrs["id"]) == 502
                    props.append(("add answers with the namespace and the name of the added model", z3.Implies(r.disc == 0, z3.BoolVal(bool(okn)))))
            props.append(("reach:wellformed", wellformed))
            props.append(("reach:malformed", z3.Not(wellformed)) if op in ("add", "replace", "remove") else ("reach:wellformed2", wellformed))
            return props

        def desc(m, v):
            return {k: model_value(m, x) for k, x in v.items() if not k.startswith("_")}

        def replay(i, rb):
            """the endpoint's worker on a real workspace: what it leaves behind must be what the workspace operation of that name leaves behind"""
            A, A2, B = b64("nsA", "mA", "1"), b64("nsA", "mA", "2"), b64("nsB", "mB", "1")
            scripts = {
                "add": ([["add:" + A], ["add:" + A, "add:" + B], ["add:-"], ["add:%%%"], ["add:" + base64.b64encode(b"\xff\xfe").decode()], ["add:" + base64.b64encode(b"<x/>").decode()]],
                        ["list=nsA/mA ", "list=nsA/mA,nsB/mB ", "list= ", "list= ", "list= ", "list= "]),
                "replace": ([["add:" + A, "deploy", "replace:" + A2, "deploy", "eval:mA:d:{}"], ["replace:" + A], ["add:" + A, "replace:" + B]],
                            ['{"data":2}', "list=nsA/mA ", "list=nsA/mA,nsB/mB "]),
                "remove": ([["add:" + A, "add:" + B, "remove:nsA:mA"], ["add:" + A, "remove:-:mA"], ["add:" + A, "remove:nsA:-"], ["add:" + A, "remove:mA:nsA"]],
                           ["list=nsB/mB ", "list=nsA/mA ", "list=nsA/mA ", "list=nsA/mA "]),
                "clear": ([["add:" + A, "add:" + B, "clear"]], ["list= "]),
                "deploy": ([["add:" + A, "deploy", "eval:mA:d:{}"]], ['{"data":1}']),
            }[op]
            notes, bad = [], False
            for ops, want in zip(*scripts):
                _, out, err_ = replay_call(rb_srv, ["ops"] + ops, timeout=60)
                dev = want not in out
                bad = bad or dev
                short = [o_.split(":")[0] + (":.." if ":" in o_ and not o_.startswith(("remove", "eval")) else ":" + o_.split(":", 1)[1] if ":" in o_ else "") for o_ in ops]
                notes.append("%s -> %s%s" % (" ".join(short), re.sub(r"[A-Za-z0-9+/=]{40,}", "..", out)[:160], "" if not dev else "  [expected to contain %r]" % want))
            return bad, "; ".join(notes)
        jobs.append(lambda c: decide(c, crate, "handlers/" + op, setup, post, replay, rb_srv, models=[] + fv.VALUE_MODELS, unwind=8, describe=desc, budget_s=300, min_paths=1, max_cex=2,
                                     need_reach=["reach:wellformed"] + (["reach:malformed"] if op in ("add", "replace", "remove") else [])))
    for op in ("add", "replace", "remove", "clear", "deploy"):
        mk(op)


# ----------------------------------------------------------------------------- typed values in TCK format round-trip (server/src/dto.rs)
KIND_CONVERTER = {"String": "string", "Number": "number", "Boolean": "boolean", "Date": "date", "Time": "time", "DateTime": "date_time",
                  "DaysAndTimeDuration": "duration", "YearsAndMonthsDuration": "duration", "Null": "nil"}
FEEL_OF_KIND = {"String": '"a"', "Number": "1.5", "Boolean": "true", "Date": 'date("2021-10-03")', "Time": 'time("08:00:00")', "DateTime": 'date and time("2021-10-03T08:00:00")',
                "DaysAndTimeDuration": 'duration("P1DT2H")', "YearsAndMonthsDuration": 'duration("P1Y2M")', "Null": "null"}


def tck_jobs(check, mirror, crate, U, jobs, rb_srv=None):
    check.bounds.append("TCK values: a value of each simple kind (string, number, boolean, date, time, date and time, both durations, null) at the top level of a result (OutputNodeDto) "
                        "and nested in a list / context (ValueDto), converted to its DTO and read back")
    check.assumptions.append("TCK values: Value::to_string gives the value's text (an identity here), Value::try_from_xsd_* are recorders returning a value of their kind "
                             "(their own parsing: C07, C14); the JSON (de)serialisation of the DTOs by serde is not executed")

    def mk(kind, nested):
        def setup(ex, st):
            text = StrV(None, id=z3.IntVal(77))
            v = En("Value", z3.IntVal(U.idx(kind)), {kind: ((text,) if kind == "String" else (none(),) if kind == "Null" else (Opaque("Payload", kind),))})

            def m_to_string(ex, st, callee, args, dest_ty):
                yield st, text

            def m_xsd(ex, st, callee, args, dest_ty):
                which = callee.rsplit("try_from_xsd_", 1)[1]
                t = deref(ex, st, args[0]) if isinstance(args[0], Ref) else args[0]
                st.log.append(("converter", which, t))
                yield st, En("Result", z3.IntVal(0), {"Ok": (En("Value", z3.IntVal(U.idx("Irrelevant")), {"Irrelevant": ()}),)})
            models = [(re.compile(r"^<(dmntk_feel::values::)?Value as ToString>::to_string$"), m_to_string),
                      (re.compile(r"^(dmntk_feel::values::)?Value::try_from_xsd_\w+$"), m_xsd),
                      (re.compile(r"^errors::\w+$|^(invalid|missing)_parameter$"), lambda ex, st, c, a, d: iter([(st, Opaque("Error", info=c))])),
                      (re.compile(r"^format$|^std::fmt::format$|^alloc::fmt::format$"), m_format_stub)]

            def runner(ex, st):
                ex.models[:0] = models
                if nested:
                    outs = ex.run("<ValueDto as TryFrom<&Value>>::try_from", [Ref(ex.new_cell(st, v, "value"))], st)
                else:
                    outs = ex.run("<OutputNodeDto as TryFrom<Value>>::try_from", [v], st)
                for o in outs:
                    if o.kind != "return":
                        yield o
                        continue
                    r = o.value
                    if ex.concrete(r.disc) != 0:
                        yield Outcome("return", o.st, ("not converted", None))
                        continue
                    dto = r.alts["Ok"][0]
                    if not nested:   # OutputNodeDto { value: Option<ValueDto> }
                        inner = dto.fields[0]
                        if ex.concrete(inner.disc) != 1:
                            yield Outcome("return", o.st, ("no value", None))
                            continue
                        dto = inner.alts["Some"][0]
                    for o2 in ex.run("<WrappedValue as TryFrom<&ValueDto>>::try_from", [Ref(ex.new_cell(o.st, dto, "dto"))], o.st):
                        if o2.kind != "return":
                            yield o2
                        else:
                            yield Outcome("return", o2.st, ("read back", o2.value))
            return runner, None, {"kind": kind, "nested": nested}

        def post(ex, o, v):
            what, r = o.value
            conv = [e for e in o.st.log if e[0] == "converter"]
            want = KIND_CONVERTER[kind]
            props = [("the value is converted to its DTO and read back", z3.BoolVal(what == "read back" and r is not None and ex.concrete(r.disc) == 0))]
            if what == "read back" and r is not None and ex.concrete(r.disc) == 0:
                back = r.alts["Ok"][0]
                back = back.fields[0] if isinstance(back, Adt) else back
                if want == "string":
                    okk = not conv and isinstance(back, En) and ex.concrete(back.disc) == U.idx("String") and isinstance(back.alts["String"][0], StrV) and ex.concrete(back.alts["String"][0].attrs.get("id")) == 77
                elif want == "nil":
                    okk = not conv and isinstance(back, En) and ex.concrete(back.disc) == U.idx("Null")
                else:
                    names = {"number": ("decimal", "integer", "double")}.get(want, (want,))
                    okk = len(conv) == 1 and conv[0][1] in names and isinstance(conv[0][2], StrV) and ex.concrete(conv[0][2].attrs.get("id")) == 77
                props.append(("reading the DTO back goes through the converter of the value's own kind, with the value's own text (type tag and text round-trip)", z3.BoolVal(bool(okk))))
            return props

        def replay(i, rb):
            """the real conversions on a value of that kind: DTO (serde JSON) and the value read back from it"""
            _, out, _ = replay_call(rb_srv, ["tck", FEEL_OF_KIND[kind]], timeout=60)
            m = re.match(r"^value=(.*?) \|\| top (.*?) back=(.*?) \|\| nested (.*?) back=(.*)$", out)
            if not m:
                return out.startswith("PANIC"), "tck replay: " + out[:160]
            orig, back = m.group(1), (m.group(5) if nested else m.group(3))
            want = "list<%s>:[%s]" % tuple(orig.split(":", 1)) if nested else orig
            norm = lambda x: x.replace(" ", "")
            return norm(back) != norm(want), "%s as %s -> %s, read back as %s (value %s)" % (FEEL_OF_KIND[kind], "a list item" if nested else "a result", (m.group(4) if nested else m.group(2))[:110], back[:60], orig[:40])
        jobs.append(lambda c: decide(c, crate, "tck/round_trip/%s/%s" % ("nested" if nested else "top", kind), setup, post, replay if rb_srv else None, rb_srv, models=[] + fv.VALUE_MODELS, unwind=8,
                                     describe=lambda m, v: dict(v), budget_s=300, min_paths=1, max_cex=1))
    for kind in KIND_CONVERTER:
        for nested in (False, True):
            mk(kind, nested)
