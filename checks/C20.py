"""C20 — evaluation from many threads: the per-call footprint on process-wide state, and a symbolic schedule over the lock operations
(DESIGN §4 C20).

No engine here executes threads.  What is decided is the condition under which interleavings cannot matter, on the real code, plus
a bounded interleaving query over the lock operations the real code performs:

  A  `dec_context/<wrapper>`: every wrapper of the decimal library in feel-number/src/dec.rs is executed from MIR with the foreign
     functions replaced by "writes through every *mut argument".  On every path each *mut argument must point into storage created
     by this very call (a clone of the default context, a local result) - never into DEFAULT_CONTEXT or another static, never into
     the caller's operands - and the wrapper neither writes nor reads process-wide mutable state (atomics, locks, static mut).
  B  `evaluation_locks/decision`: the evaluation closure of a decision (the one C04 decides functionally) is executed with the
     registry accessors of ModelEvaluator run from their own MIR over an RwLock model that records every acquisition.  On every
     path only read locks are taken, and the scope handed to the decision logic is created by this call.
  C  `schedule/<n> threads`: the lock operations recorded in B are the thread programs of a z3 query whose unknown is the schedule
     (which thread moves at each step) over a writer-preferring RwLock semantics; the query asks for a reachable state in which
     every unfinished thread is blocked.  unsat = no schedule of the recorded programs deadlocks.

A violation of A or B is a statement about shared state, not yet about a wrong answer: it is replayed natively by a bounded
contention run (several threads evaluating expressions that go through the function concerned, each result compared with the
sequential one) and reported as VIOLATION only when that run shows a wrong result; otherwise the verdict is inconclusive."""
import os
import re

import z3

from vcommon import *  # noqa
from mcheck import MirCrate, decide, run_parallel, model_value
from mir.sym import Adt, En, FnV, Opaque, Outcome, Ref, Sc, StrV, VecV, UNIT, mk_bool, mk_int, none, some, ok
from mir.models import deref, R
from mir.parser import MirUnsupported

ENGINE = "M (MIR -> SMT, z3): shared-state footprint of the decimal wrappers and of the decision evaluation closure; z3 schedule query over recorded lock operations"

# FEEL expressions that go through a wrapper: (one without a finite result, ordinary ones) for the contention replay
WORKLOAD = {
    "dec_square_root": ["sqrt(-1)", "sqrt(16)", "sqrt(2)"],
    "dec_ln": ["log(-1)", "log(10)", "log(0)"],
    "dec_exp": ["exp(100000)", "exp(1)", "exp(2)"],
    "dec_power": ["10 ** 7000", "1.5 ** 3", "0 ** 0", "2 ** 10"],
    "dec_divide": ["1 / 0", "1 / 3", "10 / 4"],
    "dec_remainder": ["modulo(10, 0)", "modulo(10, 3)"],
}
DEFAULT_WORKLOAD = ["10 ** 7000", "1.5 ** 3", "sqrt(-1)", "sqrt(16)", "log(-1)", "log(10)", "1 / 0", "1 / 3", "0.1 + 0.2", "decimal(1/3, 2)", "floor(-1.5)",
                    "10 ** 6144 * 9 + 10 ** 6144 * 9", "abs(-3)", "modulo(10, 3)", "exp(100000)", "exp(1)"]


def parse_externs(src):
    """extern "C" block of dec.rs: function name -> list of 'mut' / 'const' / None per parameter"""
    m = re.search(r'extern "C" \{(.*?)\n\}', src, re.S)
    out = {}
    for fm in re.finditer(r"fn (\w+)\((.*?)\)", m.group(1), re.S):
        kinds = []
        for p in fm.group(2).split(","):
            p = p.strip()
            if not p:
                continue
            kinds.append("mut" if "*mut" in p else "const" if "*const" in p else None)
        out[fm.group(1)] = kinds
    return out


def is_shared_cell(st, cid):
    return (isinstance(cid, tuple) and cid and cid[0] == "static") or cid in st.aux.get("shared_cells", ())


def m_lazy_deref(ex, st, callee, args, dest_ty):
    """Deref of a lazy_static: a reference into process-wide storage, initialised once and immutable afterwards"""
    name = re.match(r"^<(?:dec::)?(\w+) as Deref>::deref$", callee).group(1)
    key = "lazy:" + name
    if key not in st.aux:
        if name == "DEFAULT_CONTEXT":
            v = Adt("struct", "DecContext", [ex.fresh_int(st, t, "ctx_" + f) for f, t in
                                             (("digits", "i32"), ("emax", "i32"), ("emin", "i32"), ("round", "u32"), ("traps", "u32"), ("status", "u32"), ("clamp", "u8"))])
        else:
            v = Opaque("DecQuad", z3.Int(ex.fresh_name("lazy_" + name)))
        cid = ex.new_cell(st, v, "lazy_" + name)
        st.aux[key] = cid
        st.aux["shared_cells"] = tuple(st.aux.get("shared_cells", ())) + (cid,)
    yield st, Ref(st.aux[key])


def make_ffi(externs):
    def m_ffi(ex, st, callee, args, dest_ty):
        name = callee.split("::")[-1]
        kinds = externs.get(name)
        if kinds is None:
            raise MirUnsupported("foreign function %s is not declared in the extern block" % name)
        for k, (a, kind) in enumerate(zip(args, kinds)):
            if kind is None or not isinstance(a, Ref):
                continue
            shared = is_shared_cell(st, a.cell)
            caller = a.cell in st.aux.get("arg_cells", ())
            if kind == "mut":
                if shared or caller:
                    st.log.append(("ffi_shared_write", name, k + 1, "process-wide storage" if shared else "an operand of the caller"))
                else:
                    old = ex.read(st, a.cell, a.projs)
                    if isinstance(old, Adt) and all(isinstance(f, Sc) for f in old.fields):
                        # a plain struct of machine integers (the decimal context): every field may have been rewritten
                        new = Adt(old.kind, old.ty, [ex.fresh_int(st, f.ty, "ffi_" + name) for f in old.fields])
                    else:
                        new = Opaque("ffi_out", z3.Int(ex.fresh_name("ffi_" + name)))
                    ex.write(st, a.cell, a.projs, new)
        st.log.append(("ffi", name))
        if dest_ty and re.match(r"^(u32|i32|c_int|c_uint)$", dest_ty.strip()):
            yield st, ex.fresh_int(st, "u32" if dest_ty.strip() in ("u32", "c_uint") else "i32", "ffi_ret")
        else:
            yield st, Opaque("ptr")
    return m_ffi


def m_shared_write(ex, st, callee, args, dest_ty):
    tgt = args[0]
    st.log.append(("shared_write", callee, str(getattr(tgt, "cell", tgt))))
    if re.search(r"::(swap|fetch_\w+)$", callee):
        yield st, ex.fresh_int(st, "u32", "atomic_old")
    elif "compare_exchange" in callee:
        raise MirUnsupported("compare_exchange on shared state")
    else:
        yield st, UNIT


def m_shared_read(ex, st, callee, args, dest_ty):
    tgt = args[0]
    st.log.append(("shared_read", callee, str(getattr(tgt, "cell", tgt))))
    ty = "bool" if ("AtomicBool" in callee or "<bool>" in callee) else "usize" if ("AtomicUsize" in callee or "<usize>" in callee) else "u64" if "64" in callee else "u32"
    # whatever another thread stored last
    yield st, (ex.fresh_bool("atomic_load") if ty == "bool" else ex.fresh_int(st, ty, "atomic_load"))


def m_default_opaque(ex, st, callee, args, dest_ty):
    yield st, Opaque("default", z3.Int(ex.fresh_name("default")))


def shared_models(externs):
    return [
        (R(r"^<(dec::)?(DEFAULT_CONTEXT|DEC_ZERO|DEC_ONE|DEC_TWO|DEC_NANO|[A-Z][A-Z0-9_]+) as Deref>::deref$"), m_lazy_deref),
        (R(r"^(dec::)?(dec[A-Z]\w*|decimal128\w+)$"), make_ffi(externs)),
        (R(r"^(std::sync::atomic::)?Atomic(\w+|::<\w+>)::(store|swap|fetch_\w+|compare_exchange\w*)$"), m_shared_write),
        (R(r"^(std::sync::atomic::)?Atomic(\w+|::<\w+>)::load$"), m_shared_read),
        (R(r"^<(dec::)?(DecQuad|DecNumber) as Default>::default$"), m_default_opaque),
    ]


# ----------------------------------------------------------------------------- schedule query (part C)


def deadlock_query(programs, steps=None):
    """programs: per thread a list of ('r' | 'w' | 'u', lock id).  z3 query over the schedule: is a state reachable in which every
    unfinished thread is blocked?  RwLock semantics: readers share; a writer needs the lock free; a reader is refused while a writer
    holds the lock or waits for it (writer preference, as in std's futex implementation); a thread blocked on an acquisition stays
    there until the acquisition succeeds.  Returns (z3 result, schedule or None, number of steps)."""
    T = len(programs)
    locks = sorted({l for p in programs for _, l in p})
    total = sum(len(p) for p in programs)
    K = steps or total + 1
    s = z3.Solver()
    s.set("timeout", 60000)
    pc = [[z3.Int("pc_%d_%d" % (t, k)) for t in range(T)] for k in range(K + 1)]
    sched = [z3.Int("sched_%d" % k) for k in range(K)]
    readers = {l: [z3.Int("rd_%s_%d" % (l, k)) for k in range(K + 1)] for l in locks}
    writer = {l: [z3.Bool("wr_%s_%d" % (l, k)) for k in range(K + 1)] for l in locks}
    for t in range(T):
        s.add(pc[0][t] == 0)
    for l in locks:
        s.add(readers[l][0] == 0, z3.Not(writer[l][0]))

    def at(t, k, i):
        return pc[k][t] == i

    def waiting_writer(l, k, but=None):
        return z3.Or([z3.And(at(t, k, i), z3.BoolVal(True)) for t in range(T) if t != but for i, (op, ll) in enumerate(programs[t]) if op == "w" and ll == l] + [z3.BoolVal(False)])

    def enabled(t, k):
        conds = []
        for i, (op, l) in enumerate(programs[t]):
            if op == "r":
                c = z3.And(z3.Not(writer[l][k]), z3.Not(waiting_writer(l, k, but=t)))
            elif op == "w":
                c = z3.And(z3.Not(writer[l][k]), readers[l][k] == 0)
            else:
                c = z3.BoolVal(True)
            conds.append(z3.And(at(t, k, i), c))
        return z3.Or(conds + [z3.BoolVal(False)])

    def finished(t, k):
        return pc[k][t] == len(programs[t])
    for k in range(K):
        s.add(sched[k] >= 0, sched[k] < T)
        for t in range(T):
            moves = z3.And(sched[k] == t, enabled(t, k))
            s.add(pc[k + 1][t] == z3.If(moves, pc[k][t] + 1, pc[k][t]))
        for l in locks:
            dr, dw_set, dw_clr = z3.IntVal(0), z3.BoolVal(False), z3.BoolVal(False)
            for t in range(T):
                for i, (op, ll) in enumerate(programs[t]):
                    if ll != l:
                        continue
                    fire = z3.And(sched[k] == t, at(t, k, i), enabled(t, k))
                    if op == "r":
                        dr = dr + z3.If(fire, 1, 0)
                    elif op == "w":
                        dw_set = z3.Or(dw_set, fire)
                    elif op == "u":
                        # releases what this thread acquired last on l (programs are well bracketed: the matching acquire kind is looked up)
                        kind = None
                        for j in range(i - 1, -1, -1):
                            if programs[t][j][1] == l and programs[t][j][0] in ("r", "w"):
                                kind = programs[t][j][0]
                                break
                        if kind == "r":
                            dr = dr - z3.If(fire, 1, 0)
                        elif kind == "w":
                            dw_clr = z3.Or(dw_clr, fire)
            s.add(readers[l][k + 1] == readers[l][k] + dr)
            s.add(writer[l][k + 1] == z3.And(z3.Or(writer[l][k], dw_set), z3.Not(dw_clr)))
    dead = []
    for k in range(K + 1):
        someone = z3.Or([z3.Not(finished(t, k)) for t in range(T)])
        stuck = z3.And([z3.Or(finished(t, k), z3.Not(enabled(t, k))) for t in range(T)])
        dead.append(z3.And(someone, stuck))
    s.add(z3.Or(dead))
    r = s.check()
    if r == z3.sat:
        m = s.model()
        return r, [m.eval(x, model_completion=True).as_long() for x in sched], K
    return r, None, K


# ----------------------------------------------------------------------------- the check


def stress(rb, exprs, threads=8, millis=3000):
    # "alone" = in a process of its own: a process-wide cache filled by another expression must show up as a difference
    want = [replay_call(rb, ["feel", e], timeout=60)[1] for e in exprs]
    _, out, _ = replay_call(rb, ["stress_feel", str(millis), str(threads)] + list(exprs) + ["--want"] + want, timeout=120)
    return out


def run(check, mirror, tier):
    rb = replay_build(mirror)
    jobs = []
    src = mirror.read("feel-number/src/dec.rs")
    externs = parse_externs(src)
    crate_n = MirCrate(mirror, ["feel-number"], overflow_checks=True)
    names = re.findall(r"^(?:pub )?fn (dec_\w+)\(([^)]*)\)", src, re.M)
    skipped = []
    check.bounds += ["A: every dec_* wrapper of feel-number/src/dec.rs whose parameters are decimals or machine integers (operands arbitrary); the string and BCD conversions "
                     "(CString / CStr / byte buffers) are outside", "C: 2 and 3 threads, each running the lock operations recorded on one path of B; schedules of that total length + 1"]
    check.assumptions += ["foreign functions write through every *mut argument and nowhere else (their C prototypes in the extern block); lazy_static values are "
                          "initialised once and immutable afterwards; a load of an atomic returns whatever any thread stored",
                          "RwLock: readers share, writers exclude, a waiting writer keeps new readers out (std's writer preference)"]
    MODELS = shared_models(externs)

    def wrapper_job(fname, params):
        ptys = [p.split(":", 1)[1].strip() for p in params.split(",") if p.strip()]
        ptys = ["DecContext" if (t == "DecContext" or p.strip().startswith("mut ")) and "DecContext" in t else t for t, p in zip(ptys, [q for q in params.split(",") if q.strip()])]

        def setup(ex, st):
            args, arg_cells = [], []
            for k, ty in enumerate(ptys):
                if ty == "&DecQuad":
                    cid = ex.new_cell(st, Opaque("DecQuad", z3.Int(ex.fresh_name("operand%d" % k))), "operand")
                    arg_cells.append(cid)
                    args.append(Ref(cid))
                elif ty in ("i32", "u32"):
                    args.append(ex.fresh_int(st, ty, "n"))
                elif ty == "&DecNumber":
                    cid = ex.new_cell(st, Opaque("DecNumber", z3.Int(ex.fresh_name("operand%d" % k))), "operand")
                    arg_cells.append(cid)
                    args.append(Ref(cid))
                elif ty in ("DecContext", "mut DecContext"):
                    args.append(Adt("struct", "DecContext", [ex.fresh_int(st, t, "ctx_" + f) for f, t in
                                                             (("digits", "i32"), ("emax", "i32"), ("emin", "i32"), ("round", "u32"), ("traps", "u32"), ("status", "u32"), ("clamp", "u8"))]))
                else:
                    raise MirUnsupported("parameter type %s" % ty)
            st.aux["arg_cells"] = tuple(arg_cells)
            return ("dec::" + fname) if ("dec::" + fname) in crate_n.bodies else fname, args, {"function": fname}

        def post(ex, o, v):
            ev = o.st.log
            ffi_w = [e for e in ev if e[0] == "ffi_shared_write"]
            sw = [e for e in ev if e[0] == "shared_write"]
            sr = [e for e in ev if e[0] == "shared_read"]
            return [("every *mut argument of a foreign call points into storage created by this call" + (" (%s: argument %d is %s)" % ffi_w[0][1:] if ffi_w else ""),
                     z3.BoolVal(not ffi_w)),
                    ("the wrapper does not write process-wide mutable state" + (" (%s)" % sw[0][1] if sw else ""), z3.BoolVal(not sw)),
                    ("the wrapper does not read process-wide mutable state" + (" (%s)" % sr[0][1] if sr else ""), z3.BoolVal(not sr)),
                    ("reach:foreign call", z3.BoolVal(any(e[0] == "ffi" for e in ev)))]

        def replay(i, rb):
            exprs = WORKLOAD.get(fname, DEFAULT_WORKLOAD)
            out = stress(rb, exprs + [e for e in DEFAULT_WORKLOAD if e not in exprs][:6])
            return out.startswith("MISMATCH") or out.startswith("PANIC"), "8 threads evaluating %s for 3 s: %s" % (exprs, out[:200])
        jobs.append(lambda c: decide(c, crate_n, "dec_context/" + fname, setup, post, replay, rb, models=MODELS, unwind=8, describe=lambda m, v: {"function": fname},
                                     need_reach=["reach:foreign call"], max_cex=1, budget_s=300))

    for fname, params in names:
        if fname in ("dec_from_string", "dec_to_string", "dec_from_bcd", "dec_context_default"):
            skipped.append(fname)
            continue
        wrapper_job(fname, params)
    check.samples.append({"wrappers_not_encoded": skipped})
    run_parallel(check, jobs)

    # ---------------------------------------------------------------- D: the regular-expression built-ins
    import feelvals as fv
    from mir.models import m_format_stub
    crate_e = MirCrate(mirror, ["feel-evaluator", "feel"], overflow_checks=True)
    U = fv.Universe(mirror)
    check.bounds.append("D: core::matches (with and without flags) and core::split on arbitrary string arguments; the regex crate is replaced by its interface "
                        "(Regex::new succeeds or fails, is_match / split answer arbitrarily)")

    def m_regex_new(ex, st, callee, args, dest_ty):
        okb = z3.Bool(ex.fresh_name("pattern_valid"))
        for st2 in ex.branch(st, okb):
            st2.log.append(("regex_new",))
            yield st2, En("Result", z3.IntVal(0), {"Ok": (Opaque("Regex", z3.Int(ex.fresh_name("regex"))),)})
        for st2 in ex.branch(st, z3.Not(okb)):
            yield st2, En("Result", z3.IntVal(1), {"Err": (Opaque("Error", info="regex"),)})

    def m_is_match(ex, st, callee, args, dest_ty):
        yield st, ex.fresh_bool("is_match")

    def m_static_lock(ex, st, callee, args, dest_ty):
        tgt = args[0]
        cell = getattr(tgt, "cell", None)
        if is_shared_cell(st, cell):
            yield Outcome("panic", st, msg="the built-in takes a lock on process-wide state (%s on %s): its answer can depend on what other threads stored there" % (
                callee.split("::")[-1], cell))
            return
        raise MirUnsupported("lock operation on %r" % (tgt,))

    def m_any_lazy(ex, st, callee, args, dest_ty):
        name = re.match(r"^<(?:[\w:]+::)?(\w+) as Deref>::deref$", callee).group(1)
        key = "lazy:" + name
        if key not in st.aux:
            cid = ex.new_cell(st, Opaque("lazy", name), "lazy_" + name)
            st.aux[key] = cid
            st.aux["shared_cells"] = tuple(st.aux.get("shared_cells", ())) + (cid,)
        yield st, Ref(st.aux[key])
    def m_fresh_str(ex, st, callee, args, dest_ty):
        yield st, StrV(None, id=z3.Int(ex.fresh_name("text")))

    def m_regex_split(ex, st, callee, args, dest_ty):
        n = ex.fresh_int(st, "usize", "pieces", constrain=False)
        ex.assume(st, z3.And(n.e >= 0, n.e <= 2))
        items = [StrV(None, id=z3.Int(ex.fresh_name("piece"))) for _ in range(2)]
        yield st, Opaque("SliceIter", "owned", (Ref(ex.new_cell(st, VecV(n.e, items, "str"), "pieces")), 0))
    RX_MODELS = [(R(r"^(regex::)?Regex::new$"), m_regex_new), (R(r"^(regex::)?Regex::is_match$"), m_is_match),
                 (R(r"^(regex::)?Regex::replace(_all|n)?::<.*>$"), m_fresh_str), (R(r"^<(std::borrow::)?Cow<'_, str> as (ToString>::to_string|Deref>::deref)$"), lambda ex, st, c, a, d: iter([(st, a[0] if not isinstance(a[0], Ref) else deref(ex, st, a[0]))])),
                 (R(r"^core::str::<impl str>::trim(_start|_end)?$"), lambda ex, st, c, a, d: iter([(st, a[0])])),
                 (R(r"^(regex::)?Regex::split(n)?$"), m_regex_split),
                 (R(r"^<(regex::)?Split(N)?<.*> as Iterator>::(map|filter|filter_map)::<.*>$"), fv.m_lazy_adapt),
                 (R(r"^format$|^std::fmt::format$|^alloc::fmt::format$"), m_format_stub),
                 (R(r"^<(?:[\w:]+::)?[A-Z][A-Z0-9_]+ as Deref>::deref$"), m_any_lazy),
                 (R(r"^(std::sync::)?(RwLock|Mutex)::<.*>::(read|write|lock|try_read|try_write|try_lock)$"), m_static_lock),
                 (R(r"^(std::sync::atomic::)?Atomic(\w+|::<\w+>)::(store|swap|fetch_\w+|compare_exchange\w*)$"), m_shared_write),
                 (R(r"^(std::sync::atomic::)?Atomic(\w+|::<\w+>)::load$"), m_shared_read)] + fv.VALUE_MODELS
    jobs = []

    def regex_job(fname, nargs, flags_string, workload):
        def setup(ex, st):
            args = []
            for k in range(nargs):
                isstr = flags_string if k == (3 if fname == "replace" else 2) else True
                v = En("Value", z3.IntVal(U.idx("String" if isstr else "Null")), {"String": (StrV(None, id=z3.Int(ex.fresh_name("s%d" % k))),), "Null": (none(),)})
                args.append(Ref(ex.new_cell(st, v, "arg")))
            return fname, args, {"function": fname}

        def post(ex, o, v):
            ev = o.st.log
            sw = [e for e in ev if e[0] == "shared_write"]
            sr = [e for e in ev if e[0] == "shared_read"]
            return [("the built-in does not write process-wide mutable state", z3.BoolVal(not sw)), ("the built-in does not read process-wide mutable state", z3.BoolVal(not sr)),
                    ("reach:a pattern is compiled", z3.BoolVal(any(e[0] == "regex_new" for e in ev)))]

        def replay(i, rb):
            out = stress(rb, workload)
            return out.startswith("MISMATCH") or out.startswith("PANIC"), "8 threads evaluating %s for 3 s: %s" % (workload, out[:200])
        jobs.append(lambda c: decide(c, crate_e, "regex_bifs/%s%s" % (fname, "_flags" if flags_string and nargs == 3 else ""), setup, post, replay, rb, models=RX_MODELS, unwind=8,
                                     describe=lambda m, v: {"function": fname}, need_reach=["reach:a pattern is compiled"], max_cex=1, budget_s=300))
    RXW = ['matches("abc", "^[a-z]+$")', 'matches("abc", "^[0-9]+$")', 'matches("ABC", "^[a-z]+$", "i")', 'replace("ab12", "[0-9]", "#")', 'replace("ab12", "[a-z]", "#")',
           'split("a;b;c", ";")', 'split("a1b2c", "[0-9]")', 'matches("x1", "^x[0-9]$")']
    regex_job("matches", 3, True, RXW)
    regex_job("matches", 3, False, RXW)
    RXW2 = ['replace("a.b", ".", "-", "q")', 'replace("a.b", ".", "-")', 'replace("a.b", "b", "-", "i")', 'replace("x-y", "-", "+")', 'split("a.b.c", "[.]")', 'split("a.b.c", "b")']
    regex_job("replace", 4, False, RXW2)
    regex_job("split", 2, True, RXW2)

    # replace with a flags argument: the flag scanning and pattern escaping loops run over character sequences
    import charseq as _cs
    from checks.C18 import JSON_MODELS as _STRING_MODELS

    def replace_flags_job():
        def setup(ex, st):
            args = []
            for k in range(4):
                if k in (1, 3):
                    s_, n, cps = _cs.fresh_string(ex, st, "pattern" if k == 1 else "flags", 2)
                else:
                    s_ = StrV(None, id=z3.Int(ex.fresh_name("s%d" % k)))
                args.append(Ref(ex.new_cell(st, En("Value", z3.IntVal(U.idx("String")), {"String": (s_,)}), "arg")))
            return "replace", args, {"function": "replace with flags"}

        def post(ex, o, v):
            ev = o.st.log
            return [("the built-in does not write process-wide mutable state", z3.BoolVal(not [e for e in ev if e[0] == "shared_write"])),
                    ("the built-in does not read process-wide mutable state", z3.BoolVal(not [e for e in ev if e[0] == "shared_read"])),
                    ("reach:a pattern is compiled", z3.BoolVal(any(e[0] == "regex_new" for e in ev)))]
        wl = ['replace("A.C", ".", "#", "i")', 'replace("A.C", ".", "#", "qi")', 'replace("a.b", ".", "-", "q")', 'replace("a.b", ".", "-", "")', 'replace("abc", "B", "x", "i")']

        def replay(i, rb):
            out = stress(rb, wl)
            return out.startswith("MISMATCH") or out.startswith("PANIC"), "8 threads evaluating %s for 3 s: %s" % (wl, out[:200])
        def m_is_empty(ex, st, callee, args, dest_ty):
            q = _cs.seq_of(deref(ex, st, args[0]) if isinstance(args[0], Ref) else args[0])
            yield st, mk_bool(z3.simplify(q.len == 0))
        extra = [(R(r"^core::str::<impl str>::is_empty$|^(std::string::)?String::is_empty$"), m_is_empty)]
        jobs.append(lambda c: decide(c, crate_e, "regex_bifs/replace_flags", setup, post, replay, rb, models=extra + RX_MODELS[:-len(fv.VALUE_MODELS)] + _STRING_MODELS + fv.VALUE_MODELS, unwind=12,
                                     describe=lambda m, v: {"function": "replace with flags"}, need_reach=["reach:a pattern is compiled"], max_cex=1, budget_s=300))
    replace_flags_job()
    run_parallel(check, jobs)

    # ---------------------------------------------------------------- E: no state inside a compiled decision table survives an evaluation
    # (the obligation C03 decides functionally: one evaluation is an inductive step from whatever interior-mutable state earlier
    # evaluations - by other threads, with other inputs - may have left in the compiled table; lib/interior.py)
    from checks import C03 as _c03
    crate_me = MirCrate(mirror, ["model-evaluator", "feel"], overflow_checks=True, enum_crates=("common", "feel", "model"))
    check.bounds.append("E: the evaluator build_decision_table_evaluator returns, 0..2 rules, 0..2 input entries, every hit policy; any interior-mutable field of the compiled table "
                        "holds an arbitrary value of its type")
    jobs = []
    _c03.evaluation_job(check, mirror, rb, crate_me, jobs, U, nr_max=2)
    run_parallel(check, jobs)

    # ---------------------------------------------------------------- F: calls of user-defined functions touch no process-wide state
    # (the obligations C01 decides functionally - positional and named call of a function definition - executed with every atomic operation
    # as an event: a counter or flag shared by all evaluations makes one call's result depend on what other threads are doing)
    from checks import C01_ops as _ops
    check.bounds.append("F: positional and named call of a user-defined function (0..3 parameters / arguments); any atomic read-modify-write or load on the way is a violation candidate")

    def m_atomic_event(ex, st, callee, args, dest_ty):
        yield Outcome("panic", st, msg="calling a user-defined function reads or writes process-wide state (%s): the result of one evaluation can depend on the others running at the same moment" % callee)
    DEEP = ['{f: function(n) if n <= 0 then 0 else 1 + f(n - 1), r: f(180)}.r', '{g: function(n) if n <= 0 then 0 else 2 + g(n - 1), r: g(170)}.r', '{h: function(a, b) a + b, r: h(1, 2)}.r']

    def replay_deep(i, rb):
        out = stress(rb, DEEP)
        return out.startswith("MISMATCH") or out.startswith("PANIC"), "8 threads evaluating %s for 3 s: %s" % (DEEP, out[:200])
    _orig_decide = _ops.decide

    def _decide_footprint(c, crate, oid, setup, post, replay, rb_, **kw):
        kw["models"] = [(R(r"^(std::sync::atomic::)?Atomic(\w+|::<\w+>)::(store|swap|load|fetch_\w+|compare_exchange\w*)$"), m_atomic_event)] + list(kw.get("models") or [])
        kw.pop("known_predicates", None)
        return _orig_decide(c, crate, "footprint/" + oid, setup, post, replay_deep, rb_, **kw)
    _ops.decide = _decide_footprint
    try:
        jobs = []
        _ops.jobs_for(check, mirror, rb, crate_e, None, U, jobs, tier, {}, select={"function_positional_job", "function_named_job"})
        run_parallel(check, jobs)
    finally:
        _ops.decide = _orig_decide

    # ---------------------------------------------------------------- B + C: the decision evaluation closure and the schedule query
    from checks import C20_locks
    C20_locks.run_locks(check, mirror, rb, tier, deadlock_query, stress)


KNOWN_PRED = {}
