"""C20 parts B and C (see checks/C20.py): lock usage of the decision evaluation closure and the schedule query over it."""
import re

import z3

from vcommon import *  # noqa
from mcheck import decide, run_parallel, model_value
from mir.sym import Adt, En, FnV, Opaque, Outcome, Ref, Sc, StrV, VecV, UNIT, mk_bool, mk_int, none, some
from mir.models import deref
from mir.parser import MirUnsupported
import rsenum as _rs


def run_locks(check, mirror, rb, tier, deadlock_query, stress):
    from checks import C04
    fields = _rs.struct_fields(mirror.read("model-evaluator/src/model_evaluator.rs"), "ModelEvaluator")
    recorded = []   # lock programs seen on the paths of B (filled in the worker, carried back through the evidence detail)

    def me_value(ex, st):
        return Adt("struct", "ModelEvaluator", [Opaque("RwLock", f) for f in fields])

    def lock_name(ex, st, a):
        v = deref(ex, st, a)
        while isinstance(v, Ref):
            v = deref(ex, st, v)
        if isinstance(v, Opaque) and v.sort == "RwLock":
            return v.e
        raise MirUnsupported("lock operation on %r" % (v,))

    def m_lock(kind):
        def m(ex, st, callee, args, dest_ty):
            name = lock_name(ex, st, args[0])
            st.log.append(("lock", kind, name))
            yield st, En("Result", z3.IntVal(0), {"Ok": (Ref(ex.new_cell(st, Opaque("Registry", name), "guard")),)})
        return m
    from mir.models import m_map_err
    lock_models = [(re.compile(r"^Result::<.*>::map_err::<.*>$"), m_map_err),
                   (re.compile(r"^(std::sync::)?RwLock::<.*>::read$"), m_lock("r")),
                   (re.compile(r"^(std::sync::)?RwLock::<.*>::write$"), m_lock("w")),
                   (re.compile(r"^(std::sync::)?RwLock::<.*>::(try_read|try_write)$"), m_lock("try")),
                   (re.compile(r"^(std::sync::)?Mutex::<.*>::lock$"), m_lock("w"))]

    def post_hook(ex, o, v):
        locks = [(e[1], e[2]) for e in o.st.log if e[0] == "lock"]
        writes = [l for l in locks if l[0] != "r"]
        scope_cells = [e[1] for e in o.st.log if e[0] == "logic_scope_cell"]
        fresh = all(c is not None and c not in v["_cells_before"] for c in scope_cells)
        o.st.aux["lock_program"] = locks
        return [("evaluation takes read locks only" + (" (%s lock on %s)" % (writes[0][0], writes[0][1]) if writes else ""), z3.BoolVal(not writes)),
                ("the scope the decision logic runs in is created by this call, not shared", z3.BoolVal(bool(scope_cells) and fresh)),
                ("reach:locks", z3.BoolVal(len(locks) >= 3)),
                ("lockprogram:" + ",".join("%s:%s" % l for l in locks), z3.BoolVal(True))]

    def replay(i, rb):
        # a model with a chain of decisions evaluated from 8 threads through one shared evaluator
        xml = ('<?xml version="1.0" encoding="UTF-8"?><definitions namespace="https://verif" name="m" id="_m" xmlns="https://www.omg.org/spec/DMN/20191111/MODEL/">'
               '<inputData name="a" id="_a"><variable name="a" typeRef="number"/></inputData>'
               '<businessKnowledgeModel name="k" id="_k"><variable name="k"/><encapsulatedLogic><formalParameter name="x" typeRef="number"/>'
               '<literalExpression><text>x * 2</text></literalExpression></encapsulatedLogic></businessKnowledgeModel>'
               '<decision name="d1" id="_d1"><variable name="d1" typeRef="number"/><informationRequirement><requiredInput href="#_a"/></informationRequirement>'
               '<literalExpression><text>a + 1</text></literalExpression></decision>'
               '<decision name="d2" id="_d2"><variable name="d2" typeRef="number"/><informationRequirement><requiredDecision href="#_d1"/></informationRequirement>'
               '<knowledgeRequirement><requiredKnowledge href="#_k"/></knowledgeRequirement><literalExpression><text>k(d1) + 10 ** 2</text></literalExpression></decision>'
               '</definitions>')
        calls = []
        for n in (1, 2, 3, 50):
            calls += ["d2", "{a: %d}" % n, "d1", "{a: %d}" % (n + 7)]
        _, out, _ = replay_call(rb, ["stress_model", "3000", "8", xml] + calls, timeout=120)
        bad = out.startswith("MISMATCH") or out.startswith("DEADLOCK") or out.startswith("PANIC")
        return bad, "8 threads, one shared evaluator, decisions d1/d2 for 3 s: %s" % out[:200]

    jobs = C04.build_jobs(check, mirror, tier, rb, oid="evaluation_locks/decision", lock_models=lock_models, post_hook=post_hook, replay_override=replay, me_value=me_value)
    run_parallel(check, jobs)

    # ---------------------------------------------------------------- C: schedule query over the recorded lock programs
    progs = set()
    for ob in check.obligations:
        if ob["id"].endswith("evaluation_locks/decision"):
            for lab in ob.get("detail", {}).get("labels", []):
                if lab.startswith("lockprogram:"):
                    body = lab[len("lockprogram:"):]
                    progs.add(tuple(tuple(x.split(":")) for x in body.split(",")) if body else ())
    import time
    for nthreads in (2, 3):
        t0 = time.time()
        oid = "%s/M/schedule/%d_threads" % (check.pid, nthreads)
        if getattr(check, "only", None) and not any(s in oid for s in check.only):
            continue
        if not progs:
            check.add(oid, "inconclusive", "M", time.time() - t0, {"unsupported": "no lock program was recorded by evaluation_locks/decision"})
            continue
        worst, detail = "holds", {"programs": [], "queries": 0}
        for p in sorted(progs, key=len, reverse=True)[:4]:
            acq = [(k, l) for k, l in p if k in ("r", "w")]
            # a thread: the closure's acquisitions, one nested evaluation of a required decision (same acquisitions, released on return),
            # then the releases in reverse order (RAII of the nested `if let Ok(guard)` blocks)
            nested = acq + [("u", l) for _, l in reversed(acq)]
            prog = acq + nested + [("u", l) for _, l in reversed(acq)]
            r, sched, K = deadlock_query([prog] * nthreads)
            detail["queries"] += 1
            detail["programs"].append({"thread_program": ["%s(%s)" % x for x in prog], "steps": K, "result": str(r), "schedule": sched})
            if r == z3.sat:
                worst = "violated"
            elif r != z3.unsat and worst == "holds":
                worst = "inconclusive"
        if worst == "violated":
            bad, text = replay(None, rb)
            detail["counterexamples"] = [{"label": "some schedule of the recorded lock operations blocks every thread", "inputs": {"threads": nthreads}, "reproduced": bad, "native": text}]
            if not bad:
                worst = "inconclusive"
        check.add(oid, worst, "M", time.time() - t0, detail, queries=detail["queries"])
        if worst == "violated":
            check.violation(oid, dict(obligation=oid, failed="some schedule of the recorded lock operations blocks every thread", inputs=detail["programs"], native=text))
