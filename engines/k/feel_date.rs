// Kani harnesses injected as a child module of feel/src/temporal/date.rs (private items visible).
use super::*;
include!("kstubs.rs");
include!("kstubs_feel.rs");

fn ref_leap(y: i32) -> bool {
  (y % 4 == 0 && y % 100 != 0) || y % 400 == 0
}
fn ref_last(y: i32, m: u8) -> u8 {
  match m {
    4 | 6 | 9 | 11 => 30,
    2 => {
      if ref_leap(y) {
        29
      } else {
        28
      }
    }
    _ => 31,
  }
}
fn ref_valid(y: i32, m: u8, d: u8) -> bool {
  y >= -999_999_999 && y <= 999_999_999 && m >= 1 && m <= 12 && d >= 1 && d <= ref_last(y, m)
}

/// C14/C15: date validity = proleptic Gregorian calendar, for ALL (i32, u8, u8).
#[kani::proof]
#[kani::unwind(4)]
#[kani::stub(alloc::fmt::format, stub_format)]
#[kani::stub(crate::temporal::date::FeelDate::today_local, stub_today_local)]
#[kani::stub(crate::temporal::get_local_offset, stub_local_offset)]
#[kani::stub(crate::temporal::get_zone_offset, stub_zone_offset)]
fn k_is_valid_date() {
  let y: i32 = kani::any();
  let m: u8 = kani::any();
  let d: u8 = kani::any();
  /*KNOWN:k_is_valid_date*/
  let got = is_valid_date(y, m, d);
  let want = ref_valid(y, m, d);
  kani::cover!(got && want, "some valid date accepted");
  kani::cover!(!got && !want && m >= 1 && m <= 12, "some invalid day rejected");
  kani::cover!(want && (y > 262143 || y < -262143), "valid date outside chrono range");
  vassert!(got == want, "P: is_valid_date agrees with the calendar");
  // new_opt is the public face of the same predicate
  vassert!(FeelDate::new_opt(y, m, d).is_some() == want, "P: new_opt agrees with the calendar");
}

fn ref_months(a: (i32, u8, u8), b: (i32, u8, u8)) -> i64 {
  // whole months from b to a (a - b), antisymmetric by construction
  let total = 12 * (a.0 as i64 - b.0 as i64) + (a.1 as i64 - b.1 as i64);
  if total > 0 || (total == 0 && a.2 >= b.2) {
    if a.2 < b.2 {
      total - 1
    } else {
      total
    }
  } else if b.2 < a.2 {
    total + 1
  } else {
    total
  }
}

/// C15: whole-month difference, for all pairs of valid dates.
#[kani::proof]
#[kani::unwind(4)]
#[kani::stub(alloc::fmt::format, stub_format)]
fn k_ym_duration() {
  let a = (kani::any::<i32>(), kani::any::<u8>(), kani::any::<u8>());
  let b = (kani::any::<i32>(), kani::any::<u8>(), kani::any::<u8>());
  kani::assume(ref_valid(a.0, a.1, a.2) && ref_valid(b.0, b.1, b.2));
  /*KNOWN:k_ym_duration*/
  let da = FeelDate::new(a.0, a.1, a.2);
  let db = FeelDate::new(b.0, b.1, b.2);
  let ab = da.ym_duration(&db).as_months();
  let ba = db.ym_duration(&da).as_months();
  kani::cover!(ab > 0, "positive difference");
  kani::cover!(ab < 0, "negative difference");
  kani::cover!(a.0 == b.0 && a.1 != b.1, "same year, different month");
  vassert!(ab == -ba, "P: ym_duration is antisymmetric");
  vassert!(ab == ref_months(a, b), "P: ym_duration is the number of whole months");
}
