// Shared Kani stubs (see DESIGN.md §1.2). Included with `include!` by every harness file.
/// assertion + counterexample witness: a SATISFIED cover with the same "P: ..." message carries the concrete playback values
#[allow(unused_macros)]
macro_rules! vassert {
  ($c:expr, $m:literal) => {
    let vassert_c: bool = $c;
    kani::cover!(!vassert_c, $m);
    assert!(vassert_c, $m);
  };
}
#[allow(dead_code)]
fn stub_format(_: std::fmt::Arguments<'_>) -> String {
  String::new()
}
