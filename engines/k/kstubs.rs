// Shared Kani stubs (see DESIGN.md §1.2). Included with `include!` by every harness file.
/// assertion + counterexample witness: a SATISFIED cover with the same "P: ..." message carries the concrete playback values
#[allow(unused_macros)]
macro_rules! vassert {
  ($c:expr, $m:literal) => {
    let vassert_c: bool = $c;
    kani::cover!(!vassert_c, $m);
    assert!(vassert_c, $m);
  };
}
#[allow(dead_code)]
fn stub_format(_: std::fmt::Arguments<'_>) -> String {
  String::new()
}
#[allow(dead_code)]
fn stub_today_local() -> crate::temporal::date::FeelDate {
  crate::temporal::date::FeelDate::new(2020, 1, 1)
}
#[allow(dead_code)]
fn stub_local_offset(_d: (i32, u32, u32), _t: (u32, u32, u32, u32)) -> Option<i32> {
  if kani::any() {
    let o: i32 = kani::any();
    kani::assume(o > -86400 && o < 86400);
    Some(o)
  } else {
    None
  }
}
#[allow(dead_code)]
fn stub_zone_offset(_z: &str, _d: (i32, u32, u32), _t: (u32, u32, u32, u32)) -> Option<i32> {
  if kani::any() {
    let o: i32 = kani::any();
    kani::assume(o > -86400 && o < 86400);
    Some(o)
  } else {
    None
  }
}
