// Kani stubs for the environment of dmntk-feel's temporal module (DESIGN §1.2).
#[allow(dead_code)]
fn stub_today_local() -> crate::temporal::date::FeelDate {
  crate::temporal::date::FeelDate::new(2020, 1, 1)
}
#[allow(dead_code)]
fn stub_local_offset(_d: (i32, u32, u32), _t: (u32, u32, u32, u32)) -> Option<i32> {
  if kani::any() {
    let o: i32 = kani::any();
    kani::assume(o > -86400 && o < 86400);
    Some(o)
  } else {
    None
  }
}
#[allow(dead_code)]
fn stub_zone_offset(_z: &str, _d: (i32, u32, u32), _t: (u32, u32, u32, u32)) -> Option<i32> {
  if kani::any() {
    let o: i32 = kani::any();
    kani::assume(o > -86400 && o < 86400);
    Some(o)
  } else {
    None
  }
}
