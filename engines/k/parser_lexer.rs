// Kani harnesses injected as a child module of feel-parser/src/lexer.rs (private items visible).
use super::*;
include!("kstubs.rs");

fn hex_char(nibble: u8, upper: bool) -> char {
  let n = nibble & 0xF;
  if n < 10 {
    (b'0' + n) as char
  } else if upper {
    (b'A' + n - 10) as char
  } else {
    (b'a' + n - 10) as char
  }
}

fn lexer_over<'a>(scope: &'a Scope, input: Vec<char>) -> Lexer<'a> {
  Lexer {
    scope,
    start_token_type: None,
    input,
    position: 0,
    unary_tests: false,
    between: false,
    type_name: false,
    till_in: false,
  }
}

/// C06: `\uXXXX` denotes exactly the BMP scalar XXXX (either hex case); lone surrogates are errors.
#[kani::proof]
#[kani::unwind(8)]
#[kani::stub(alloc::fmt::format, stub_format)]
fn k_unicode_bmp() {
  let d: [u8; 4] = kani::any();
  let up: [bool; 4] = kani::any();
  kani::assume(d[0] < 16 && d[1] < 16 && d[2] < 16 && d[3] < 16);
  let v: u32 = ((d[0] as u32) << 12) | ((d[1] as u32) << 8) | ((d[2] as u32) << 4) | (d[3] as u32);
  let scope = Scope::default();
  let input = vec!['\\', 'u', hex_char(d[0], up[0]), hex_char(d[1], up[1]), hex_char(d[2], up[2]), hex_char(d[3], up[3]), '"'];
  let mut lexer = lexer_over(&scope, input);
  /*KNOWN:k_unicode_bmp*/
  let r = lexer.consume_unicode();
  let low_surrogate = v >= 0xDC00 && v <= 0xDFFF;
  let high_surrogate = v >= 0xD800 && v <= 0xDBFF;
  kani::cover!(v > 0x7FF && !low_surrogate && !high_surrogate, "three-byte scalar");
  kani::cover!(v < 0x80, "ascii scalar");
  kani::cover!(low_surrogate, "lone low surrogate");
  if low_surrogate || high_surrogate {
    vassert!(r.is_err(), "P: a lone surrogate escape is an error");
  } else {
    let want = char::from_u32(v);
    vassert!(r.is_ok() && want.is_some() && r.ok() == want, "P: \\uXXXX denotes the scalar XXXX");
    vassert!(lexer.position == 6, "P: exactly the six characters of the escape are consumed");
  }
  std::mem::forget(lexer);
  std::mem::forget(scope);
}

/// C06: `\UXXXXXX` denotes exactly the scalar XXXXXX up to 10FFFF; above it and for surrogates an error.
#[kani::proof]
#[kani::unwind(8)]
#[kani::stub(alloc::fmt::format, stub_format)]
fn k_unicode_long() {
  let d: [u8; 6] = kani::any();
  let up: bool = kani::any();
  kani::assume(d[0] < 16 && d[1] < 16 && d[2] < 16 && d[3] < 16 && d[4] < 16 && d[5] < 16);
  let v: u32 = ((d[0] as u32) << 20) | ((d[1] as u32) << 16) | ((d[2] as u32) << 12) | ((d[3] as u32) << 8) | ((d[4] as u32) << 4) | (d[5] as u32);
  let scope = Scope::default();
  let input = vec![
    '\\',
    'U',
    hex_char(d[0], up),
    hex_char(d[1], up),
    hex_char(d[2], up),
    hex_char(d[3], up),
    hex_char(d[4], up),
    hex_char(d[5], up),
    '"',
  ];
  let mut lexer = lexer_over(&scope, input);
  /*KNOWN:k_unicode_long*/
  let r = lexer.consume_unicode();
  let surrogate = v >= 0xD800 && v <= 0xDFFF;
  kani::cover!(v >= 0x10000 && v <= 0x10FFFF, "supplementary scalar");
  kani::cover!(v > 0x10FFFF, "beyond Unicode");
  if v > 0x10FFFF || (v >= 0xDC00 && v <= 0xDFFF) {
    vassert!(r.is_err(), "P: a value that is no scalar is an error");
  } else if !surrogate {
    let want = char::from_u32(v);
    vassert!(r.is_ok() && r.ok() == want, "P: \\UXXXXXX denotes the scalar XXXXXX");
  }
  std::mem::forget(lexer);
  std::mem::forget(scope);
}

/// C06: a surrogate pair `\uD8xx\uDCxx` denotes exactly the supplementary code point it encodes.
#[kani::proof]
#[kani::unwind(16)]
#[kani::stub(alloc::fmt::format, stub_format)]
fn k_unicode_surrogates() {
  let hi: u16 = kani::any();
  let lo: u16 = kani::any();
  let up: bool = kani::any();
  kani::assume(hi >= 0xD800 && hi <= 0xDBFF);
  let h = |x: u16, s: u32| hex_char(((x >> s) & 0xF) as u8, up);
  let scope = Scope::default();
  let input = vec!['\\', 'u', h(hi, 12), h(hi, 8), h(hi, 4), h(hi, 0), '\\', 'u', h(lo, 12), h(lo, 8), h(lo, 4), h(lo, 0), '"'];
  let mut lexer = lexer_over(&scope, input);
  /*KNOWN:k_unicode_surrogates*/
  let r = lexer.consume_unicode();
  let is_low = lo >= 0xDC00 && lo <= 0xDFFF;
  kani::cover!(is_low, "well-formed pair");
  kani::cover!(!is_low, "high surrogate followed by something else");
  if is_low {
    let cp: u32 = 0x10000 + (((hi as u32) - 0xD800) << 10) + ((lo as u32) - 0xDC00);
    let want = char::from_u32(cp);
    vassert!(r.is_ok() && r.ok() == want, "P: a surrogate pair denotes its supplementary code point");
    vassert!(lexer.position == 12, "P: exactly the twelve characters of the pair are consumed");
  } else {
    vassert!(r.is_err(), "P: a high surrogate not followed by a low surrogate is an error");
  }
  std::mem::forget(lexer);
  std::mem::forget(scope);
}

