// Kani harness injected as a child module of recognizer/src/canvas.rs (private items visible).
use super::*;
include!("kstubs.rs");

const ALPHA: [char; 12] = ['┌', '┐', '└', '┘', '─', '│', '╥', '╬', '╫', '═', ' ', 'A'];

fn any_char() -> char {
  let i: usize = kani::any();
  kani::assume(i < ALPHA.len());
  ALPHA[i]
}

fn canvas_of(h: usize, w: usize) -> Canvas {
  // the shape `scan` builds: an empty first row padded with the outer character, then the text rows
  let mut content = vec![];
  let mut first = vec![];
  for _ in 0..w {
    first.push([CHAR_OUTER; LAYER_COUNT]);
  }
  content.push(first);
  for _ in 0..h {
    let mut row = vec![];
    for _ in 0..w {
      let mut layers = [CHAR_WHITE; LAYER_COUNT];
      layers[0] = any_char();
      row.push(layers);
    }
    content.push(row);
  }
  Canvas {
    content,
    cursor: POINT_ZERO,
    cross: None,
    cross_horz: None,
    cross_vert: None,
    information_item_name: None,
    body_rect: None,
  }
}

fn pipeline(canvas: &mut Canvas) -> Result<()> {
  canvas.recognize_information_item_name()?;
  canvas.recognize_crossings()?;
  canvas.body_rect = Some(canvas.recognize_body_rect()?);
  canvas.prepare_regions(LAYER_TEXT, LAYER_THIN);
  canvas.remove_information_item_region(LAYER_THIN, LAYER_BODY);
  canvas.make_grid(LAYER_BODY, LAYER_GRID);
  Ok(())
}

/// C19: the canvas stage of recognition returns a canvas or an error, never a panic, on every 2 x 3 grid over the box alphabet.
#[kani::proof]
#[kani::unwind(6)]
#[kani::stub(alloc::fmt::format, stub_format)]
fn k_canvas_2x3() {
  let mut canvas = canvas_of(2, 3);
  let r = pipeline(&mut canvas);
  kani::cover!(r.is_err(), "some grid is rejected");
  std::mem::forget(r);
  std::mem::forget(canvas);
}
