// Injected (cfg dmntk_verif_lexer) as a child module of feel-parser/src/lexer.rs in the scratch mirror: runs the private
// `Lexer::consume_name` natively on a text with a parsing scope built programmatically from (Name, Value) pairs.
// Re-exported from lib.rs (`pub use lexer::verif_lexer_name::verif_lex_name`, same cfg) because the lexer module is private.
pub fn verif_lex_name(text: &str, till_in: bool, keys: &[String]) -> String {
  let scope = dmntk_feel::Scope::default();
  let mut ctx = dmntk_feel::context::FeelContext::default();
  for k in keys {
    // the key is bound exactly as given (Name::from(&str) only trims)
    ctx.set_entry(&dmntk_feel::Name::from(k.as_str()), dmntk_feel::values::Value::Null(None));
  }
  scope.push(ctx);
  let mut lexer = super::Lexer::new(&scope, super::TokenType::StartExpression, text);
  if till_in {
    lexer.set_till_in();
  }
  match lexer.consume_name() {
    Ok((tt, tv)) => {
      let name = match tv {
        super::TokenValue::Name(n) => n.to_string(),
        super::TokenValue::NameDateTime(n) => n.to_string(),
        super::TokenValue::BuiltInTypeName(n) => n.to_string(),
        other => format!("?{:?}", other),
      };
      let t = format!("{:?}", tt);
      format!("TOKEN {} pos={} till_in={} name={}", t.split('(').next().unwrap_or(""), lexer.position, lexer.till_in, name)
    }
    Err(e) => format!("ERROR {}", e),
  }
}
