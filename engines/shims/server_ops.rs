// Injected (cfg dmntk_verif_srv) as a child module of server/src/server.rs in the scratch mirror: runs the private request
// workers (`do_add_definitions`, `do_replace_definitions`, ...) natively on one workspace, as the handlers do with the shared one.
// ops: add:<base64|-> | replace:<base64|-> | remove:<ns|->:<name|-> | clear | deploy | eval:<model>:<invocable>:<feel context>
pub fn verif_server_ops(ops: &[String]) -> String {
  let mut ws = dmntk_workspace::Workspace::new(None);
  let mut out: Vec<String> = vec![];
  let opt = |s: &str| if s == "-" { None } else { Some(s.to_string()) };
  for op in ops {
    let p: Vec<&str> = op.splitn(4, ':').collect();
    let r = match p[0] {
      "add" => match super::do_add_definitions(&mut ws, &super::AddDefinitionsParams { content: opt(p[1]) }) {
        Ok(r) => format!("ok {}/{}", r.namespace, r.name),
        Err(e) => format!("err {}", e),
      },
      "replace" => match super::do_replace_definitions(&mut ws, &super::ReplaceDefinitionsParams { content: opt(p[1]) }) {
        Ok(r) => format!("ok {}", r.status),
        Err(e) => format!("err {}", e),
      },
      "remove" => match super::do_remove_definitions(&mut ws, &super::RemoveDefinitionsParams { namespace: opt(p[1]), name: opt(p[2]) }) {
        Ok(r) => format!("ok {}", r.status),
        Err(e) => format!("err {}", e),
      },
      "clear" => match super::do_clear_definitions(&mut ws) {
        Ok(r) => format!("ok {}", r.status),
        Err(e) => format!("err {}", e),
      },
      "deploy" => match super::do_deploy_definitions(&mut ws) {
        Ok(r) => format!("ok {}", r.status),
        Err(e) => format!("err {}", e),
      },
      "eval" => match super::do_evaluate(&ws, &super::EvaluateParams { model_name: opt(p[1]), invocable_name: opt(p[2]) }, p[3]) {
        Ok(v) => format!("ok {{\"data\":{}}}", dmntk_common::Jsonify::jsonify(&v)),
        Err(e) => format!("err {}", e),
      },
      _ => "?".to_string(),
    };
    out.push(r);
  }
  format!("{} || {}", out.join(" | "), ws.verif_dump())
}

// TCK round trip of one value: the FEEL expression is evaluated, the value converted to its DTO at the top level of a result
// (OutputNodeDto) and nested in a list (ValueDto), serialised by serde, and each DTO read back through WrappedValue.
pub fn verif_tck(expr: &str) -> String {
  use std::convert::TryFrom;
  let ctx = match dmntk_evaluator::evaluate_context(&dmntk_feel::Scope::default(), &format!("{{v: {}}}", expr)) {
    Ok(c) => c,
    Err(e) => return format!("CTX-ERROR {}", e),
  };
  let value = match ctx.get_entry(&dmntk_feel::Name::from("v")) {
    Some(v) => v.clone(),
    None => return "NO-VALUE".to_string(),
  };
  let mut out = vec![];
  match crate::dto::OutputNodeDto::try_from(value.clone()) {
    Ok(node) => {
      let json = serde_json::to_string(&node).unwrap_or_default();
      let back = node.value.as_ref().map(|d| crate::dto::WrappedValue::try_from(d).map(|w| w.0));
      out.push(format!("top {} back={}", json, match back { Some(Ok(v)) => format!("{}:{}", v.type_of(), v), Some(Err(e)) => format!("ERR {}", e), None => "none".to_string() }));
    }
    Err(e) => out.push(format!("top ERR {}", e)),
  }
  let list = dmntk_feel::values::Value::List(dmntk_feel::values::Values::new(vec![value.clone()]));
  match crate::dto::OutputNodeDto::try_from(list) {
    Ok(node) => {
      let json = serde_json::to_string(&node).unwrap_or_default();
      let back = node.value.as_ref().map(|d| crate::dto::WrappedValue::try_from(d).map(|w| w.0));
      out.push(format!("nested {} back={}", json, match back { Some(Ok(v)) => format!("{}:{}", v.type_of(), v), Some(Err(e)) => format!("ERR {}", e), None => "none".to_string() }));
    }
    Err(e) => out.push(format!("nested ERR {}", e)),
  }
  format!("value={}:{} || {}", value.type_of(), value, out.join(" || "))
}
