// Read-only accessor injected (cfg dmntk_verif_ws) as a child module of workspace/src/workspace.rs in the scratch mirror:
// the (namespace, name) pairs of `definitions`, the key sets of both indexes and of `model_evaluators_by_name`.
impl super::Workspace {
  pub fn verif_dump(&self) -> String {
    let list: Vec<String> = self.definitions.iter().map(|d| format!("{}/{}", d.namespace(), dmntk_model::model::NamedElement::name(d.as_ref()))).collect();
    let mut by_ns: Vec<String> = self.definitions_by_namespace.keys().cloned().collect();
    let mut by_name: Vec<String> = self.definitions_by_name.keys().cloned().collect();
    let mut evals: Vec<String> = self.model_evaluators_by_name.keys().cloned().collect();
    by_ns.sort();
    by_name.sort();
    evals.sort();
    format!("list={} by_ns={} by_name={} evals={}", list.join(","), by_ns.join(","), by_name.join(","), evals.join(","))
  }
}
