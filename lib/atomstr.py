"""Structured ("atom") strings for engine M: a string is a sequence of atoms
    ('lit', text) | ('digits', n : Int expr, k : python int)   -- exactly k decimal digits with value n
    ('rep', ch, count : Int expr)                              -- `count` (>= 0) copies of the character ch
    ('sign', neg : Bool expr)                                  -- "-" if neg else ""
carried in StrV.attrs['atoms'].  Models of the str / fmt functions that scientific_to_plain-like code uses."""
import re

import z3

from mir.parser import MirUnsupported
from mir.sym import Adt, En, FnV, Opaque, Outcome, Ref, Sc, StrV, VecV, UNIT, mk_bool, mk_int, none, some, ok, err, in_range
from mir.models import deref, R, call_fn_value, expand_pieces


def atoms_of(s):
    if s.const is not None:
        return [("lit", s.const)] if s.const else []
    if "atoms" in s.attrs:
        return list(s.attrs["atoms"])
    if "pieces" in s.attrs:
        out = []
        for p in s.attrs["pieces"]:
            if p[0] == "lit":
                out.append(("lit", p[1]))
            elif p[0] == "arg" and isinstance(p[2], StrV):
                out += atoms_of(p[2])
            else:
                raise MirUnsupported("format piece %r in an atom string" % (p,))
        return out
    raise MirUnsupported("string without atom structure: %r" % (s,))


def mk(atoms):
    atoms = normalize(atoms)
    if all(a[0] == "lit" for a in atoms):
        return StrV("".join(a[1] for a in atoms))
    return StrV(None, atoms=tuple(atoms))


def normalize(atoms):
    out = []
    for a in atoms:
        if a[0] == "lit" and a[1] == "":
            continue
        if a[0] == "lit" and out and out[-1][0] == "lit":
            out[-1] = ("lit", out[-1][1] + a[1])
        elif a[0] == "digits" and out and out[-1][0] == "digits":
            n0, k0 = out[-1][1], out[-1][2]
            out[-1] = ("digits", z3.simplify(n0 * (10 ** a[2]) + a[1]), k0 + a[2])
        elif a[0] == "digits" and a[2] == 0:
            continue
        else:
            out.append(a)
    return out


def atom_len(a):
    if a[0] == "lit":
        return z3.IntVal(len(a[1].encode("utf-8")))
    if a[0] == "digits":
        return z3.IntVal(a[2])
    if a[0] == "rep":
        return a[2]
    if a[0] == "sign":
        return z3.If(a[1], z3.IntVal(1), z3.IntVal(0))
    raise MirUnsupported("atom %r" % (a,))


def split_lits(atoms):
    """break literal atoms into single characters so patterns can be found at any position"""
    out = []
    for a in atoms:
        if a[0] == "lit":
            out += [("lit", c) for c in a[1]]
        else:
            out.append(a)
    return out


def find_pat(atoms, pat):
    """positions (start index in the char-split atom list) where the literal pattern occurs; digits/rep/sign atoms never
    contain letters or dots, and a sign atom is '-' or empty"""
    if any(c.isdigit() for c in pat):
        raise MirUnsupported("pattern %r could match inside symbolic digit atoms" % pat)
    cs = split_lits(atoms)
    hits = []
    for i in range(len(cs) - len(pat) + 1):
        okm = True
        for j in range(len(pat)):
            a = cs[i + j]
            if a[0] == "lit":
                if a[1] != pat[j]:
                    okm = False
                    break
            elif a[0] == "sign" and pat[j] == "-":
                raise MirUnsupported("pattern %r may or may not match at a symbolic sign" % pat)
            elif a[0] == "rep" and a[1] == pat[j]:
                raise MirUnsupported("pattern %r may match inside a repetition" % pat)
            else:
                okm = False
                break
        if okm:
            hits.append(i)
    return cs, hits


def m_contains(ex, st, callee, args, dest_ty):
    s = deref(ex, st, args[0])
    p = args[1]
    pat = chr(ex.concrete(p.e)) if isinstance(p, Sc) else deref(ex, st, p).const
    if s.const is not None:
        yield st, mk_bool(pat in s.const)
        return
    cs, hits = find_pat(atoms_of(s), pat)
    yield st, mk_bool(bool(hits))


def m_split(ex, st, callee, args, dest_ty):
    s = deref(ex, st, args[0])
    p = args[1]
    pat = chr(ex.concrete(p.e)) if isinstance(p, Sc) else deref(ex, st, p).const
    cs, hits = find_pat(atoms_of(s), pat)
    parts, cur, i = [], [], 0
    while i < len(cs):
        if i in hits:
            parts.append(cur)
            cur = []
            i += len(pat)
        else:
            cur.append(cs[i])
            i += 1
    parts.append(cur)
    yield st, Opaque("Split", info=(tuple(mk(x) for x in parts), 0))


def m_split_next(ex, st, callee, args, dest_ty):
    r = args[0]
    it = ex.read(st, r.cell, r.projs)
    parts, pos = it.info
    if pos < len(parts):
        ex.write(st, r.cell, r.projs, Opaque("Split", info=(parts, pos + 1)))
        yield st, some(parts[pos])
    else:
        yield st, none()


def m_from_str_int(ex, st, callee, args, dest_ty):
    s = deref(ex, st, args[0])
    T = re.search(r"<(\w+) as FromStr>", callee).group(1)
    if s.const is not None:
        yield st, (ok(mk_int(int(s.const), T)) if re.match(r"^\+?[0-9]+$", s.const) else err(Opaque("ParseIntError")))
        return
    at = normalize(atoms_of(s))
    if len(at) == 1 and at[0][0] == "digits":
        n = at[0][1]
        okc = z3.simplify(in_range(n, T))
        yield st, En("Result", z3.If(okc, z3.IntVal(0), z3.IntVal(1)), {"Ok": (Sc(n, T),), "Err": (Opaque("ParseIntError"),)})
        return
    raise MirUnsupported("from_str on %r" % (s,))


def m_len(ex, st, callee, args, dest_ty):
    s = deref(ex, st, args[0])
    if s.const is not None:
        yield st, mk_int(len(s.const.encode("utf-8")), "usize")
        return
    tot = z3.IntVal(0)
    for a in atoms_of(s):
        tot = tot + atom_len(a)
    yield st, Sc(z3.simplify(tot), "usize")


def m_range_map(ex, st, callee, args, dest_ty):
    yield st, Opaque("MapRange", info=(args[0], args[1]))


def m_map_collect_string(ex, st, callee, args, dest_ty):
    """(a..b).map(|_| CONST).collect::<String>(): the closure is run once from its MIR; it must return the same constant text"""
    rng, f = args[0].info
    lo, hi = rng.fields[0].e, rng.fields[1].e
    outs = [o for o in call_fn_value(ex, st.fork(), f, [Sc(lo, "usize")])]
    if len(outs) != 1 or outs[0].kind != "return":
        raise MirUnsupported("map closure is not a single-path function")
    v = deref(ex, outs[0].st, outs[0].value)
    if not isinstance(v, StrV) or v.const is None or len(v.const) != 1:
        raise MirUnsupported("map closure does not return a one-character constant: %r" % (v,))
    cnt = z3.simplify(z3.If(hi > lo, hi - lo, z3.IntVal(0)))
    yield st, mk([("rep", v.const, cnt)])


def m_format_atoms(ex, st, callee, args, dest_ty):
    a = deref(ex, st, args[0])
    for item in expand_pieces(ex, st, a.info):
        if isinstance(item, Outcome):
            yield item
            continue
        st2, flat = item
        atoms = []
        for p in flat:
            if p[0] == "lit":
                atoms.append(("lit", p[1]))
            elif p[0] == "arg" and isinstance(p[2], StrV) and not (p[3] or {}).get("width"):
                atoms += atoms_of(p[2])
            else:
                raise MirUnsupported("format argument %r" % (p,))
        yield st2, mk(atoms)


def m_strip_prefix(ex, st, callee, args, dest_ty):
    s = deref(ex, st, args[0])
    p = args[1]
    pat = chr(ex.concrete(p.e)) if isinstance(p, Sc) else deref(ex, st, p).const
    at = atoms_of(s)
    if s.const is not None:
        yield st, (some(StrV(s.const[len(pat):])) if s.const.startswith(pat) else none())
        return
    if at and at[0][0] == "sign" and pat == "-":
        for st2 in ex.branch(st, at[0][1]):
            yield st2, some(mk(at[1:]))
        for st2 in ex.branch(st, z3.Not(at[0][1])):
            yield st2, none()
        return
    if at and at[0][0] == "lit":
        yield st, (some(mk([("lit", at[0][1][len(pat):])] + at[1:])) if at[0][1].startswith(pat) else none())
        return
    if at and at[0][0] in ("digits", "rep") and not pat[0].isdigit():
        yield st, none()
        return
    raise MirUnsupported("strip_prefix(%r) on %r" % (pat, s))


def m_slice_atoms(ex, st, callee, args, dest_ty):
    """&s[a..b] / &s[..b] / &s[a..] on a structured string with concrete bounds (byte offsets = character offsets: the atoms are ASCII)"""
    s = deref(ex, st, args[0])
    rng = args[1]
    kind = re.search(r"Index<(?:std::ops::)?(RangeFrom|RangeTo|Range)<usize>>", callee).group(1)
    atoms = split_lits(normalize(atoms_of(s)))
    total = 0
    for a in atoms:
        ln = ex.concrete(atom_len(a))
        if ln is None:
            raise MirUnsupported("slice of a string with an atom of symbolic length")
        total += ln
    lo = ex.concrete(rng.fields[0].e) if kind in ("RangeFrom", "Range") else 0
    hi = ex.concrete(rng.fields[-1].e) if kind in ("RangeTo", "Range") else total
    if lo is None or hi is None:
        raise MirUnsupported("slice with symbolic bounds on a structured string")
    if lo > hi or hi > total:
        yield Outcome("panic", st, msg="byte index out of range of the string (%s)" % callee)
        return
    out, pos = [], 0
    for a in atoms:
        ln = ex.concrete(atom_len(a))
        s0, s1 = max(lo, pos), min(hi, pos + ln)
        if s0 < s1:
            if a[0] == "lit":
                out.append(a)
            elif a[0] == "digits":
                k = a[2]
                i0, i1 = s0 - pos, s1 - pos          # digits i0..i1 of the k digits
                n = (a[1] / (10 ** (k - i1))) % (10 ** (i1 - i0))
                out.append(("digits", z3.simplify(n), i1 - i0))
            else:
                raise MirUnsupported("slice through atom %r" % (a,))
        pos += ln
    yield st, Ref(ex.new_cell(st, mk(out), "strslice"))


ATOM_MODELS = [
    (R(r"^core::str::<impl str>::contains::<(&str|char)>$"), m_contains),
    (R(r"^core::str::<impl str>::split::<(&str|char)>$"), m_split),
    (R(r"^<std::str::Split<'_, (&str|char)> as Iterator>::next$"), m_split_next),
    (R(r"^<(usize|u32|u64|isize|i32|i64) as FromStr>::from_str$"), m_from_str_int),
    (R(r"^core::str::<impl str>::len$|^String::len$"), m_len),
    (R(r"^<std::ops::Range<usize> as Iterator>::map::<&str, .*>$"), m_range_map),
    (R(r"^<Map<std::ops::Range<usize>, .*> as Iterator>::collect::<String>$"), m_map_collect_string),
    (R(r"^format$|^std::fmt::format$|^alloc::fmt::format$"), m_format_atoms),
    (R(r"^core::str::<impl str>::strip_prefix::<(&str|char)>$"), m_strip_prefix),
    (R(r"^<(str|String|std::string::String) as Index<(std::ops::)?Range(From|To)?<usize>>>::index$|^core::str::traits::<impl Index<.*Range(From|To)?<usize>> for str>::index$"), m_slice_atoms),
]
