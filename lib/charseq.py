"""Strings as sequences of symbolic Unicode scalar values (engine M, C08 / C05 string built-ins).

StrV(None, seq=VecV(n, [Sc code point ...], 'char')): `n` symbolic (bounded by the number of items), every code point any Unicode
scalar value.  UTF-8 facts used by the models: a scalar takes 1..4 bytes by its magnitude; `len()` is the sum of the widths; byte
offsets are char boundaries exactly at the partial sums; `find` returns the byte offset of the first occurrence.  These are std's
documented contracts for str (the models replace std code, not repository code)."""
import re

import z3

from mir.parser import MirUnsupported
from mir.sym import Adt, En, Opaque, Outcome, Ref, Sc, StrV, VecV, UNIT, mk_bool, mk_int, none, some
from mir.models import deref, R

REPR = [0x61, 0x62, 0x63, 0xE9, 0xFC, 0x20AC, 0x4F60, 0x1F600, 0x1F389]   # a b c é ü € 你 😀 🎉 : preferred witnesses (1, 2, 3, 4 bytes)


def width(cp):
    return z3.If(cp < 0x80, 1, z3.If(cp < 0x800, 2, z3.If(cp < 0x10000, 3, 4)))


def fresh_string(ex, st, hint, nmax):
    n = ex.fresh_int(st, "usize", hint + "_chars", constrain=False)
    ex.assume(st, z3.And(n.e >= 0, n.e <= nmax))
    cps = []
    for k in range(nmax):
        c = z3.Int(ex.fresh_name("%s_c%d" % (hint, k)))
        ex.assume(st, z3.And(c >= 0, c <= 0x10FFFF, z3.Or(c < 0xD800, c > 0xDFFF)))
        cps.append(Sc(c, "char"))
    return StrV(None, seq=VecV(n.e, cps, "char")), n.e, cps


def seq_of(s):
    if s.const is not None:
        return VecV(z3.IntVal(len(s.const)), tuple(Sc(z3.IntVal(ord(ch)), "char") for ch in s.const), "char")
    if "seq" in s.attrs:
        return s.attrs["seq"]
    raise MirUnsupported("string without a character-sequence model: %r" % (s,))


def prefix_bytes(seq, j):
    return z3.Sum([width(c.e) for c in seq.items[:j]] + [z3.IntVal(0)])


def byte_len(seq):
    return z3.Sum([z3.If(seq.len > i, width(c.e), 0) for i, c in enumerate(seq.items)] + [z3.IntVal(0)])


def _concrete_len(ex, st, seq):
    for st2, n in ex.enum_values(st, seq.len, limit=len(seq.items) + 2):
        yield st2, n


def m_str_len(ex, st, callee, args, dest_ty):
    s = deref(ex, st, args[0])
    if s.const is not None and "seq" not in s.attrs:
        yield st, mk_int(len(s.const.encode("utf-8")), "usize")
        return
    yield st, Sc(z3.simplify(byte_len(seq_of(s))), "usize")


def m_chars(ex, st, callee, args, dest_ty):
    yield st, Opaque("CharsIt", info=seq_of(deref(ex, st, args[0])))


def m_chars_count(ex, st, callee, args, dest_ty):
    yield st, Sc(args[0].info.len, "usize")


def m_chars_skip(ex, st, callee, args, dest_ty):
    seq, k = args[0].info, args[1].e
    for st2 in ex.branch(st, k >= seq.len):
        yield st2, Opaque("CharsIt", info=VecV(z3.IntVal(0), (), "char"))
    for st2 in ex.branch(st, k < seq.len):
        for st3, kk in ex.enum_values(st2, k, limit=len(seq.items) + 2):
            yield st3, Opaque("CharsIt", info=VecV(z3.simplify(seq.len - kk), tuple(seq.items[kk:]), "char"))


def m_chars_take(ex, st, callee, args, dest_ty):
    seq, c = args[0].info, args[1].e
    for st2 in ex.branch(st, c >= seq.len):
        yield st2, args[0]
    for st2 in ex.branch(st, c < seq.len):
        for st3, cc in ex.enum_values(st2, c, limit=len(seq.items) + 2):
            yield st3, Opaque("CharsIt", info=VecV(z3.IntVal(cc), tuple(seq.items[:cc]), "char"))


def m_collect_string(ex, st, callee, args, dest_ty):
    yield st, StrV(None, seq=args[0].info)


def _match_at(s_items, m_items, j):
    return z3.And([s_items[j + t].e == m_items[t].e for t in range(len(m_items))] + [z3.BoolVal(True)])


def m_find(ex, st, callee, args, dest_ty):
    s, pat = seq_of(deref(ex, st, args[0])), seq_of(deref(ex, st, args[1]))
    for st1, ns in _concrete_len(ex, st, s):
        for st2, nm in _concrete_len(ex, st1, pat):
            si, mi = s.items[:ns], pat.items[:nm]
            cands = list(range(0, ns - nm + 1))
            earlier = []
            for j in cands:
                mj = _match_at(si, mi, j)
                for st3 in ex.branch(st2, z3.And(mj, *[z3.Not(e) for e in earlier])):
                    yield st3, some(Sc(z3.simplify(prefix_bytes(s, j)), "usize"))
                earlier.append(mj)
            for st3 in ex.branch(st2, z3.And([z3.Not(e) for e in earlier] + [z3.BoolVal(True)])):
                yield st3, none()


def m_str_pred(ex, st, callee, args, dest_ty):
    which = re.search(r"::(contains|starts_with|ends_with)::<", callee).group(1)
    s, pat = seq_of(deref(ex, st, args[0])), seq_of(deref(ex, st, args[1]))
    for st1, ns in _concrete_len(ex, st, s):
        for st2, nm in _concrete_len(ex, st1, pat):
            si, mi = s.items[:ns], pat.items[:nm]
            if nm > ns:
                r = z3.BoolVal(False)
            elif which == "starts_with":
                r = _match_at(si, mi, 0)
            elif which == "ends_with":
                r = _match_at(si, mi, ns - nm)
            else:
                r = z3.Or([_match_at(si, mi, j) for j in range(0, ns - nm + 1)])
            yield st2, mk_bool(z3.simplify(r))


def m_str_slice(ex, st, callee, args, dest_ty):
    """s[k..] / s[..k] / s[a..b] at byte offsets: defined exactly at char boundaries, a panic anywhere else"""
    s = seq_of(deref(ex, st, args[0]))
    rng = args[1]
    kind = re.search(r"Index<(?:std::ops::)?(RangeFrom|RangeTo|Range)<usize>>", callee).group(1)
    for st1, n in _concrete_len(ex, st, s):
        bounds = [prefix_bytes(s, j) for j in range(n + 1)]
        lo = rng.fields[0].e if kind in ("RangeFrom", "Range") else None
        hi = rng.fields[-1].e if kind in ("RangeTo", "Range") else None

        def pick(st, e):
            if e is None:
                yield st, None
                return
            for j in range(n + 1):
                for st2 in ex.branch(st, e == bounds[j]):
                    yield st2, j
            for st2 in ex.branch(st, z3.And([e != b for b in bounds])):
                yield st2, "panic"
        for st2, a in pick(st1, lo):
            if a == "panic":
                yield Outcome("panic", st2, msg="byte index is not a char boundary or is out of bounds (%s)" % callee)
                continue
            for st3, b in pick(st2, hi):
                if b == "panic":
                    yield Outcome("panic", st3, msg="byte index is not a char boundary or is out of bounds (%s)" % callee)
                    continue
                a_, b_ = (a or 0), (n if b is None else b)
                if a_ > b_:
                    yield Outcome("panic", st3, msg="slice index starts after its end (%s)" % callee)
                    continue
                yield st3, StrV(None, seq=VecV(z3.IntVal(b_ - a_), tuple(s.items[a_:b_]), "char"))


STR_MODELS = [
    (R(r"^core::str::<impl str>::len$|^(std::string::)?String::len$"), m_str_len),
    (R(r"^core::str::<impl str>::chars$"), m_chars),
    (R(r"^<Chars<'_> as Iterator>::count$"), m_chars_count),
    (R(r"^<(std::iter::)?(Chars<'_>|Skip<.*>|Take<.*>) as Iterator>::skip$"), m_chars_skip),
    (R(r"^<(std::iter::)?(Chars<'_>|Skip<.*>|Take<.*>) as Iterator>::take$"), m_chars_take),
    (R(r"^<(std::iter::)?(Chars<'_>|Skip<.*>|Take<.*>) as Iterator>::collect::<(std::string::)?String>$"), m_collect_string),
    (R(r"^core::str::<impl str>::find::<.*>$"), m_find),
    (R(r"^core::str::<impl str>::(contains|starts_with|ends_with)::<.*>$"), m_str_pred),
    (R(r"^<(str|String|std::string::String) as Index<(std::ops::)?Range(From|To)?<usize>>>::index$"), m_str_slice),
]


# ----------------------------------------------------------------------------- obligations (called from checks/C08_core.py)


def string_jobs(check, mirror, rb, crate, U, jobs, tier, KNOWN_PRED, MODELS, N, in_domain, start_index, is_null):
    from mcheck import decide, model_value
    import numvals as nv
    from vcommon import replay_call

    def str_value(ex, st, hint, nmax, kinds=("String",)):
        s, n, cps = fresh_string(ex, st, hint, nmax)
        alts = {"String": (s,)}
        if "Number" in kinds:
            alts["Number"] = (Opaque("FeelNumber", z3.Int(ex.fresh_name(hint + "_num"))),)
        if "Null" in kinds:
            alts["Null"] = (none(),)
        if len(kinds) == 1:
            disc = z3.IntVal(U.idx(kinds[0]))
        else:
            d = ex.fresh_int(st, "isize", hint + "_kind", constrain=False)
            ex.assume(st, z3.Or([d.e == U.idx(k) for k in kinds]))
            disc = d.e
        return En("Value", disc, alts), n, cps

    def result_chars(ex, res):
        if not (isinstance(res, En) and res.ty == "Value" and ex.concrete(res.disc) == U.idx("String")):
            return None
        seq = seq_of(res.alts["String"][0])
        return seq.len, list(seq.items)

    def picks(ex, res, cps, idx_of_k, count):
        """z3: res is the string of `count` characters whose k-th character is cps[idx_of_k(k)] (the result's length may be symbolic)"""
        got = result_chars(ex, res)
        if got is None:
            return z3.BoolVal(False)
        rlen, ritems = got
        conj = [count == rlen, rlen <= len(ritems)]
        for k, g in enumerate(ritems):
            where = [j for j, c in enumerate(cps) if c is g]
            conj.append(z3.Implies(rlen > k, z3.Or([idx_of_k(k) == j for j in where] + [z3.BoolVal(False)])))
        return z3.And(conj)

    def kind_name(m, v):
        d = model_value(m, v.disc)
        return [k for k in v.alts if U.idx(k) == d][0]

    def desc(m, inputs):
        d = {}
        for k, v in inputs.items():
            if not k.startswith("_"):
                d[k] = model_value(m, v)
        for nm in ("string", "match"):
            if "_" + nm in inputs:
                n = d[nm + "_chars"]
                d[nm] = [model_value(m, c.e) for c in inputs["_" + nm][:n]]
                if "_" + nm + "_value" in inputs:
                    d[nm + "_kind"] = kind_name(m, inputs["_" + nm + "_value"])
        return d

    def prefer(inputs):
        c = []
        for nm in ("string", "match"):
            for cp in inputs.get("_" + nm, []):
                c.append(z3.Or([cp.e == r for r in REPR]))
        return z3.And(c) if c else z3.BoolVal(True)

    def add(oid, setup, post, replay, min_paths=2, unwind=12):
        def post2(ex, o, v):
            nul = is_null(ex, o.value)
            return post(ex, o, v) + [("reach:non-null result", z3.BoolVal(not nul)), ("reach:null result", z3.BoolVal(bool(nul)))]
        jobs.append(lambda c: decide(c, crate, "core/" + oid, setup, post2, replay, rb, models=MODELS, unwind=unwind, describe=desc, budget_s=900,
                                     min_paths=min_paths, timeout_ms=20000, known_predicates=KNOWN_PRED, prefer=prefer,
                                     need_reach=["reach:non-null result", "reach:null result"]))

    # --- string length ---------------------------------------------------------------------------------------------------------------
    def setup_len(ex, st):
        v, n, cps = str_value(ex, st, "string", N, kinds=("String", "Number", "Null"))
        return "string_length", [Ref(ex.new_cell(st, v))], {"string_chars": n, "_string": cps, "_string_value": v}

    def post_len(ex, o, v):
        res, x = o.value, v["_string_value"]
        isnum = isinstance(res, En) and ex.concrete(res.disc) == U.idx("Number")
        return [("string length(s) is the number of characters", z3.Implies(x.disc == U.idx("String"), (res.alts["Number"][0].e == v["string_chars"]) if isnum else z3.BoolVal(False))),
                ("string length of a non-string is null", z3.Implies(x.disc != U.idx("String"), z3.BoolVal(is_null(ex, res))))]
    add("string_length", setup_len, post_len, lambda i, rb: replay_str("string length", i, rb))

    # --- substring -------------------------------------------------------------------------------------------------------------------------
    def setup_substring(ex, st):
        v, n, cps = str_value(ex, st, "string", N, kinds=("String", "Null"))
        p = nv.fresh_number(ex, st, "position")
        pv = En("Value", z3.IntVal(U.idx("Number")), {"Number": (p,)})
        l = nv.fresh_number(ex, st, "length")
        ld = ex.fresh_int(st, "isize", "length_kind", constrain=False)
        ex.assume(st, z3.Or(ld.e == U.idx("Number"), ld.e == U.idx("Null")))
        lv = En("Value", ld.e, {"Number": (l,), "Null": (none(),)})
        inputs = {"string_chars": n, "_string": cps, "_string_value": v, "position_floor": p.e, "position_isint": p.info["int"],
                  "has_length": ld.e == U.idx("Number"), "length_floor": l.e, "length_isint": l.info["int"]}
        return "substring", [Ref(ex.new_cell(st, v)), Ref(ex.new_cell(st, pv)), Ref(ex.new_cell(st, lv))], inputs

    def post_substring(ex, o, v):
        res, n, p, pint, x = o.value, v["string_chars"], v["position_floor"], v["position_isint"], v["_string_value"]
        s = start_index(p, n)
        isstr = x.disc == U.idx("String")
        dom = z3.And(isstr, in_domain(p, pint, n))
        l, lint = v["length_floor"], v["length_isint"]
        return [("substring(s, p) is the characters from position p to the end",
                 z3.Implies(z3.And(dom, z3.Not(v["has_length"])), picks(ex, res, v["_string"], lambda k: s + k, n - s))),
                ("substring(s, p, l) with the range inside the string is characters p .. p+l-1",
                 z3.Implies(z3.And(dom, v["has_length"], lint, l >= 1, s + l <= n), picks(ex, res, v["_string"], lambda k: s + k, l))),
                ("position 0 gives null", z3.Implies(z3.And(isstr, pint, p == 0), z3.BoolVal(is_null(ex, res)))),
                ("substring of a non-string is null", z3.Implies(z3.Not(isstr), z3.BoolVal(is_null(ex, res))))]
    add("substring", setup_substring, post_substring, lambda i, rb: replay_str("substring", i, rb), unwind=16)

    # --- substring before / after, contains, starts with, ends with ---------------------------------------------------------------------------------
    def setup_two(fn):
        def setup(ex, st):
            v, n, cps = str_value(ex, st, "string", N, kinds=("String", "Null"))
            mv, nm, mcps = str_value(ex, st, "match", 2, kinds=("String", "Null"))
            inputs = {"string_chars": n, "_string": cps, "_string_value": v, "match_chars": nm, "_match": mcps, "_match_value": mv}
            return fn, [Ref(ex.new_cell(st, v)), Ref(ex.new_cell(st, mv))], inputs
        return setup

    def occurrences(v):
        """list over char positions j of z3 conditions 'the match string occurs at j' (lengths symbolic)"""
        n, nm, cps, mcps = v["string_chars"], v["match_chars"], v["_string"], v["_match"]
        occ = []
        for j in range(len(cps) + 1):
            conj = [j + nm <= n]
            for t, mc in enumerate(mcps):
                if j + t < len(cps):
                    conj.append(z3.Implies(nm > t, cps[j + t].e == mc.e))
                else:
                    conj.append(nm <= t)
            occ.append(z3.And(conj))
        return occ

    def both_strings(v):
        return z3.And(v["_string_value"].disc == U.idx("String"), v["_match_value"].disc == U.idx("String"))

    def post_before_after(after):
        def post(ex, o, v):
            res, n, nm = o.value, v["string_chars"], v["match_chars"]
            occ = occurrences(v)
            cases = []
            for j, oj in enumerate(occ):
                first = z3.And(oj, *[z3.Not(e) for e in occ[:j]])
                exp = picks(ex, res, v["_string"], (lambda k, j=j: j + nm + k) if after else (lambda k: z3.IntVal(0) + k), (n - j - nm) if after else z3.IntVal(j))
                cases.append(z3.Implies(first, exp))
            none_ = z3.And([z3.Not(e) for e in occ])
            got = result_chars(ex, res)
            cases.append(z3.Implies(none_, (got[0] == 0) if got is not None else z3.BoolVal(False)))
            return [("the result is the part of the string %s the first occurrence of the match (empty if there is none)" % ("after" if after else "before"),
                     z3.Implies(both_strings(v), z3.And(cases))),
                    ("a non-string argument gives null", z3.Implies(z3.Not(both_strings(v)), z3.BoolVal(is_null(ex, res))))]
        return post
    add("substring_before", setup_two("substring_before"), post_before_after(False), lambda i, rb: replay_str("substring before", i, rb), unwind=16)
    add("substring_after", setup_two("substring_after"), post_before_after(True), lambda i, rb: replay_str("substring after", i, rb), unwind=16)

    def post_pred(which):
        def post(ex, o, v):
            res, n, nm = o.value, v["string_chars"], v["match_chars"]
            occ = occurrences(v)
            if which == "contains":
                want = z3.Or(occ)
            elif which == "starts_with":
                want = occ[0]
            else:
                want = z3.Or([z3.And(oj, j + nm == n) for j, oj in enumerate(occ)])
            isb = isinstance(res, En) and ex.concrete(res.disc) == U.idx("Boolean")
            return [("%s(s, m) is true iff m occurs in s %s" % (which.replace("_", " "), {"contains": "somewhere", "starts_with": "at its start", "ends_with": "at its end"}[which]),
                     z3.Implies(both_strings(v), (res.alts["Boolean"][0].e == want) if isb else z3.BoolVal(False))),
                    ("a non-string argument gives null", z3.Implies(z3.Not(both_strings(v)), z3.BoolVal(is_null(ex, res))))]
        return post
    for which in ("contains", "starts_with", "ends_with"):
        add(which, setup_two(which), post_pred(which), lambda i, rb, which=which: replay_str(which.replace("_", " "), i, rb), unwind=16)


# ----------------------------------------------------------------------------- native replay


def feel_str(cps):
    out = []
    for c in cps:
        ch = chr(c)
        if ch in '"\\' or c < 0x20 or 0x7F <= c < 0xA0:
            return None
        out.append(ch)
    return '"%s"' % "".join(out)


def replay_str(fn, i, rb):
    from vcommon import replay_call
    from checks.C08_core import num_text
    from checks.C11_itemdef import strip_null_text
    s = i.get("string", [])
    m = i.get("match", [])
    st, mt = feel_str(s), feel_str(m)
    if st is None or mt is None:
        return False, "characters not expressible in a FEEL literal"
    if i.get("string_kind", "String") != "String":
        st = "null" if i["string_kind"] == "Null" else "1"
    if i.get("match_kind", "String") != "String":
        mt = "null"
    n = len(s)
    ref = None
    if fn == "string length":
        expr = "string length(%s)" % st
        ref = str(n) if i.get("string_kind", "String") == "String" else "null"
    elif fn == "substring":
        args = [st, num_text(i["position_floor"], i["position_isint"])]
        if i["has_length"]:
            args.append(num_text(i["length_floor"], i["length_isint"]))
        expr = "substring(%s)" % ", ".join(args)
        p = i["position_floor"]
        if i.get("string_kind", "String") != "String":
            ref = "null"
        elif i["position_isint"] and p == 0:
            ref = "null"
        elif i["position_isint"] and 1 <= abs(p) <= n:
            a = p - 1 if p > 0 else n + p
            if not i["has_length"]:
                ref = feel_str(s[a:])
            elif i["length_isint"] and i["length_floor"] >= 1 and a + i["length_floor"] <= n:
                ref = feel_str(s[a:a + i["length_floor"]])
    else:
        expr = "%s(%s, %s)" % (fn, st, mt)
        if "null" in (st, mt):
            ref = "null"
        else:
            S, M = "".join(map(chr, s)), "".join(map(chr, m))
            j = S.find(M)
            ref = {"substring before": lambda: feel_str([ord(c) for c in (S[:j] if j >= 0 else "")]),
                   "substring after": lambda: feel_str([ord(c) for c in (S[j + len(M):] if j >= 0 else "")]),
                   "contains": lambda: "true" if j >= 0 else "false",
                   "starts with": lambda: "true" if S.startswith(M) else "false",
                   "ends with": lambda: "true" if S.endswith(M) else "false"}[fn]()
    _, out, _ = replay_call(rb, ["feel", expr])
    if out.startswith("PANIC"):
        return True, "%s -> %s" % (expr, out[:160])
    if ref is None:
        return False, "%s -> %s (outside the asserted region)" % (expr, out[:100])
    _, want, _ = replay_call(rb, ["feel", ref])
    bad = out.startswith("VALUE") and want.startswith("VALUE") and strip_null_text(out.strip()) != strip_null_text(want.strip())
    return bad, "%s -> %s, reference %s" % (expr, out[:120], ref)
