"""Contract model of the decimal128 FFI layer (feel-number/src/dec.rs) for engine M: the C library is never executed, each
`dec_*` wrapper is replaced by what the General Decimal Arithmetic specification (and the decNumber documentation) says about
  * special values: which operations yield Infinity / NaN (traps are off in the default context, so they are returned, not raised),
  * overflow: a finite result whose magnitude is at least 10^6145 becomes an infinity, one not above 9.99..9E+6144 stays finite,
  * sign and zero-ness of finite results, integral values (to-integral-value), exact sums / differences / products / quotients
    as real numbers (ROUNDING IS NOT MODELLED: no obligation may depend on the 34-digit rounding of a finite result),
  * the exponent of the representation only as far as decQuadIsInteger needs it (true iff finite with exponent 0) and as far as
    decNumberReduce fixes it (trailing zeros removed: a non-zero multiple of ten gets a positive exponent).
A DecQuad is Opaque('DecQuad', val : Real, info = {'k': Int kind 0 finite / 1 +Inf / 2 -Inf / 3 NaN, 'q': Int exponent}).
Signed zeros are not distinguished.  FeelNumber is the real tuple struct FeelNumber(DecQuad): its methods run from the MIR of
feel-number/src/number.rs on top of these contracts.
"""
import re
import sys

import z3

sys.set_int_max_str_digits(100000)

from mir.parser import MirUnsupported
from mir.sym import Adt, En, Opaque, Outcome, Ref, Sc, StrV, VecV, UNIT, mk_bool, mk_int, none, some
from mir.models import deref, R

FIN, PINF, NINF, NAN = 0, 1, 2, 3
TEN = 10
# The overflow threshold is a SYMBOLIC constant (any value >= 10^100): obligations are proved for every such threshold, the real
# one (10^6145) included, which keeps 6000-digit numerals out of the non-linear queries; only the search for a replayable
# witness pins it to its real value (REAL_LIMITS).
OVF = z3.Real("dec_overflow_threshold")          # 10^6145
MAXV = z3.Real("dec_largest_finite")             # 9.999999999999999999999999999999999E+6144 = OVF * (1 - 10^-34)
P34 = z3.RealVal(10 ** 34)
LIMIT_AXIOMS = [OVF >= z3.RealVal(10 ** 100), MAXV == OVF - OVF / P34]
REAL_LIMITS = OVF == z3.RealVal(10 ** 6145)


def assume_axioms(ex, st):
    for a in LIMIT_AXIOMS:
        ex.assume(st, a)


def rabs(r):
    return z3.If(r >= 0, r, -r)


_TOK = [0]


def _tok():
    _TOK[0] += 1
    return _TOK[0]


def dq(val, k, q=None, fl=None, reduced=False, fltok=None):
    """A DecQuad.  `fl` (Int, fl <= val < fl + 1: the floor as an integer witness, so integrality and parity stay in linear integer
    arithmetic) and `q` (the exponent) are created LAZILY, per path, when a model needs them (get_fl / get_q): most arithmetic
    never looks at them, and every eager integer witness makes the mixed integer/real queries harder."""
    return Opaque("DecQuad", val, {"k": k, "q": q, "fl": fl, "reduced": reduced, "qtok": _tok(), "fltok": fltok if fltok is not None else _tok()})


def const_dq(v):
    return dq(z3.RealVal(v), z3.IntVal(FIN), z3.IntVal(0), z3.IntVal(v))


def get_fl(ex, st, x):
    if x.info["fl"] is not None:
        return x.info["fl"]
    key = ("fl", x.info["fltok"])
    if key not in st.aux:
        fl = z3.Int(ex.fresh_name("floor"))
        ex.assume(st, z3.And(z3.ToReal(fl) <= x.e, x.e < z3.ToReal(fl) + 1))
        st.aux[key] = fl
    return st.aux[key]


def rep_ok(ex, val, q, fl):
    """what the exponent of a finite representation implies about the value (coefficient of at most 34 digits times 10^q)"""
    t = z3.Int(ex.fresh_name("tens"))
    return z3.And(z3.Implies(q >= 0, val == z3.ToReal(fl)), z3.Implies(q >= 1, val == 10 * z3.ToReal(t)),
                  z3.Implies(q <= 0, rabs(val) < P34), q >= -6176, q <= 6111)


def get_q(ex, st, x):
    if x.info["q"] is not None:
        return x.info["q"]
    key = ("q", x.info["qtok"])
    if key not in st.aux:
        fl = get_fl(ex, st, x)
        q = z3.Int(ex.fresh_name("exp"))
        cs = [rep_ok(ex, x.e, q, fl)]
        if x.info["reduced"]:    # decNumberReduce: trailing zeros of the coefficient removed (zero becomes 0E+0)
            isint = x.e == z3.ToReal(fl)
            cs += [z3.Implies(x.e == 0, q == 0), z3.Implies(z3.And(isint, fl % 10 != 0), q == 0),
                   z3.Implies(z3.And(x.e != 0, isint, fl % 10 == 0), q >= 1), z3.Implies(z3.Not(isint), q < 0)]
        ex.assume(st, z3.And(cs))
        st.aux[key] = q
    return st.aux[key]


def FL(x):
    """floor witness of a value created with eager witnesses (check inputs)"""
    if x.info["fl"] is None:
        raise MirUnsupported("floor witness of a lazily represented number requested outside a model")
    return x.info["fl"]


def integral(x):
    return x.e == z3.ToReal(FL(x))


def rfloor_of(x):
    return z3.ToReal(FL(x))


def rceil_of(x):
    return z3.If(integral(x), z3.ToReal(FL(x)), z3.ToReal(FL(x) + 1))


def fresh_finite(ex, st, hint):
    """an arbitrary finite decimal128 in an arbitrary representation (eager witnesses: the checks talk about them)"""
    v = z3.Real(ex.fresh_name(hint + "_val"))
    fl = z3.Int(ex.fresh_name(hint + "_floor"))
    q = z3.Int(ex.fresh_name(hint + "_exp"))
    ex.assume(st, z3.And(rabs(v) <= MAXV, z3.ToReal(fl) <= v, v < z3.ToReal(fl) + 1, rep_ok(ex, v, q, fl)))
    return dq(v, z3.IntVal(FIN), q, fl)


def fresh_number(ex, st, hint):
    return Adt("struct", "FeelNumber", (fresh_finite(ex, st, hint),))


def num_of(v):
    """DecQuad of a FeelNumber value"""
    return v.fields[0]


def K(x):
    return x.info["k"]


def fin(x):
    return K(x) == FIN


def _numeral(t):
    t = z3.simplify(t)
    return t if z3.is_rational_value(t) else None


def rmul(ex, st, x, y):
    """x * y: exact when one factor is a numeral (linear); otherwise a fresh real tied to the factors by sign, zero and magnitude
    facts only - the defining equation is logged ('decdef') and added back when a concrete witness is evaluated.  This keeps the
    path conditions linear; it can only make an obligation harder to prove, never easier."""
    if _numeral(x) is not None or _numeral(y) is not None:
        return z3.simplify(x * y)
    m = z3.Real(ex.fresh_name("prod"))
    ax, ay, am = rabs(x), rabs(y), rabs(m)
    ex.assume(st, z3.And((m == 0) == z3.Or(x == 0, y == 0), (m > 0) == z3.Or(z3.And(x > 0, y > 0), z3.And(x < 0, y < 0)),
                         z3.Implies(ay >= 1, am >= ax), z3.Implies(ay <= 1, am <= ax), z3.Implies(ax >= 1, am >= ay), z3.Implies(ax <= 1, am <= ay),
                         z3.Implies(y == 1, m == x), z3.Implies(x == 1, m == y), z3.Implies(y == -1, m == -x), z3.Implies(x == -1, m == -y)))
    st.log.append(("decdef", m == x * y))
    return m


def rdiv(ex, st, x, y):
    """x / y for y != 0 (the caller guards the zero divisor): exact when the divisor is a numeral, else as rmul"""
    ny = _numeral(y)
    if ny is not None:
        return z3.simplify(x / y) if ny.numerator_as_long() != 0 else z3.RealVal(0)
    m = z3.Real(ex.fresh_name("quot"))
    ax, ay, am = rabs(x), rabs(y), rabs(m)
    ex.assume(st, z3.Implies(y != 0, z3.And((m == 0) == (x == 0), (m > 0) == z3.Or(z3.And(x > 0, y > 0), z3.And(x < 0, y < 0)),
                                            z3.Implies(ay >= 1, am <= ax), z3.Implies(ay <= 1, am >= ax),
                                            z3.Implies(y == 1, m == x), z3.Implies(y == -1, m == -x), z3.Implies(x == y, m == 1),
                                            z3.Implies(ax <= ay, am <= 1), z3.Implies(ax >= ay, am >= 1))))
    st.log.append(("decdef", z3.Implies(y != 0, m * y == x)))
    return m


def decdefs(st):
    """the defining equations of the products / quotients met on the path of `st`"""
    return [e[1] for e in st.log if e[0] == "decdef"]


def ck(x):
    """the kind of a DecQuad as a python int: every model forks on the kind of its result, so kinds are concrete on a path"""
    k = z3.simplify(K(x))
    if not z3.is_int_value(k):
        raise MirUnsupported("DecQuad of symbolic kind %s" % k)
    return k.as_long()


def special(kind):
    return dq(z3.RealVal(0), z3.IntVal(kind), z3.IntVal(0), z3.IntVal(0))


def finite(val, **kw):
    return dq(val, z3.IntVal(FIN), **kw)


def _finite_or_overflow(ex, st, exact):
    """results of an operation on finite operands whose exact value is `exact`: finite below the overflow threshold, an infinity
    above the largest finite number (between the two the 34-digit rounding decides: both are possible)"""
    for st2 in ex.branch(st, rabs(exact) < OVF):
        yield st2, finite(exact)
    for st2 in ex.branch(st, exact > MAXV):
        yield st2, special(PINF)
    for st2 in ex.branch(st, exact < -MAXV):
        yield st2, special(NINF)


def _sign_cases(ex, st, x):
    """fork on the sign of a finite value / read it off an infinity: yields (state, -1 | 0 | 1)"""
    k = ck(x)
    if k == PINF:
        yield st, 1
    elif k == NINF:
        yield st, -1
    else:
        for st2 in ex.branch(st, x.e > 0):
            yield st2, 1
        for st2 in ex.branch(st, x.e < 0):
            yield st2, -1
        for st2 in ex.branch(st, x.e == 0):
            yield st2, 0


def _rounded_quotient(ex, st, exact):
    """what decQuadDivide delivers for the exact quotient: the quotient itself when 34 digits hold it, otherwise a neighbour within half a
    unit of the 34th digit - which is an INTEGER as soon as the quotient has 34 integer digits (so `x / 2` of a large odd x is integral).
    Which of the two applies is not decided here (no digit arithmetic): both are admitted, counterexamples are confirmed natively."""
    r = z3.Real(ex.fresh_name("quotient34"))
    w = z3.Int(ex.fresh_name("quotient34_int"))
    # below 34 integer digits the quotient is kept exact (as before: its fraction digits are not modelled)
    ex.assume(st, z3.Or(r == exact, z3.And(rabs(exact) >= 10 ** 33, rabs(r - exact) * (2 * 10 ** 33) <= rabs(exact), (r > 0) == (exact > 0), r == z3.ToReal(w))))
    return r


def _arith(ex, st, a, b, op):
    """add / subtract / multiply / divide on two DecQuads: generator of (state, result)"""
    ka, kb = ck(a), ck(b)
    inf = lambda s: special(PINF if s > 0 else NINF)
    if ka == NAN or kb == NAN:
        yield st, special(NAN)
        return
    if ka == FIN and kb == FIN:
        if op == "add":
            yield from _finite_or_overflow(ex, st, a.e + b.e)
        elif op == "subtract":
            yield from _finite_or_overflow(ex, st, a.e - b.e)
        elif op == "multiply":
            yield from _finite_or_overflow(ex, st, rmul(ex, st, a.e, b.e))
        else:
            for st2 in ex.branch(st, b.e != 0):
                qx = rdiv(ex, st2, a.e, b.e)
                # the 34-digit rounding of quotients is admitted only where an obligation asks for it (integrality / parity questions):
                # elsewhere it only makes the mixed real / integer queries harder (finite/stddev: 0.2 s -> 200 s)
                yield from _finite_or_overflow(ex, st2, _rounded_quotient(ex, st2, qx) if getattr(ex, "dec_round_quotient", False) else qx)
            for st2 in ex.branch(st, b.e == 0):        # x/0: Infinity (Division by zero), 0/0: NaN (Division undefined)
                for st3, sa in _sign_cases(ex, st2, a):
                    yield st3, special(NAN) if sa == 0 else inf(sa)
        return
    sgn = {PINF: 1, NINF: -1}
    if op in ("add", "subtract"):
        sb = lambda: sgn[kb] * (1 if op == "add" else -1)
        if ka != FIN and kb != FIN:
            yield st, inf(sgn[ka]) if sgn[ka] == sb() else special(NAN)
        elif ka != FIN:
            yield st, inf(sgn[ka])
        else:
            yield st, inf(sb())
        return
    if op == "multiply":
        for st2, s1 in _sign_cases(ex, st, a):
            for st3, s2 in _sign_cases(ex, st2, b):
                yield st3, special(NAN) if s1 * s2 == 0 else inf(s1 * s2)      # infinity * 0 = NaN
        return
    if ka != FIN and kb != FIN:
        yield st, special(NAN)
    elif kb != FIN:
        yield st, const_dq(0)                                                      # finite / infinity = 0
    else:
        for st2, s2 in _sign_cases(ex, st, b):
            yield st2, inf(sgn[ka] * (s2 if s2 != 0 else 1))


def m_dec_arith(ex, st, callee, args, dest_ty):
    op = callee.rsplit("dec_", 1)[1]
    a, b = deref(ex, st, args[0]), deref(ex, st, args[1])
    yield from _arith(ex, st, a, b, op)


def m_dec_minus(ex, st, callee, args, dest_ty):
    a = deref(ex, st, args[0])
    k = ck(a)
    if k != FIN:
        yield st, special({PINF: NINF, NINF: PINF, NAN: NAN}[k])
        return
    fl = a.info["fl"]
    nfl = None if fl is None else z3.If(a.e == z3.ToReal(fl), -fl, -fl - 1)
    yield st, finite(-a.e, q=a.info["q"], fl=nfl, reduced=a.info["reduced"] and a.info["q"] is None)


def m_dec_abs(ex, st, callee, args, dest_ty):
    a = deref(ex, st, args[0])
    k = ck(a)
    if k != FIN:
        yield st, special({PINF: PINF, NINF: PINF, NAN: NAN}[k])
        return
    fl = a.info["fl"]
    nfl = None if fl is None else z3.If(a.e >= 0, fl, z3.If(a.e == z3.ToReal(fl), -fl, -fl - 1))
    yield st, finite(rabs(a.e), q=a.info["q"], fl=nfl, reduced=a.info["reduced"] and a.info["q"] is None)


def m_dec_reduce(ex, st, callee, args, dest_ty):
    """decNumberReduce: same value, trailing zeros of the coefficient removed; the new exponent is created when somebody asks"""
    a = deref(ex, st, args[0])
    if ck(a) != FIN:
        yield st, a
        return
    yield st, finite(a.e, q=None, fl=a.info["fl"], reduced=True, fltok=a.info["fltok"])


def m_dec_to_integral(ex, st, callee, args, dest_ty):
    """decQuadToIntegralValue with ROUND_FLOOR / CEILING / DOWN: specials unchanged; a finite value becomes the integral value
    (exponent 0, or its own exponent if that was already non-negative)"""
    a = deref(ex, st, args[0])
    if ck(a) != FIN:
        yield st, a
        return
    mode = callee.rsplit("dec_", 1)[1]
    fl = get_fl(ex, st, a)
    ce = z3.If(a.e == z3.ToReal(fl), fl, fl + 1)
    r = z3.simplify({"floor": fl, "ceiling": ce, "trunc": z3.If(a.e >= 0, fl, ce)}[mode])
    yield st, finite(z3.ToReal(r), q=None, fl=r)


def m_dec_fract(ex, st, callee, args, dest_ty):
    """x - trunc(x); Infinity - Infinity = NaN"""
    a = deref(ex, st, args[0])
    if ck(a) != FIN:
        yield st, special(NAN)
        return
    fl = get_fl(ex, st, a)
    isint = a.e == z3.ToReal(fl)
    tr = z3.If(a.e >= 0, z3.ToReal(fl), z3.If(isint, z3.ToReal(fl), z3.ToReal(fl + 1)))
    yield st, finite(a.e - tr)


def m_dec_compare(ex, st, callee, args, dest_ty):
    """decQuadCompare: NaN if either operand is a NaN, else -1 / 0 / 1 (infinities ordered at the ends)"""
    a, b = deref(ex, st, args[0]), deref(ex, st, args[1])
    ka, kb = ck(a), ck(b)
    if ka == NAN or kb == NAN:
        yield st, special(NAN)
        return
    pos = {NINF: -1, FIN: 0, PINF: 1}
    if ka != FIN or kb != FIN:
        c = (pos[ka] > pos[kb]) - (pos[ka] < pos[kb])
        yield st, const_dq(c)
        return
    iv = z3.simplify(z3.If(a.e == b.e, z3.IntVal(0), z3.If(a.e < b.e, z3.IntVal(-1), z3.IntVal(1))))
    yield st, finite(z3.ToReal(iv), q=z3.IntVal(0), fl=iv)


def m_dec_compare_total(ex, st, callee, args, dest_ty):
    """decQuadCompareTotal (IEEE 754 totalOrder): like compare, but numerically equal finite numbers are ordered by their
    exponents (for positive numbers the smaller exponent comes first, for negative ones the larger) and NaNs are ordered too"""
    a, b = deref(ex, st, args[0]), deref(ex, st, args[1])
    ka, kb = ck(a), ck(b)
    pos = {NINF: -1, FIN: 0, PINF: 1, NAN: 2}
    if ka != FIN or kb != FIN:
        c = (pos[ka] > pos[kb]) - (pos[ka] < pos[kb])
        yield st, const_dq(c)
        return
    qa, qb = get_q(ex, st, a), get_q(ex, st, b)
    byq = z3.If(qa == qb, z3.IntVal(0), z3.If((qa < qb) == (a.e >= 0), z3.IntVal(-1), z3.IntVal(1)))
    iv = z3.simplify(z3.If(a.e == b.e, byq, z3.If(a.e < b.e, z3.IntVal(-1), z3.IntVal(1))))
    yield st, finite(z3.ToReal(iv), q=z3.IntVal(0), fl=iv)


def m_dec_pred(ex, st, callee, args, dest_ty):
    a = deref(ex, st, args[0])
    p = callee.rsplit("dec_is_", 1)[1]
    k = ck(a)
    if k != FIN:
        yield st, mk_bool({"finite": False, "zero": False, "positive": k == PINF, "negative": k == NINF, "integer": False}[p])
        return
    if p == "integer":          # DFISINT: finite with exponent exactly 0
        yield st, mk_bool(z3.simplify(get_q(ex, st, a) == 0))
        return
    r = {"finite": z3.BoolVal(True), "zero": a.e == 0, "positive": a.e > 0, "negative": a.e < 0}[p]
    yield st, mk_bool(z3.simplify(r))


def m_dec_remainder(ex, st, callee, args, dest_ty):
    """decQuadRemainder(a, b) = a - b * trunc(a / b); NaN for NaN operands, an infinite dividend, a zero divisor, and when the
    integer quotient needs more than 34 digits (Division impossible); a for an infinite divisor"""
    a, b = deref(ex, st, args[0]), deref(ex, st, args[1])
    ka, kb = ck(a), ck(b)
    if ka != FIN or kb == NAN:
        yield st, special(NAN)
        return
    if kb != FIN:
        yield st, a
        return
    for st2 in ex.branch(st, b.e == 0):
        yield st2, special(NAN)
    for st2 in ex.branch(st, b.e != 0):
        tq = z3.Int(ex.fresh_name("quot"))
        quo = rdiv(ex, st2, a.e, b.e)
        ex.assume(st2, z3.If(quo >= 0, z3.And(z3.ToReal(tq) <= quo, quo < z3.ToReal(tq) + 1), z3.And(z3.ToReal(tq) - 1 < quo, quo <= z3.ToReal(tq))))
        big = z3.Or(tq >= 10 ** 34, tq <= -10 ** 34)
        for st3 in ex.branch(st2, big):
            yield st3, special(NAN)
        for st3 in ex.branch(st2, z3.Not(big)):
            yield st3, finite(a.e - rmul(ex, st3, b.e, z3.ToReal(tq)))


def _pow10_of(ex, st, e):
    """10^e for a symbolic integer e: exact for -40..40, only bounded outside"""
    p = z3.Real(ex.fresh_name("pow10"))
    cs = [z3.Implies(e == i, p == (z3.RealVal(10 ** i) if i >= 0 else 1 / z3.RealVal(10 ** -i))) for i in range(-40, 41)]
    cs += [p > 0, z3.Implies(e > 40, p >= z3.RealVal(10 ** 41)), z3.Implies(e < -40, p <= 1 / z3.RealVal(10 ** 41))]
    ex.assume(st, z3.And(cs))
    return p


def m_dec_rescale(ex, st, callee, args, dest_ty):
    """decNumberRescale(a, e): a rounded to exponent e; Invalid operation (NaN) when e is not an integer in range or when the
    coefficient would need more than 34 digits, i.e. |a| >= 10^(34+e); NaN in, NaN out; an infinite a with a finite e stays infinite"""
    a, b = deref(ex, st, args[0]), deref(ex, st, args[1])
    ka, kb = ck(a), ck(b)
    if ka == NAN or kb != FIN:
        yield st, special(NAN)
        return
    if ka != FIN:
        yield st, a
        return
    e = get_fl(ex, st, b)
    p = _pow10_of(ex, st, e + 34)
    bad = z3.Or(b.e != z3.ToReal(e), e < -6176, e > 6111, rabs(a.e) >= p)
    for st2 in ex.branch(st, bad):
        yield st2, special(NAN)
    for st2 in ex.branch(st, z3.Not(bad)):
        val = z3.Real(ex.fresh_name("rescaled"))
        fl = z3.Int(ex.fresh_name("rescaled_floor"))
        afl = get_fl(ex, st2, a)
        ex.assume(st2, z3.And(z3.ToReal(fl) <= val, val < z3.ToReal(fl) + 1, z3.Implies(a.e >= 0, val >= 0), z3.Implies(a.e <= 0, val <= 0),
                              z3.Implies(e >= 0, val == z3.ToReal(fl)), z3.Implies(z3.And(a.e == z3.ToReal(afl), e <= 0), val == a.e),
                              rabs(val) <= rabs(a.e) + 1))
        yield st2, finite(val, q=e, fl=fl)


def m_dec_exp(ex, st, callee, args, dest_ty):
    """e^x: NaN -> NaN, -Inf -> 0, +Inf -> +Inf; overflows to +Infinity for x >= 14150, finite for x <= 14149"""
    a = deref(ex, st, args[0])
    k = ck(a)
    if k != FIN:
        yield st, (const_dq(0) if k == NINF else special(k))
        return
    for st2 in ex.branch(st, a.e < 14150):
        val = z3.Real(ex.fresh_name("exp"))
        ex.assume(st2, z3.And(val >= 0, z3.Implies(a.e >= 0, val >= 1), val <= MAXV))
        yield st2, finite(val)
    for st2 in ex.branch(st, a.e > 14149):
        yield st2, special(PINF)


def m_dec_ln(ex, st, callee, args, dest_ty):
    """ln x: NaN for NaN and negative operands (Invalid operation), -Infinity for 0, +Infinity for +Infinity"""
    a = deref(ex, st, args[0])
    k = ck(a)
    if k != FIN:
        yield st, special(PINF if k == PINF else NAN)
        return
    for st2 in ex.branch(st, a.e < 0):
        yield st2, special(NAN)
    for st2 in ex.branch(st, a.e == 0):
        yield st2, special(NINF)
    for st2 in ex.branch(st, a.e > 0):
        val = z3.Real(ex.fresh_name("ln"))
        ex.assume(st2, z3.And(z3.Implies(a.e > 1, val > 0), z3.Implies(a.e == 1, val == 0), z3.Implies(a.e < 1, val < 0), rabs(val) <= 14200))
        yield st2, finite(val)


def m_dec_sqrt(ex, st, callee, args, dest_ty):
    """square root: NaN for NaN and negative operands, +Infinity for +Infinity, never overflows"""
    a = deref(ex, st, args[0])
    k = ck(a)
    if k != FIN:
        yield st, special(PINF if k == PINF else NAN)
        return
    for st2 in ex.branch(st, a.e < 0):
        yield st2, special(NAN)
    for st2 in ex.branch(st, a.e >= 0):
        val = z3.Real(ex.fresh_name("sqrt"))
        ex.assume(st2, z3.And(val >= 0, (val == 0) == (a.e == 0), z3.Implies(a.e >= 1, val <= a.e), z3.Implies(a.e <= 1, val <= 1)))
        yield st2, finite(val)


def m_dec_power(ex, st, callee, args, dest_ty):
    """x^y: any kind of result is possible for finite operands (overflow -> Infinity, 0^0 / negative base with fractional
    exponent -> NaN, 0^negative -> Infinity); x^1 = x; x^2 is finite iff x*x does not overflow"""
    a, b = deref(ex, st, args[0]), deref(ex, st, args[1])
    ka, kb = ck(a), ck(b)
    if ka == NAN or kb == NAN:
        yield st, special(NAN)
        return
    if ka != FIN or kb != FIN:
        for kv in (FIN, PINF, NINF, NAN):       # 0, 1 or an infinity depending on signs: every kind left possible
            if kv == FIN:
                val = z3.Real(ex.fresh_name("pow"))
                ex.assume(st, rabs(val) <= 1)
                yield st, finite(val)
            else:
                yield st, special(kv)
        return
    for st2 in ex.branch(st, b.e == 1):
        yield st2, finite(a.e)
    for st2 in ex.branch(st, b.e == 2):
        sq = rmul(ex, st2, a.e, a.e)
        ex.assume(st2, sq >= 0)
        for st3 in ex.branch(st2, sq < OVF):
            yield st3, finite(sq)
        for st3 in ex.branch(st2, sq > MAXV):
            yield st3, special(PINF)
    for st2 in ex.branch(st, z3.And(b.e != 1, b.e != 2)):
        val = z3.Real(ex.fresh_name("pow"))
        ex.assume(st2, rabs(val) <= MAXV)
        yield st2, finite(val)
        yield st2, special(PINF)
        yield st2, special(NINF)
        yield st2, special(NAN)


def m_dec_scale_b(ex, st, callee, args, dest_ty):
    raise MirUnsupported("dec_scale_b (FeelNumber::new) is not modelled")


def m_lazy_const(ex, st, callee, args, dest_ty):
    name = re.search(r"DEC_(ZERO|ONE|TWO|NANO)", callee).group(1)
    v = {"ZERO": 0, "ONE": 1, "TWO": 2, "NANO": 10 ** 9}[name]
    yield st, Ref(ex.new_cell(st, const_dq(v), "lazy_" + name))


def m_num_from_int(ex, st, callee, args, dest_ty):
    """FeelNumber::from_i128 / from_isize / from_usize / From<integer>: the decimal text of an integer read back: exact (at most 39
    digits are rounded to 34: only |n| >= 10^34 loses digits, which no obligation depends on), exponent 0"""
    yield st, Adt("struct", "FeelNumber", (finite(z3.ToReal(args[0].e), q=z3.IntVal(0), fl=args[0].e),))


def m_partial_ord_via_partial_cmp(ex, st, callee, args, dest_ty):
    """PartialOrd's provided lt / le / gt / ge in terms of the type's own partial_cmp (executed from MIR)"""
    op = callee.rsplit("::", 1)[1]
    a, b = args
    if "<&" in callee:
        a, b = deref(ex, st, a), deref(ex, st, b)
        a = a if isinstance(a, Ref) else args[0]
        b = b if isinstance(b, Ref) else args[1]
    for o in ex.run("<FeelNumber as PartialOrd>::partial_cmp", [a, b], st):
        if o.kind != "return":
            yield o
            continue
        r = o.value          # Option<Ordering>
        d = r.alts["Some"][0].disc if "Some" in r.alts else z3.IntVal(0)
        is_some = r.disc == 1
        res = {"lt": z3.And(is_some, d == -1), "le": z3.And(is_some, d <= 0), "gt": z3.And(is_some, d == 1), "ge": z3.And(is_some, d >= 0)}[op]
        yield o.st, mk_bool(z3.simplify(res))


def m_number_to_string_opaque(ex, st, callee, args, dest_ty):
    yield st, StrV("")


DEC_MODELS = [
    (R(r"(^|::)dec_(add|subtract|multiply|divide)$"), m_dec_arith),
    (R(r"(^|::)dec_minus$"), m_dec_minus),
    (R(r"(^|::)dec_abs$"), m_dec_abs),
    (R(r"(^|::)dec_reduce$"), m_dec_reduce),
    (R(r"(^|::)dec_(floor|ceiling|trunc)$"), m_dec_to_integral),
    (R(r"(^|::)dec_fract$"), m_dec_fract),
    (R(r"(^|::)dec_compare$"), m_dec_compare),
    (R(r"(^|::)dec_compare_total$"), m_dec_compare_total),
    (R(r"(^|::)dec_is_(finite|zero|positive|negative|integer)$"), m_dec_pred),
    (R(r"(^|::)dec_remainder$"), m_dec_remainder),
    (R(r"(^|::)dec_rescale$"), m_dec_rescale),
    (R(r"(^|::)dec_exp$"), m_dec_exp),
    (R(r"(^|::)dec_ln$"), m_dec_ln),
    (R(r"(^|::)dec_square_root$"), m_dec_sqrt),
    (R(r"(^|::)dec_power$"), m_dec_power),
    (R(r"(^|::)dec_scale_b$"), m_dec_scale_b),
    (R(r"^<(dec::)?DEC_(ZERO|ONE|TWO|NANO) as Deref>::deref$"), m_lazy_const),
    (R(r"^FeelNumber::from_(i128|isize|usize)$|^<FeelNumber as From<(i|u)(\d+|size)>>::from$|^<(i|u)(\d+|size) as Into<FeelNumber>>::into$"), m_num_from_int),
    (R(r"^<&?&?FeelNumber as PartialOrd>::(lt|le|gt|ge)$"), m_partial_ord_via_partial_cmp),
    (R(r"^<FeelNumber as ToString>::to_string$"), m_number_to_string_opaque),
]


def describe_num(model, v, mv):
    """python rendering of a DecQuad under a model: ('fin', Fraction) / 'Infinity' / '-Infinity' / 'NaN'"""
    from fractions import Fraction
    k = mv(model, K(v))
    if k == PINF:
        return "Infinity"
    if k == NINF:
        return "-Infinity"
    if k == NAN:
        return "NaN"
    r = model.eval(v.e, model_completion=True)
    try:
        fr = Fraction(r.numerator_as_long(), r.denominator_as_long())
    except Exception:
        fr = Fraction(str(r.approx(40)).rstrip("?"))
    return {"num": enc_int(fr.numerator), "den": enc_int(fr.denominator), "exp": mv(model, v.info["q"])}


def enc_int(n):
    """evidence-safe rendering of a (possibly 6000-digit) integer: small ones as they are, others as the text '<digits>e<zeros>'"""
    if abs(n) < 10 ** 15:
        return n
    s = str(abs(n))
    z = len(s) - len(s.rstrip("0"))
    return "%s%se%d" % ("-" if n < 0 else "", s[:len(s) - z], z)


def dec_int(x):
    if isinstance(x, int):
        return x
    m, z = x.split("e")
    return int(m) * 10 ** int(z)


def frac_of(d):
    from fractions import Fraction
    return Fraction(dec_int(d["num"]), dec_int(d["den"]))


def feel_number_text(d):
    """FEEL expression text for a described finite number (exact for integers and decimal fractions of <= 34 digits)"""
    fr = frac_of(d)
    if fr.denominator == 1:
        n = fr.numerator
        s = str(abs(n))
        if len(s) > 34:   # write as digits * 10 ** e to keep the literal short
            z = len(s) - len(s.rstrip("0"))
            body = "(%s*10**%d)" % (s[:len(s) - z], z) if z else s
        else:
            body = s
        return body if n >= 0 else "(-%s)" % body
    return "(%d/%d)" % (fr.numerator, fr.denominator) if fr >= 0 else "(-%d/%d)" % (-fr.numerator, fr.denominator)
