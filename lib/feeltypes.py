"""Symbolic FeelType trees of bounded depth for engine M (C16) and their textual codes for the native replay."""
import z3

import rsenum
from mir.parser import MirUnsupported
from mir.sym import Adt, En, Opaque, Ref, Sc, VecV
from feelvals import MapV

SIMPLE = ["Any", "Boolean", "Date", "DateTime", "DaysAndTimeDuration", "Null", "Number", "String", "Time", "YearsAndMonthsDuration"]
CODE = {"Any": "A", "Boolean": "B", "Date": "D", "DateTime": "T", "DaysAndTimeDuration": "Y", "Null": "U", "Number": "N", "String": "S",
        "Time": "M", "YearsAndMonthsDuration": "Z"}
KEY_NAMES = ["a", "b", "c", "d"]


class TypeUniverse:
    def __init__(self, mirror):
        src = mirror.read("feel/src/types.rs")
        self.variants = rsenum.enums_of(src)["FeelType"]
        missing = [v for v in SIMPLE + ["Context", "Function", "List", "Range"] if v not in self.variants]
        extra = [v for v in self.variants if v not in SIMPLE + ["Context", "Function", "List", "Range"]]
        if missing or extra:
            raise MirUnsupported("FeelType constructors changed: missing %s, new %s" % (missing, extra))

    def idx(self, v):
        return self.variants[v]

    def simple(self, name):
        return En("FeelType", z3.IntVal(self.idx(name)), {name: ()})

    def fresh(self, ex, st, depth, hint, nparams=2, nentries=2, kinds=None):
        """symbolic type: any simple type; for depth > 0 also list / range / context (0..nentries entries over the fixed key
        names a < b < ..) / function (0..nparams parameters) with children one level shallower"""
        if kinds is None:
            kinds = list(SIMPLE) + (["Context", "Function", "List", "Range"] if depth > 0 else [])
        disc = ex.fresh_int(st, "isize", hint + "_ctor", constrain=False)
        ex.assume(st, z3.Or([disc.e == self.idx(k) for k in kinds]))
        alts = {}
        for k in kinds:
            if k in SIMPLE:
                alts[k] = ()
            elif k in ("List", "Range"):
                child = self.fresh(ex, st, depth - 1, hint + "_" + k[0].lower(), nparams, nentries)
                alts[k] = (Ref(ex.new_cell(st, child, "box")),)
            elif k == "Function":
                n = ex.fresh_int(st, "usize", hint + "_arity", constrain=False)
                ex.assume(st, z3.And(n.e >= 0, n.e <= nparams))
                ps = [self.fresh(ex, st, depth - 1, "%s_p%d" % (hint, i), nparams, nentries) for i in range(nparams)]
                res = self.fresh(ex, st, depth - 1, hint + "_res", nparams, nentries)
                alts[k] = (VecV(n.e, ps, "FeelType"), Ref(ex.new_cell(st, res, "box")))
            elif k == "Context":
                # entries: a subset of the fixed key names, kept sorted; presence flags choose the subset
                n = ex.fresh_int(st, "usize", hint + "_nent", constrain=False)
                ex.assume(st, z3.And(n.e >= 0, n.e <= nentries))
                ents, prev = [], None
                for i in range(nentries):
                    key = z3.Int(ex.fresh_name("%s_key%d" % (hint, i)))
                    ex.assume(st, z3.And(key >= 0, key < len(KEY_NAMES)))
                    if prev is not None:
                        ex.assume(st, prev < key)
                    prev = key
                    ents.append(Adt("tuple", None, (Opaque("Name", key), self.fresh(ex, st, depth - 1, "%s_e%d" % (hint, i), nparams, nentries))))
                alts[k] = (MapV(n.e, ents, "(Name, FeelType)"),)
        return En("FeelType", disc.e, alts)

    def describe(self, ex, st, model, t, mv):
        d = mv(model, t.disc)
        name = [k for k in t.alts if self.idx(k) == d][0]
        if name in SIMPLE:
            return CODE[name]
        p = t.alts[name]
        if name in ("List", "Range"):
            return "%s(%s)" % (name[0], self.describe(ex, st, model, ex.read(st, p[0].cell, p[0].projs), mv))
        if name == "Function":
            n = mv(model, p[0].len)
            return "F(%s;%s)" % (",".join(self.describe(ex, st, model, x, mv) for x in p[0].items[:n]),
                                 self.describe(ex, st, model, ex.read(st, p[1].cell, p[1].projs), mv))
        if name == "Context":
            n = mv(model, p[0].len)
            return "C(%s)" % ",".join("%s:%s" % (KEY_NAMES[mv(model, e.fields[0].e)], self.describe(ex, st, model, e.fields[1], mv)) for e in p[0].items[:n])
        return "?"
