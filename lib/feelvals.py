"""Symbolic FEEL `Value`s for engine M and the models of the containers / payload relations they need.

A symbolic Value is an `En` whose discriminant ranges over a chosen subset of the 38 variants of
dmntk_feel::values::Value; payloads:
  Boolean            Sc bool
  Number             Opaque('FeelNumber', rank Int)   -- contract: FeelNumber's ==/partial_cmp is a total order on finite numbers
  String             StrV(id = rank Int)              -- contract: String ==/cmp is a total order
  Date               FeelDate struct (year, month, day), calendar-valid
  Time / DateTime    Opaque('FeelTime'/'FeelDateTime', (rank Int, comparable Bool))  -- contract of equal/before/.. (decided in C15)
  durations          Opaque(.., rank Int)             -- derived PartialEq/PartialOrd on the wrapped integer
  Null               Option<String>::None
  List               Values(Vec model of bounded length, children one level shallower)
  Context            FeelContext(BTreeMap model: entries sorted by key rank, bounded length)
Everything else is carried as an opaque payload the executor refuses to look into.
"""
import re

import z3

import rsenum
from mir.parser import MirUnsupported
from mir.sym import Adt, En, Opaque, Outcome, Ref, Sc, StrV, VecV, UNIT, mk_bool, mk_int, none, some, ordering
from mir.models import deref, R


class MapV(VecV):
    """BTreeMap<K, V> model: `items` are (key, value) tuples in ascending key order, `len` of them are present"""
    __slots__ = ()


SCALAR_KINDS = ["Boolean", "Number", "String", "Date", "Time", "DateTime", "DaysAndTimeDuration", "YearsAndMonthsDuration", "Null"]
ORDERED_RANK = {"Number": "FeelNumber", "DaysAndTimeDuration": "FeelDaysAndTimeDuration", "YearsAndMonthsDuration": "FeelYearsAndMonthsDuration"}


class Universe:
    def __init__(self, mirror):
        src = mirror.read("feel/src/values.rs")
        self.variants = rsenum.enums_of(src)["Value"]
        self.payload = rsenum.enum_payload_arity(src)["Value"]
        self.names = sorted(self.variants, key=lambda v: self.variants[v])

    def idx(self, name):
        return self.variants[name]

    def cal_valid(self, y, m, d):
        leap = z3.Or(z3.And(y % 4 == 0, y % 100 != 0), y % 400 == 0)
        last = z3.If(z3.Or(m == 4, m == 6, m == 9, m == 11), 30, z3.If(m == 2, z3.If(leap, 29, 28), 31))
        return z3.And(y >= -999999999, y <= 999999999, m >= 1, m <= 12, d >= 1, d <= last)

    def fresh_name(self, ex, st, hint):
        r = z3.Int(ex.fresh_name(hint + "_key"))
        return Opaque("Name", r)

    def payload_value(self, ex, st, variant, depth, hint, list_len, ctx_len):
        if variant == "Boolean":
            return (ex.fresh_bool(hint + "_b"),)
        if variant == "Number":
            return (Opaque("FeelNumber", z3.Int(ex.fresh_name(hint + "_num"))),)
        if variant == "String":
            return (StrV(None, id=z3.Int(ex.fresh_name(hint + "_str"))),)
        if variant == "Date":
            y = ex.fresh_int(st, "i32", hint + "_y")
            m = ex.fresh_int(st, "u8", hint + "_m")
            d = ex.fresh_int(st, "u8", hint + "_d")
            ex.assume(st, self.cal_valid(y.e, m.e, d.e))
            return (Adt("struct", "FeelDate", (y, m, d)),)
        if variant in ("Time", "DateTime"):
            return (Opaque("Feel" + variant, (z3.Int(ex.fresh_name(hint + "_t")), z3.Bool(ex.fresh_name(hint + "_tcmp")))),)
        if variant in ("DaysAndTimeDuration", "YearsAndMonthsDuration"):
            return (Opaque("Feel" + variant, z3.Int(ex.fresh_name(hint + "_dur"))),)
        if variant == "Null":
            return (none(),)
        if variant == "List" and depth > 0:
            n = ex.fresh_int(st, "usize", hint + "_len", constrain=False)
            ex.assume(st, z3.And(n.e >= 0, n.e <= list_len))
            items = [self.fresh(ex, st, depth - 1, "%s_i%d" % (hint, k), list_len=list_len, ctx_len=ctx_len) for k in range(list_len)]
            return (Adt("struct", "Values", (VecV(n.e, items, "Value"),)),)
        if variant == "Context" and depth > 0:
            n = ex.fresh_int(st, "usize", hint + "_n", constrain=False)
            ex.assume(st, z3.And(n.e >= 0, n.e <= ctx_len))
            ents = []
            prev = None
            for k in range(ctx_len):
                key = self.fresh_name(ex, st, "%s_k%d" % (hint, k))
                if prev is not None:
                    ex.assume(st, prev.e < key.e)
                prev = key
                ents.append(Adt("tuple", None, (key, self.fresh(ex, st, depth - 1, "%s_v%d" % (hint, k), list_len=list_len, ctx_len=ctx_len))))
            return (Adt("struct", "FeelContext", (MapV(n.e, ents, "(Name, Value)"),)),)
        return tuple(Opaque("unmodelled:" + t) for t in self.payload[variant])

    def fresh(self, ex, st, depth, hint, kinds=None, list_len=2, ctx_len=2, others=True):
        """symbolic Value: variant among `kinds` (default: scalar kinds, + List/Context when depth > 0, + one representative
        'other' variant standing for everything the operators treat as not comparable)"""
        if kinds is None:
            kinds = list(SCALAR_KINDS) + (["List", "Context"] if depth > 0 else [])
            if others:
                kinds.append("Irrelevant")
        disc = ex.fresh_int(st, "isize", hint + "_kind", constrain=False)
        ex.assume(st, z3.Or([disc.e == self.idx(k) for k in kinds]))
        alts = {k: self.payload_value(ex, st, k, depth, hint, list_len, ctx_len) for k in kinds}
        return En("Value", disc.e, alts)

    def replayable_pref(self, v):
        """z3 constraint preferring a witness that FEEL literals can express (small ranks, comparable temporal values)"""
        c = []
        for name, p in v.alts.items():
            if name in ("Number", "DaysAndTimeDuration", "YearsAndMonthsDuration"):
                c.append(z3.And(p[0].e >= -100, p[0].e <= 100))
            elif name == "String":
                c.append(z3.And(p[0].attrs["id"] >= 0, p[0].attrs["id"] <= 20))
            elif name in ("Time", "DateTime"):
                c.append(z3.And(p[0].e[1], p[0].e[0] >= 0, p[0].e[0] < 86400))
            elif name == "Date":
                c.append(z3.And(p[0].fields[0].e >= 1000, p[0].fields[0].e <= 9999))
            elif name == "List":
                c += [self.replayable_pref(x) for x in p[0].fields[0].items]
            elif name == "Context":
                for e in p[0].fields[0].items:
                    c.append(z3.And(e.fields[0].e >= 0, e.fields[0].e <= 50))
                    c.append(self.replayable_pref(e.fields[1]))
        return z3.And(c) if c else z3.BoolVal(True)

    def describe(self, model, v, mv):
        """python rendering of a symbolic value under a z3 model (for counterexample reports / replay)"""
        d = mv(model, v.disc)
        name = [k for k in v.alts if self.idx(k) == d]
        if not name:
            return {"kind": "?%s" % d}
        name = name[0]
        p = v.alts[name]
        out = {"kind": name}
        if name == "Boolean":
            out["v"] = mv(model, p[0].e)
        elif name in ("Number", "DaysAndTimeDuration", "YearsAndMonthsDuration"):
            out["rank"] = mv(model, p[0].e)
        elif name == "String":
            out["rank"] = mv(model, p[0].attrs["id"])
        elif name == "Date":
            out["ymd"] = [mv(model, f.e) for f in p[0].fields]
        elif name in ("Time", "DateTime"):
            out["rank"], out["comparable"] = mv(model, p[0].e[0]), mv(model, p[0].e[1])
        elif name == "List":
            vec = p[0].fields[0]
            n = mv(model, vec.len)
            out["items"] = [self.describe(model, it, mv) for it in vec.items[:n]]
        elif name == "Context":
            mp = p[0].fields[0]
            n = mv(model, mp.len)
            out["entries"] = [[mv(model, e.fields[0].e), self.describe(model, e.fields[1], mv)] for e in mp.items[:n]]
        return out


# ----------------------------------------------------------------------------- FEEL text of a described value (native replay)


def feel_text(d, names="abcdefgh"):
    """FEEL expression text denoting a described value; ranks become small distinct literals preserving order"""
    k = d["kind"]
    if k == "Boolean":
        return "true" if d["v"] else "false"
    if k == "Null":
        return "null"
    if k == "Number":
        return str(d["rank"]) if d["rank"] >= 0 else "(%d)" % d["rank"]
    if k == "String":
        # order-preserving text for small integer ranks
        r = d["rank"]
        return '"%s"' % ("m" + ("z" * r if r >= 0 else "") if r >= 0 else "a" * (-r) if r > -20 else "a")
    if k == "Date":
        y, m, dd = d["ymd"]
        return "date(%d,%d,%d)" % (y, m, dd)
    if k == "DaysAndTimeDuration":
        r = d["rank"]
        return 'duration("%sPT%dS")' % ("-" if r < 0 else "", abs(r))
    if k == "YearsAndMonthsDuration":
        r = d["rank"]
        return 'duration("%sP%dM")' % ("-" if r < 0 else "", abs(r))
    if k == "Time":
        r = d["rank"] % 86400
        return 'time("%02d:%02d:%02dZ")' % (r // 3600, r % 3600 // 60, r % 60)
    if k == "DateTime":
        r = d["rank"] % 86400
        return 'date and time("2020-01-01T%02d:%02d:%02dZ")' % (r // 3600, r % 3600 // 60, r % 60)
    if k == "List":
        return "[" + ",".join(feel_text(x) for x in d["items"]) + "]"
    if k == "Context":
        return "{" + ",".join("%s:%s" % (key_name(kr), feel_text(x)) for kr, x in d["entries"]) + "}"
    if k == "Irrelevant":
        return "[1..2]"  # a range: comparable with nothing
    return "null"


def key_name(rank):
    return "k%s" % (str(rank) if rank >= 0 else "m%d" % -rank)


def replayable(d):
    """can feel_text express the described value faithfully (ranks small enough, comparable temporal values)?"""
    k = d["kind"]
    if k in ("Number", "DaysAndTimeDuration", "YearsAndMonthsDuration"):
        return abs(d["rank"]) < 10 ** 9
    if k == "String":
        return -20 < d["rank"] < 40
    if k in ("Time", "DateTime"):
        return d["comparable"] and 0 <= d["rank"] < 86400
    if k == "List":
        return all(replayable(x) for x in d["items"])
    if k == "Context":
        return all(replayable(x) for _, x in d["entries"])
    return True


# ----------------------------------------------------------------------------- models


def _rank(v):
    if isinstance(v, Opaque):
        return v.e if not isinstance(v.e, tuple) else v.e[0]
    if isinstance(v, StrV) and "id" in v.attrs:
        return v.attrs["id"]
    raise MirUnsupported("no order rank for %r" % (v,))


def m_rank_eq(ex, st, callee, args, dest_ty):
    a, b = deref(ex, st, args[0]), deref(ex, st, args[1])
    r = _rank(a) == _rank(b)
    yield st, mk_bool(z3.simplify(z3.Not(r) if callee.endswith("::ne") else r))


def m_rank_ord(ex, st, callee, args, dest_ty):
    a, b = _rank(deref(ex, st, args[0])), _rank(deref(ex, st, args[1]))
    op = callee.rsplit("::", 1)[1]
    if op == "partial_cmp":
        yield st, some(ordering(z3.If(a < b, z3.IntVal(-1), z3.If(a == b, z3.IntVal(0), z3.IntVal(1)))))
    elif op == "cmp":
        yield st, ordering(z3.If(a < b, z3.IntVal(-1), z3.If(a == b, z3.IntVal(0), z3.IntVal(1))))
    else:
        yield st, mk_bool(z3.simplify({"lt": a < b, "le": a <= b, "gt": a > b, "ge": a >= b}[op]))


def m_partial_ord_via_cmp(ex, st, callee, args, dest_ty):
    """provided methods lt/le/gt/ge of PartialOrd for crate types: defined by the type's own partial_cmp (executed from MIR)"""
    m = re.match(r"^<&?(.*) as PartialOrd>::(lt|le|gt|ge)$", callee)
    ty, op = m.group(1), m.group(2)
    tgt = "<%s as PartialOrd>::partial_cmp" % ty
    if ex.resolve(tgt) is None:
        return NotImplemented

    def g():
        a, b = args
        # `<&T as PartialOrd>` receives &&T
        if callee.startswith("<&"):
            a, b = ex.read(st, a.cell, a.projs), ex.read(st, b.cell, b.projs)
        for o in ex.call(st, tgt, [a, b], None):
            if o.kind != "return":
                yield o
                continue
            r = o.value
            is_some = r.disc == 1
            od = r.alts["Some"][0].disc if "Some" in r.alts else z3.IntVal(0)
            res = {"lt": od == -1, "le": od <= 0, "gt": od == 1, "ge": od >= 0}[op]
            yield o.st, mk_bool(z3.simplify(z3.And(is_some, res)))
    return g()


def m_temporal_rel(ex, st, callee, args, dest_ty):
    """FeelTime / FeelDateTime ::equal/before/after/..: Option<bool>, None unless both are comparable (contract, see C15)"""
    a, b = deref(ex, st, args[0]), deref(ex, st, args[1])
    op = callee.rsplit("::", 1)[1]
    (ra, oka), (rb, okb) = a.e, b.e
    rel = {"equal": ra == rb, "before": ra < rb, "after": ra > rb, "before_or_equal": ra <= rb, "after_or_equal": ra >= rb}[op]
    yield st, En("Option", z3.If(z3.And(oka, okb), z3.IntVal(1), z3.IntVal(0)), {"None": (), "Some": (mk_bool(rel),)})


def m_temporal_between(ex, st, callee, args, dest_ty):
    v, l, r, lc, rc = [deref(ex, st, a) for a in args]
    (rv, okv), (rl, okl), (rr, okr) = v.e, l.e, r.e
    left = z3.If(lc.e, rv >= rl, rv > rl)
    right = z3.If(rc.e, rv <= rr, rv < rr)
    yield st, En("Option", z3.If(z3.And(okv, okl, okr), z3.IntVal(1), z3.IntVal(0)), {"None": (), "Some": (mk_bool(z3.And(left, right)),)})


def m_date_time_offset_utc(ex, st, callee, args, dest_ty):
    """chrono contract restricted to what date comparison needs: FixedOffset::east(0) at midnight -> Single(instant) iff calendar date
    within chrono's year range; the instant is represented by an order-isomorphic integer of (y, m, d)."""
    d, t, off = args
    y, mo, dd = [f.e for f in d.fields]
    h, mi, sec, n = [f.e for f in t.fields]
    if not all(ex.concrete(x) == 0 for x in (h, mi, sec, n, off.e)):
        raise MirUnsupported("date_time_offset model is for UTC midnights only")
    u = Universe.cal_valid(None, y, mo, dd)
    okc = z3.And(u, y >= -262143, y <= 262142)
    inst = (y * 12 + (mo - 1)) * 31 + (dd - 1)
    yield st, En("Option", z3.If(okc, z3.IntVal(1), z3.IntVal(0)), {"None": (), "Some": (Opaque("DateTime", inst),)})


def m_datetime_cmp(ex, st, callee, args, dest_ty):
    a, b = deref(ex, st, args[0]).e, deref(ex, st, args[1]).e
    yield st, ordering(z3.If(a < b, z3.IntVal(-1), z3.If(a == b, z3.IntVal(0), z3.IntVal(1))))


# --- slices / Vec<Value> iteration ------------------------------------------------------------


def m_slice_iter(ex, st, callee, args, dest_ty):
    r = args[0]
    v = deref(ex, st, r)
    if not isinstance(v, VecV) or not isinstance(r, Ref):
        raise MirUnsupported("iter over %r" % (v,))
    base = r
    while isinstance(ex.read(st, base.cell, base.projs), Ref):
        base = ex.read(st, base.cell, base.projs)
    yield st, Opaque("SliceIter", info=(base, 0))


def iter_next(ex, st, it):
    """generator of (state, new iterator, Option item) for the modelled iterator kinds"""
    if it.sort == "SliceIter":
        base, pos = it.info
        vec = ex.read(st, base.cell, base.projs)
        if pos < len(vec.items):
            for st2 in ex.branch(st, vec.len > pos):
                item = Ref(base.cell, base.projs + (("index", pos),))
                if it.e == "owned":  # Vec<T>::into_iter yields the elements themselves
                    item = vec.items[pos]
                if it.e == "values":  # BTreeMap::values yields &V
                    item = Ref(base.cell, base.projs + (("index", pos), ("field", 1, None)))
                if it.e == "pairs":  # BTreeMap iteration yields (&K, &V)
                    item = Adt("tuple", None, (Ref(base.cell, base.projs + (("index", pos), ("field", 0, None))),
                                               Ref(base.cell, base.projs + (("index", pos), ("field", 1, None)))))
                yield st2, Opaque("SliceIter", it.e, (base, pos + 1)), some(item)
            for st2 in ex.branch(st, vec.len <= pos):
                yield st2, it, none()
        else:
            for st2 in ex.branch(st, vec.len <= pos):
                yield st2, it, none()
            for st2 in ex.branch(st, vec.len > pos):
                raise MirUnsupported("collection model shorter than its feasible length")
        return
    if it.sort == "Keys":
        base = it.info if not isinstance(it.info, tuple) else it.info[0]
        pos = 0 if not isinstance(it.info, tuple) else it.info[1]
        mp = ex.read(st, base.cell, base.projs)
        if pos < len(mp.items):
            for st2 in ex.branch(st, mp.len > pos):
                yield st2, Opaque("Keys", info=(base, pos + 1)), some(Ref(base.cell, base.projs + (("index", pos), ("field", 0, None))))
        for st2 in ex.branch(st, mp.len <= pos):
            yield st2, it, none()
        return
    if it.sort == "Zip":
        a, b = it.info
        for st2, a2, ra in iter_next(ex, st, a):
            if ex.concrete(ra.disc) == 0:
                yield st2, Opaque("Zip", info=(a2, b)), none()
                continue
            for st3, b2, rb in iter_next(ex, st2, b):
                if ex.concrete(rb.disc) == 0:
                    yield st3, Opaque("Zip", info=(a2, b2)), none()
                else:
                    yield st3, Opaque("Zip", info=(a2, b2)), some(Adt("tuple", None, (ra.alts["Some"][0], rb.alts["Some"][0])))
        return
    if it.sort == "Enumerate":
        inner, n = it.info
        for st2, i2, r in iter_next(ex, st, inner):
            if ex.concrete(r.disc) == 0:
                yield st2, Opaque("Enumerate", info=(i2, n)), none()
            else:
                yield st2, Opaque("Enumerate", info=(i2, n + 1)), some(Adt("tuple", None, (mk_int(n, "usize"), r.alts["Some"][0])))
        return
    raise MirUnsupported("next() on %r" % (it,))


def m_iter_next(ex, st, callee, args, dest_ty):
    r = args[0]
    it = ex.read(st, r.cell, r.projs)
    for st2, it2, item in iter_next(ex, st, it):
        ex.write(st2, r.cell, r.projs, it2)
        yield st2, item


def m_iter_zip(ex, st, callee, args, dest_ty):
    other = args[1]
    if isinstance(other, Ref):   # zip(&vec): IntoIterator for a reference to a vector / slice
        v = deref(ex, st, other)
        if not isinstance(v, VecV):
            raise MirUnsupported("zip with %r" % (v,))
        base = other
        while isinstance(ex.read(st, base.cell, base.projs), Ref):
            base = ex.read(st, base.cell, base.projs)
        other = Opaque("SliceIter", info=(base, 0))
    yield st, Opaque("Zip", info=(args[0], other))


def m_iter_all_any(ex, st, callee, args, dest_ty):
    """Iterator::all / any(closure) over the modelled iterators: short-circuit evaluation, the closure is the real code"""
    from mir.models import call_fn_value
    want_all = "::all::<" in callee
    r = args[0]
    it = ex.read(st, r.cell, r.projs) if isinstance(r, Ref) else r
    f = args[1]

    def rec(st, cur):
        for st2, it2, item in iter_next(ex, st, cur):
            if ex.concrete(item.disc) == 0:
                if isinstance(r, Ref):
                    ex.write(st2, r.cell, r.projs, it2)
                yield st2, mk_bool(want_all)
                continue
            for o in call_fn_value(ex, st2, f, [item.alts["Some"][0]]):
                if o.kind != "return":
                    yield o
                    continue
                b = o.value
                stop = z3.Not(b.e) if want_all else b.e
                for st3 in ex.branch(o.st, stop):
                    if isinstance(r, Ref):
                        ex.write(st3, r.cell, r.projs, it2)
                    yield st3, mk_bool(not want_all)
                for st3 in ex.branch(o.st, z3.Not(stop)):
                    yield from rec(st3, it2)
    yield from rec(st, it)


def m_iter_skip(ex, st, callee, args, dest_ty):
    """slice::Iter::skip(n) for a concrete n: the same iterator n positions further (next() past the end yields None either way)"""
    it, n = args[0], ex.concrete(args[1].e)
    if n is None or it.sort != "SliceIter":
        raise MirUnsupported("skip(%r) on %r" % (args[1], it))
    base, pos = it.info
    yield st, Opaque("SliceIter", it.e, (base, pos + n))


def m_array_into_iter(ex, st, callee, args, dest_ty):
    """<[T; N] as IntoIterator>::into_iter: an owning iterator over the array's elements"""
    a = args[0]
    items = tuple(a.fields) if isinstance(a, Adt) else tuple(a.items)
    cell = ex.new_cell(st, VecV(z3.IntVal(len(items)), items, "array"), "array")
    yield st, Opaque("SliceIter", "owned", (Ref(cell), 0))


def m_iter_enumerate(ex, st, callee, args, dest_ty):
    yield st, Opaque("Enumerate", info=(args[0], 0))


def m_into_iter_id(ex, st, callee, args, dest_ty):
    yield st, args[0]


# --- BTreeMap<Name, Value> -----------------------------------------------------------------------


def _map_ref(ex, st, r):
    base = r
    while isinstance(ex.read(st, base.cell, base.projs), Ref):
        base = ex.read(st, base.cell, base.projs)
    m = ex.read(st, base.cell, base.projs)
    if not isinstance(m, MapV):
        raise MirUnsupported("BTreeMap operation on %r" % (m,))
    return base, m


def m_btree_into_iter(ex, st, callee, args, dest_ty):
    base, m = _map_ref(ex, st, args[0])
    yield st, Opaque("SliceIter", "pairs", (base, 0))


def m_btree_keys(ex, st, callee, args, dest_ty):
    base, m = _map_ref(ex, st, args[0])
    yield st, Opaque("Keys", info=base)


def m_keys_next(ex, st, callee, args, dest_ty):
    r = args[0]
    it = ex.read(st, r.cell, r.projs)
    base = it.info if not isinstance(it.info, tuple) else it.info[0]
    pos = 0 if not isinstance(it.info, tuple) else it.info[1]
    mp = ex.read(st, base.cell, base.projs)
    if pos < len(mp.items):
        for st2 in ex.branch(st, mp.len > pos):
            ex.write(st2, r.cell, r.projs, Opaque("Keys", info=(base, pos + 1)))
            yield st2, some(Ref(base.cell, base.projs + (("index", pos), ("field", 0, None))))
    for st2 in ex.branch(st, mp.len <= pos):
        yield st2, none()


def m_btree_len(ex, st, callee, args, dest_ty):
    v = args[0]
    dv = deref(ex, st, v)
    if isinstance(dv, Opaque) and dv.sort == "Keys":
        base = dv.info if not isinstance(dv.info, tuple) else dv.info[0]
    else:
        base, _ = _map_ref(ex, st, v)
    yield st, Sc(ex.read(st, base.cell, base.projs).len, "usize")


def m_btree_get(ex, st, callee, args, dest_ty):
    base, m = _map_ref(ex, st, args[0])
    key = deref(ex, st, args[1])
    kr = _rank(key)
    found = []
    for i, ent in enumerate(m.items):
        c = z3.And(m.len > i, _rank(ent.fields[0]) == kr)
        found.append(c)
        for st2 in ex.branch(st, c):
            yield st2, some(Ref(base.cell, base.projs + (("index", i), ("field", 1, None))))
    for st2 in ex.branch(st, z3.Not(z3.Or(found)) if found else z3.BoolVal(True)):
        yield st2, none()


def m_btree_contains(ex, st, callee, args, dest_ty):
    base, m = _map_ref(ex, st, args[0])
    kr = _rank(deref(ex, st, args[1]))
    yield st, mk_bool(z3.simplify(z3.Or([z3.And(m.len > i, _rank(ent.fields[0]) == kr) for i, ent in enumerate(m.items)] + [z3.BoolVal(False)])))


def m_btree_new(ex, st, callee, args, dest_ty):
    yield st, MapV(z3.IntVal(0), (), "kv")


def m_btree_insert(ex, st, callee, args, dest_ty):
    """BTreeMap::insert(&mut m, k, v): replaces the value of an equal key, else inserts keeping the key order"""
    base, m = _map_ref(ex, st, args[0])
    key, val = args[1], args[2]
    kr = _rank(key)
    for st2, n in ex.enum_values(st, m.len, limit=len(m.items) + 2):
        items = list(_map_ref(ex, st2, args[0])[1].items[:n])
        conds = []
        for i, ent in enumerate(items):
            c = _rank(ent.fields[0]) == kr
            conds.append(c)
            for st3 in ex.branch(st2, c):
                it2 = list(items)
                it2[i] = Adt("tuple", None, (ent.fields[0], val))
                ex.write(st3, base.cell, base.projs, MapV(z3.IntVal(n), it2, m.elem_ty))
                yield st3, some(ent.fields[1])
        for pos in range(n + 1):
            c = [z3.Not(x) for x in conds]
            if pos > 0:
                c.append(_rank(items[pos - 1].fields[0]) < kr)
            if pos < n:
                c.append(kr < _rank(items[pos].fields[0]))
            for st3 in ex.branch(st2, z3.And(c) if c else z3.BoolVal(True)):
                it2 = items[:pos] + [Adt("tuple", None, (key, val))] + items[pos:]
                ex.write(st3, base.cell, base.projs, MapV(z3.IntVal(n + 1), it2, m.elem_ty))
                yield st3, none()


def m_slice_reverse(ex, st, callee, args, dest_ty):
    r = args[0]
    base = r
    while isinstance(ex.read(st, base.cell, base.projs), Ref):
        base = ex.read(st, base.cell, base.projs)
    v = ex.read(st, base.cell, base.projs)
    for st2, n in ex.enum_values(st, v.len, limit=len(v.items) + 2):
        v2 = ex.read(st2, base.cell, base.projs)
        ex.write(st2, base.cell, base.projs, VecV(z3.IntVal(n), tuple(reversed(v2.items[:n])), v2.elem_ty))
        yield st2, UNIT


def m_slice_get(ex, st, callee, args, dest_ty):
    r = args[0]
    base = r
    while isinstance(ex.read(st, base.cell, base.projs), Ref):
        base = ex.read(st, base.cell, base.projs)
    v = ex.read(st, base.cell, base.projs)
    i = args[1]
    for st2 in ex.branch(st, i.e >= v.len):
        yield st2, none()
    for st2 in ex.branch(st, i.e < v.len):
        for st3, k in ex.enum_values(st2, i.e, limit=len(v.items) + 2):
            yield st3, some(Ref(base.cell, base.projs + (("index", k),)))


def m_slice_first(ex, st, callee, args, dest_ty):
    r = args[0]
    base = r
    while isinstance(ex.read(st, base.cell, base.projs), Ref):
        base = ex.read(st, base.cell, base.projs)
    v = ex.read(st, base.cell, base.projs)
    for st2 in ex.branch(st, v.len == 0):
        yield st2, none()
    if len(v.items) > 0:
        for st2 in ex.branch(st, v.len > 0):
            yield st2, some(Ref(base.cell, base.projs + (("index", 0),)))
    else:
        for st2 in ex.branch(st, v.len > 0):
            yield st2, some(Ref(ex.new_cell(st2, Opaque("Value"), "elem")))


def m_opt_cloned(ex, st, callee, args, dest_ty):
    v = args[0]
    alts = {"None": ()}
    if "Some" in v.alts:
        alts["Some"] = (deref(ex, st, v.alts["Some"][0]),)
    yield st, En("Option", v.disc, alts)


def m_vec_into_iter_owned(ex, st, callee, args, dest_ty):
    v = args[0]
    if not isinstance(v, VecV):
        raise MirUnsupported("into_iter of %r" % (v,))
    base = Ref(ex.new_cell(st, v, "into_iter"))
    yield st, Opaque("SliceIter", "owned", (base, 0))


def m_vec_into_iter_ref(ex, st, callee, args, dest_ty):
    r = args[0]
    base = r
    while isinstance(ex.read(st, base.cell, base.projs), Ref):
        base = ex.read(st, base.cell, base.projs)
    yield st, Opaque("SliceIter", info=(base, 0))


def m_int_into_number(ex, st, callee, args, dest_ty):
    """FeelNumber::from(integer): the number's order rank is the integer itself"""
    yield st, Opaque("FeelNumber", args[0].e)


def m_btree_eq(ex, st, callee, args, dest_ty):
    """<BTreeMap<Name, V> as PartialEq>::eq for maps of concrete size: same size, same keys, equal values (V's own eq, merged)"""
    (_, a), (_, b) = _map_ref(ex, st, args[0]), _map_ref(ex, st, args[1])
    na, nb = ex.concrete(a.len), ex.concrete(b.len)
    if na is None or nb is None:
        raise MirUnsupported("equality of maps of symbolic size")
    if na != nb:
        yield st, mk_bool(False)
        return
    m = re.match(r"^<BTreeMap<(.*), (.*)> as PartialEq>::eq$", callee)
    vty = m.group(2) if m else "Value"
    body = ex.resolve("<%s as PartialEq>::eq" % vty)
    conj = []
    for x, y in zip(a.items[:na], b.items[:nb]):
        conj.append(_rank(x.fields[0]) == _rank(y.fields[0]))
        ra, rb = Ref(ex.new_cell(st, x.fields[1], "eq")), Ref(ex.new_cell(st, y.fields[1], "eq"))
        o = ex._merged_call(st, body, [ra, rb]) if body is not None else None
        if o is None:
            raise MirUnsupported("value equality inside a map could not be summarised")
        conj.append(o.value.e)
    yield st, mk_bool(z3.simplify(z3.And(conj)) if conj else True)


def m_box_borrow(ex, st, callee, args, dest_ty):
    v = deref(ex, st, args[0]) if False else args[0]
    # &Box<T> -> &T : a Box is modelled as a Ref to its heap cell
    b = ex.read(st, v.cell, v.projs) if isinstance(v, Ref) else v
    yield st, b if isinstance(b, Ref) else v


def m_name_eq(ex, st, callee, args, dest_ty):
    a, b = deref(ex, st, args[0]), deref(ex, st, args[1])
    yield st, mk_bool(z3.simplify(a.e == b.e))


VALUE_MODELS = [
    (R(r"^<&?(FeelNumber|FeelDaysAndTimeDuration|FeelYearsAndMonthsDuration) as PartialEq>::(eq|ne)$"), m_rank_eq),
    (R(r"^<&?&?(FeelNumber|FeelDaysAndTimeDuration|FeelYearsAndMonthsDuration|std::string::String|String) as (PartialOrd|Ord)>::(lt|le|gt|ge|partial_cmp|cmp)$"), m_rank_ord),
    # a generic helper over `T: PartialOrd` (the MIR is polymorphic): dispatched on the values, which must be of the ranked kinds
    (R(r"^<&?&?T as (PartialOrd|Ord)>::(lt|le|gt|ge|partial_cmp|cmp)$"), m_rank_ord),
    (R(r"^<&?(FeelDate) as PartialOrd>::(lt|le|gt|ge)$"), m_partial_ord_via_cmp),
    (R(r"^Feel(Time|DateTime)::(equal|before|after|before_or_equal|after_or_equal)$"), m_temporal_rel),
    (R(r"^Feel(Time|DateTime)::between$"), m_temporal_between),
    (R(r"^date_time_offset$"), m_date_time_offset_utc),
    (R(r"^<DateTime<FixedOffset> as Ord>::cmp$"), m_datetime_cmp),
    (R(r"^core::slice::<impl \[.*\]>::iter(_mut)?$"), m_slice_iter),
    (R(r"^core::slice::<impl \[.*\]>::reverse$"), m_slice_reverse),
    (R(r"^core::slice::<impl \[.*\]>::first$"), m_slice_first),
    (R(r"^Option::<&.*>::cloned$"), m_opt_cloned),
    (R(r"^core::slice::<impl \[.*\]>::get::<usize>$"), m_slice_get),
    (R(r"^<&(mut )?(Vec<.*>|\[.*\]) as IntoIterator>::into_iter$"), m_vec_into_iter_ref),
    (R(r"^<Vec<.*> as IntoIterator>::into_iter$"), m_vec_into_iter_owned),
    (R(r"^<std::vec::IntoIter<.*> as Iterator>::next$"), m_iter_next),
    (R(r"^<(i|u)(\d+|size) as Into<FeelNumber>>::into$|^<FeelNumber as From<(i|u)(\d+|size)>>::from$"), m_int_into_number),
    (R(r"^BTreeMap::<.*>::new$|^<BTreeMap<.*> as Default>::default$"), m_btree_new),
    (R(r"^BTreeMap::<.*>::insert$"), m_btree_insert),
    (R(r"^<(std::slice::Iter(Mut)?<.*>|Zip<.*>|std::collections::btree_map::Iter<.*>|Enumerate<.*>) as Iterator>::next$"), m_iter_next),
    (R(r"^<std::slice::Iter(Mut)?<.*> as Iterator>::zip::<.*>$"), m_iter_zip),
    (R(r"^<(std::slice::Iter(Mut)?<.*>|Zip<.*>|Enumerate<.*>|std::collections::btree_map::Keys<.*>) as Iterator>::(all|any)::<.*>$"), m_iter_all_any),
    (R(r"^<std::slice::Iter(Mut)?<.*> as Iterator>::enumerate$"), m_iter_enumerate),
    (R(r"^<\[.*; \d+\] as IntoIterator>::into_iter$"), m_array_into_iter),
    (R(r"^<std::array::IntoIter<.*> as Iterator>::next$"), m_iter_next),
    (R(r"^<std::slice::Iter(Mut)?<.*> as Iterator>::skip$"), m_iter_skip),
    (R(r"^<(std::iter::)?Skip<.*> as IntoIterator>::into_iter$"), m_into_iter_id),
    (R(r"^<(std::iter::)?Skip<.*> as Iterator>::next$"), m_iter_next),
    (R(r"^<(Zip<.*>|std::slice::Iter(Mut)?<.*>|Enumerate<.*>) as IntoIterator>::into_iter$"), m_into_iter_id),
    (R(r"^<&BTreeMap<.*> as IntoIterator>::into_iter$|^BTreeMap::<.*>::iter$"), m_btree_into_iter),
    (R(r"^BTreeMap::<.*>::keys$"), m_btree_keys),
    (R(r"^<std::collections::btree_map::Keys<.*> as Iterator>::next$"), m_keys_next),
    (R(r"^<std::collections::btree_map::Keys<.*> as IntoIterator>::into_iter$"), m_into_iter_id),
    (R(r"^<std::collections::btree_map::Keys<.*> as ExactSizeIterator>::len$|^BTreeMap::<.*>::len$"), m_btree_len),
    (R(r"^BTreeMap::<.*>::get::<.*>$"), m_btree_get),
    (R(r"^BTreeMap::<.*>::contains_key::<.*>$"), m_btree_contains),
    (R(r"^<BTreeMap<.*> as PartialEq>::eq$"), m_btree_eq),
    (R(r"^<Box<.*> as Borrow<.*>>::borrow$|^<Box<.*> as Deref>::deref$|^<Box<.*> as AsRef<.*>>::as_ref$"), m_box_borrow),
    (R(r"^<(dmntk_feel::)?Name as PartialEq>::(eq)$"), m_name_eq),
]


# --- iterator adaptors with closures executed from their MIR bodies (hit-policy code) -----------------------------------------


def _call_closure(ex, st, f, argv):
    from mir.models import call_fn_value
    yield from call_fn_value(ex, st, f, argv)


def m_iter_adapt(ex, st, callee, args, dest_ty):
    kind = re.search(r" as Iterator>::(filter|map|filter_map)::<", callee).group(1)
    yield st, Opaque("Adapt", kind, (args[0], args[1]))


def adapt_items(ex, st, it):
    """generator of (state, list of produced items) for SliceIter / adaptor chains (everything from the current position)"""
    if it.sort == "SliceIter":
        def rec(st, cur, acc):
            progressed = False
            for st2, it2, r in iter_next(ex, st, cur):
                if ex.concrete(r.disc) == 0:
                    yield st2, acc
                else:
                    yield from rec(st2, it2, acc + [r.alts["Some"][0]])
        yield from rec(st, it, [])
        return
    if it.sort == "Adapt":
        inner, f = it.info
        for st2, items in adapt_items(ex, st, inner):
            def rec2(st, k, acc):
                if k == len(items):
                    yield st, acc
                    return
                x = items[k]
                arg = Ref(ex.new_cell(st, x, "adapt")) if it.e == "filter" else x
                for o in _call_closure(ex, st, f, [arg]):
                    if o.kind != "return":
                        raise MirUnsupported("iterator closure did not return: %r" % (o,))
                    v = o.value
                    if it.e == "filter":
                        for st3 in ex.branch(o.st, v.e):
                            yield from rec2(st3, k + 1, acc + [x])
                        for st3 in ex.branch(o.st, z3.Not(v.e)):
                            yield from rec2(st3, k + 1, acc)
                    elif it.e == "map":
                        yield from rec2(o.st, k + 1, acc + [v])
                    else:  # filter_map
                        for st3 in ex.branch(o.st, v.disc == 1):
                            yield from rec2(st3, k + 1, acc + [v.alts["Some"][0]])
                        for st3 in ex.branch(o.st, v.disc != 1):
                            yield from rec2(st3, k + 1, acc)
            yield from rec2(st2, 0, [])
        return
    for st2, items, fin in _drain(ex, st, it):   # any other modelled iterator: pulled lazily to its end
        yield st2, items


def m_collect_vec(ex, st, callee, args, dest_ty):
    for st2, items in adapt_items(ex, st, args[0]):
        yield st2, VecV(z3.IntVal(len(items)), items, "collected")


def m_iter_position(ex, st, callee, args, dest_ty):
    r, f = args
    it = ex.read(st, r.cell, r.projs)
    for st2, items in adapt_items(ex, st, it):
        def rec(st, k):
            if k == len(items):
                yield st, none()
                return
            for o in _call_closure(ex, st, f, [items[k]]):
                if o.kind != "return":
                    raise MirUnsupported("position closure did not return")
                for st3 in ex.branch(o.st, o.value.e):
                    yield st3, some(mk_int(k, "usize"))
                for st3 in ex.branch(o.st, z3.Not(o.value.e)):
                    yield from rec(st3, k + 1)
        yield from rec(st2, 0)


def m_btree_values(ex, st, callee, args, dest_ty):
    base, m = _map_ref(ex, st, args[0])
    yield st, Opaque("SliceIter", "values", (base, 0))


def m_sort_by_key(ex, st, callee, args, dest_ty):
    """slice::sort_by_key with an integer key: a stable insertion sort; the key closure is the real code, keys are compared in z3"""
    r, f = args
    base = r
    while isinstance(ex.read(st, base.cell, base.projs), Ref):
        base = ex.read(st, base.cell, base.projs)
    v = ex.read(st, base.cell, base.projs)
    n = ex.concrete(v.len)
    if n is None:
        raise MirUnsupported("sort_by_key on a vector of symbolic length")

    def key_of(st, x):
        for o in _call_closure(ex, st, f, [Ref(ex.new_cell(st, x, "key"))]):
            if o.kind != "return" or not isinstance(o.value, Sc):
                raise MirUnsupported("sort key closure did not return an integer")
            yield o.st, o.value.e

    def insert(st, acc, x, kx, pos):
        if pos == 0:
            yield st, [(x, kx)] + acc
            return
        ky = acc[pos - 1][1]
        for st2 in ex.branch(st, ky > kx):
            yield from insert(st2, acc, x, kx, pos - 1)
        for st2 in ex.branch(st, ky <= kx):
            yield st2, acc[:pos] + [(x, kx)] + acc[pos:]

    def rec(st, k, acc):
        if k == n:
            ex.write(st, base.cell, base.projs, VecV(z3.IntVal(n), [a for a, _ in acc], v.elem_ty))
            yield st, UNIT
            return
        for st2, kx in key_of(st, v.items[k]):
            for st3, acc2 in insert(st2, acc, v.items[k], kx, len(acc)):
                yield from rec(st3, k + 1, acc2)
    yield from rec(st, 0, [])


def m_sort_by(ex, st, callee, args, dest_ty):
    """slice::sort_by: a stable sort; modelled as insertion sort calling the comparator closure (the order of comparisons of
    std's merge sort differs, the result of a stable sort with a consistent comparator does not)"""
    r, f = args
    base = r
    while isinstance(ex.read(st, base.cell, base.projs), Ref):
        base = ex.read(st, base.cell, base.projs)
    v = ex.read(st, base.cell, base.projs)
    n = ex.concrete(v.len)
    if n is None:
        raise MirUnsupported("sort_by on a vector of symbolic length")

    def insert(st, sorted_items, x, pos):
        # find the place of x scanning from the right: stop at the first element that is not Greater than x
        if pos == 0:
            yield st, [x] + sorted_items
            return
        y = sorted_items[pos - 1]
        ca, cb = Ref(ex.new_cell(st, y, "cmp")), Ref(ex.new_cell(st, x, "cmp"))
        for o in _call_closure(ex, st, f, [ca, cb]):
            if o.kind != "return":
                raise MirUnsupported("comparator did not return")
            for st2 in ex.branch(o.st, o.value.disc == 1):   # y > x : x goes before y
                yield from insert(st2, sorted_items, x, pos - 1)
            for st2 in ex.branch(o.st, o.value.disc != 1):
                yield st2, sorted_items[:pos] + [x] + sorted_items[pos:]

    def rec(st, k, acc):
        if k == n:
            ex.write(st, base.cell, base.projs, VecV(z3.IntVal(n), acc, v.elem_ty))
            yield st, UNIT
            return
        for st2, acc2 in insert(st, acc, v.items[k], len(acc)):
            yield from rec(st2, k + 1, acc2)
    yield from rec(st, 0, [])


def m_iter_flatten(ex, st, callee, args, dest_ty):
    """slice::Iter<Option<T>>::flatten(): the places of the payloads of the items that are Some, in order"""
    it = args[0]
    if it.sort != "SliceIter" or it.e is not None:
        raise MirUnsupported("flatten over %r" % (it,))
    base, pos0 = it.info
    vec = ex.read(st, base.cell, base.projs)

    def rec(st, pos, acc):
        if pos >= len(vec.items):
            for st2 in ex.branch(st, vec.len <= pos):
                cell = ex.new_cell(st2, VecV(z3.IntVal(len(acc)), tuple(acc), "flattened"), "flattened")
                yield st2, Opaque("SliceIter", "owned", (Ref(cell), 0))
            return
        for st2 in ex.branch(st, vec.len <= pos):
            cell = ex.new_cell(st2, VecV(z3.IntVal(len(acc)), tuple(acc), "flattened"), "flattened")
            yield st2, Opaque("SliceIter", "owned", (Ref(cell), 0))
        for st2 in ex.branch(st, vec.len > pos):
            item = vec.items[pos]
            for st3 in ex.branch(st2, item.disc == 1):
                yield from rec(st3, pos + 1, acc + [Ref(base.cell, base.projs + (("index", pos), ("downcast", "Some"), ("field", 0, None)))])
            for st3 in ex.branch(st2, item.disc != 1):
                yield from rec(st3, pos + 1, acc)
    yield from rec(st, pos0, [])


VALUE_MODELS += [
    (R(r"^<std::slice::Iter<'_, Option<.*>> as Iterator>::flatten$"), m_iter_flatten),
    (R(r"^<(std::iter::)?Flatten<.*> as IntoIterator>::into_iter$"), m_into_iter_id),
    (R(r"^<(std::iter::)?Flatten<.*> as Iterator>::next$"), m_iter_next),
    (R(r"^<std::slice::Iter(Mut)?<.*> as Iterator>::(filter|map|filter_map)::<.*>$"), m_iter_adapt),
    (R(r"^<(std::iter::)?(Filter|Map|FilterMap)<.*> as Iterator>::collect::<Vec<.*>>$"), m_collect_vec),
    (R(r"^<std::slice::Iter<.*> as Iterator>::position::<.*>$"), m_iter_position),
    (R(r"^(core|std)::slice::<impl \[.*\]>::sort_by::<.*>$"), m_sort_by),
    (R(r"^(core|std)::slice::<impl \[.*\]>::sort_by_key::<.*>$"), m_sort_by_key),
    (R(r"^BTreeMap::<.*>::values$"), m_btree_values),
    (R(r"^<std::collections::btree_map::Values<.*> as Iterator>::collect::<Vec<.*>>$"), m_collect_vec),
    (R(r"^<std::vec::IntoIter<.*> as Iterator>::(filter|map|filter_map)::<.*>$"), m_iter_adapt),
]


# ----------------------------------------------------------------------------- generic lazy iterator layer
# Iterator chains are the usual shape of a refactoring ("the loop became .iter().map(..).map_while(..).collect()"); every adaptor
# below is pulled lazily through iter_next, exactly as std does (closures are the real code, called once per pulled item, in
# pull order), and every consumer is a loop over iter_next. These entries come last, so a more specific model above wins.

ITER_T = (r"(?:std::ops::Range(?:Inclusive)?<.*>|std::slice::Iter(?:Mut)?<.*>|std::vec::IntoIter<.*>|std::array::IntoIter<.*>|std::collections::btree_map::(?:Iter|Keys|Values)<.*>|"
          r"(?:std::iter::)?(?:Filter|Map|FilterMap|MapWhile|TakeWhile|SkipWhile|Take|Skip|Chain|Rev|Cloned|Copied|Zip|Enumerate|Flatten|FlatMap|Once|Peekable|Inspect)<.*>)")
_LAZY_KINDS = ("filter", "map", "filter_map", "map_while", "take_while", "skip_while", "inspect", "flat_map")


def _value_of(ex, st, x):
    while isinstance(x, Ref):
        x = ex.read(st, x.cell, x.projs)
    return x


def _sub_iter(ex, st, x):
    """IntoIterator of an item met by flatten / flat_map: Option / Result (0 or 1 item), vector (owned or by reference), iterator"""
    v = x
    if isinstance(v, Ref):
        base = v
        while isinstance(ex.read(st, base.cell, base.projs), Ref):
            base = ex.read(st, base.cell, base.projs)
        t = ex.read(st, base.cell, base.projs)
        if isinstance(t, VecV):
            return Opaque("SliceIter", info=(base, 0))
        v = t
    if isinstance(v, VecV):
        return Opaque("SliceIter", "owned", (Ref(ex.new_cell(st, v, "flat")), 0))
    if isinstance(v, En) and ("Some" in v.alts or "None" in v.alts or "Ok" in v.alts or "Err" in v.alts):
        return Opaque("OptIter", info=(v,))
    if isinstance(v, Opaque) and v.sort in ("SliceIter", "Keys", "Zip", "Enumerate", "Adapt", "Lazy", "OptIter"):
        return v
    raise MirUnsupported("flatten over items like %r" % (v,))


def lazy_next(ex, st, it):
    """(state, iterator afterwards, Option item) for the adaptor kinds iter_next does not know"""
    if it.sort == "OptIter":
        v = it.info[0]
        if v is None:
            yield st, it, none()
            return
        good, gi = ("Some", 1) if ("Some" in v.alts or "None" in v.alts) else ("Ok", 0)
        if good in v.alts:
            for st2 in ex.branch(st, v.disc == gi):
                yield st2, Opaque("OptIter", info=(None,)), some(v.alts[good][0])
        for st2 in ex.branch(st, v.disc != gi):
            yield st2, Opaque("OptIter", info=(None,)), none()
        return
    if it.sort == "Adapt" or (it.sort == "Lazy" and it.e in _LAZY_KINDS):
        kind, inner, f = it.e, it.info[0], it.info[1]
        rest = tuple(it.info[2:])
        mk = lambda inner2, rest2=rest: Opaque(it.sort, kind, (inner2, f) + tuple(rest2))
        if kind == "flat_map" and rest and rest[0] is not None:   # items of the current sub-iterator first
            for st2, sub2, r in iter_next(ex, st, rest[0]):
                if ex.concrete(r.disc) == 0:
                    yield from lazy_next(ex, st2, mk(inner, (None,)))
                else:
                    yield st2, mk(inner, (sub2,)), r
            return

        def pull(st, cur):
            for st2, in2, r in iter_next(ex, st, cur):
                if ex.concrete(r.disc) == 0:
                    yield st2, mk(in2), none()
                    continue
                x = r.alts["Some"][0]
                arg = Ref(ex.new_cell(st2, x, "adapt")) if kind in ("filter", "take_while", "skip_while", "inspect") else x
                if kind == "skip_while" and rest and rest[0]:
                    yield st2, mk(in2), some(x)
                    continue
                for o in _call_closure(ex, st2, f, [arg]):
                    if o.kind != "return":
                        raise MirUnsupported("iterator closure did not return: %r" % (o,))
                    v = o.value
                    if kind == "filter":
                        for st3 in ex.branch(o.st, v.e):
                            yield st3, mk(in2), some(x)
                        for st3 in ex.branch(o.st, z3.Not(v.e)):
                            yield from pull(st3, in2)
                    elif kind == "map":
                        yield o.st, mk(in2), some(v)
                    elif kind == "inspect":
                        yield o.st, mk(in2), some(x)
                    elif kind in ("filter_map", "map_while"):
                        good, gi = ("Some", 1)
                        if good in v.alts:
                            for st3 in ex.branch(o.st, v.disc == gi):
                                yield st3, mk(in2), some(v.alts[good][0])
                        for st3 in ex.branch(o.st, v.disc != gi):
                            if kind == "filter_map":
                                yield from pull(st3, in2)
                            else:
                                yield st3, Opaque("OptIter", info=(None,)), none()
                    elif kind == "take_while":
                        for st3 in ex.branch(o.st, v.e):
                            yield st3, mk(in2), some(x)
                        for st3 in ex.branch(o.st, z3.Not(v.e)):
                            yield st3, Opaque("OptIter", info=(None,)), none()
                    elif kind == "skip_while":
                        for st3 in ex.branch(o.st, v.e):
                            yield from pull(st3, in2)
                        for st3 in ex.branch(o.st, z3.Not(v.e)):
                            yield st3, mk(in2, (True,)), some(x)
                    elif kind == "flat_map":
                        sub = _sub_iter(ex, o.st, v)
                        yield from lazy_next(ex, o.st, mk(in2, (sub,)))
        yield from pull(st, inner)
        return
    if it.sort == "Lazy":
        kind = it.e
        if kind == "chain":
            a, b = it.info
            if a is not None:
                for st2, a2, r in iter_next(ex, st, a):
                    if ex.concrete(r.disc) == 0:
                        yield from lazy_next(ex, st2, Opaque("Lazy", "chain", (None, b)))
                    else:
                        yield st2, Opaque("Lazy", "chain", (a2, b)), r
            else:
                for st2, b2, r in iter_next(ex, st, b):
                    yield st2, Opaque("Lazy", "chain", (None, b2)), r
            return
        if kind == "once":
            x = it.info[0]
            if x is None:
                yield st, it, none()
            else:
                yield st, Opaque("Lazy", "once", (None,)), some(x[0])
            return
        if kind == "take":
            inner, n = it.info
            for st2 in ex.branch(st, n.e <= 0):
                yield st2, it, none()
            for st2 in ex.branch(st, n.e > 0):
                for st3, in2, r in iter_next(ex, st2, inner):
                    yield st3, Opaque("Lazy", "take", (in2, Sc(z3.simplify(n.e - 1), n.ty))), r
            return
        if kind == "skip":
            inner, n = it.info
            k = ex.concrete(n.e)
            if k is None:
                raise MirUnsupported("skip of a symbolic count")

            def drop(st, cur, k):
                if k == 0:
                    yield from iter_next(ex, st, cur)
                    return
                for st2, c2, r in iter_next(ex, st, cur):
                    if ex.concrete(r.disc) == 0:
                        yield st2, c2, r
                    else:
                        yield from drop(st2, c2, k - 1)
            for st2, c2, r in drop(st, inner, k):
                yield st2, Opaque("Lazy", "skip", (c2, mk_int(0, "usize"))), r
            return
        if kind in ("cloned", "copied"):
            inner = it.info[0]
            for st2, in2, r in iter_next(ex, st, inner):
                if ex.concrete(r.disc) == 0:
                    yield st2, Opaque("Lazy", kind, (in2,)), r
                else:
                    yield st2, Opaque("Lazy", kind, (in2,)), some(_value_of(ex, st2, r.alts["Some"][0]))
            return
        if kind == "flatten":
            inner, sub = it.info
            if sub is not None:
                for st2, sub2, r in iter_next(ex, st, sub):
                    if ex.concrete(r.disc) == 0:
                        yield from lazy_next(ex, st2, Opaque("Lazy", "flatten", (inner, None)))
                    else:
                        yield st2, Opaque("Lazy", "flatten", (inner, sub2)), r
                return
            for st2, in2, r in iter_next(ex, st, inner):
                if ex.concrete(r.disc) == 0:
                    yield st2, Opaque("Lazy", "flatten", (in2, None)), r
                else:
                    yield from lazy_next(ex, st2, Opaque("Lazy", "flatten", (in2, _sub_iter(ex, st2, r.alts["Some"][0]))))
            return
        if kind == "rev_range":
            lo, hi = it.info
            for st2 in ex.branch(st, lo.e < hi.e):
                last = Sc(z3.simplify(hi.e - 1), hi.ty)
                yield st2, Opaque("Lazy", "rev_range", (lo, last)), some(last)
            for st2 in ex.branch(st, lo.e >= hi.e):
                yield st2, it, none()
            return
        if kind == "rev":
            base, k = it.info   # k items already taken from the back
            vec = ex.read(st, base.cell, base.projs)
            for L in range(k + 1, len(vec.items) + 1):
                for st2 in ex.branch(st, vec.len == L):
                    yield st2, Opaque("Lazy", "rev", (base, k + 1)), some(Ref(base.cell, base.projs + (("index", L - 1 - k),)))
            for st2 in ex.branch(st, vec.len <= k):
                yield st2, it, none()
            for st2 in ex.branch(st, vec.len > len(vec.items)):
                raise MirUnsupported("collection model shorter than its feasible length")
            return
    raise MirUnsupported("next() on %r" % (it,))


_old_iter_next = iter_next


def iter_next(ex, st, it):  # noqa: F811  (the dispatcher every model above reaches through the module global)
    if isinstance(it, Opaque) and it.sort in ("Lazy", "OptIter", "Adapt"):
        yield from lazy_next(ex, st, it)
        return
    if isinstance(it, Adt) and it.ty in ("Range", "std::ops::Range") and len(it.fields) == 2:
        lo, hi = it.fields
        for st2 in ex.branch(st, lo.e < hi.e):
            yield st2, Adt(it.kind, it.ty, (Sc(z3.simplify(lo.e + 1), lo.ty), hi)), some(lo)
        for st2 in ex.branch(st, lo.e >= hi.e):
            yield st2, it, none()
        return
    if not isinstance(it, Opaque):
        raise MirUnsupported("next() on %r" % (it,))
    yield from _old_iter_next(ex, st, it)


def _iter_arg(ex, st, a):
    """the iterator value and, when it was passed by &mut, the place to write the advanced iterator back to"""
    if isinstance(a, Ref):
        return ex.read(st, a.cell, a.projs), a
    return a, None


def _put_back(ex, st, ref, it):
    if ref is not None:
        ex.write(st, ref.cell, ref.projs, it)


def m_lazy_adapt(ex, st, callee, args, dest_ty):
    kind = re.search(r" as Iterator>::(\w+)(::<|$)", callee).group(1)
    it = args[0]
    if kind in _LAZY_KINDS:
        yield st, Opaque("Lazy", kind, (it, args[1]) + ((None,) if kind == "flat_map" else ()))
    elif kind == "chain":
        other = args[1]
        yield st, Opaque("Lazy", "chain", (it, other if isinstance(other, (Opaque, Adt)) and not isinstance(other, VecV) and not isinstance(other, En) else _sub_iter(ex, st, other)))
    elif kind in ("take", "skip"):
        yield st, Opaque("Lazy", kind, (it, args[1]))
    elif kind in ("cloned", "copied"):
        yield st, Opaque("Lazy", kind, (it,))
    elif kind == "flatten":
        yield st, Opaque("Lazy", "flatten", (it, None))
    elif kind == "rev":
        if isinstance(it, Adt) and len(it.fields) == 2 and all(isinstance(f, Sc) for f in it.fields):
            yield st, Opaque("Lazy", "rev_range", (it.fields[0], it.fields[1]))
            return
        if not (isinstance(it, Opaque) and it.sort == "SliceIter" and it.e is None and it.info[1] == 0):
            raise MirUnsupported("rev() of %r" % (it,))
        yield st, Opaque("Lazy", "rev", (it.info[0], 0))
    elif kind == "enumerate":
        yield st, Opaque("Enumerate", info=(it, 0))
    elif kind == "zip":
        yield from m_iter_zip(ex, st, callee, args, dest_ty)
    elif kind in ("by_ref", "into_iter", "fuse", "peekable"):
        if kind == "peekable":
            raise MirUnsupported("peekable")
        yield st, it
    else:
        raise MirUnsupported("iterator adaptor " + callee)


def m_iter_once(ex, st, callee, args, dest_ty):
    yield st, Opaque("Lazy", "once", ((args[0],),))


def m_lazy_next(ex, st, callee, args, dest_ty):
    it, ref = _iter_arg(ex, st, args[0])
    for st2, it2, r in iter_next(ex, st, it):
        _put_back(ex, st2, ref, it2)
        yield st2, r


def _drain(ex, st, it):
    """(state, items, exhausted iterator) - pulls until None"""
    def rec(st, cur, acc):
        for st2, c2, r in iter_next(ex, st, cur):
            if ex.concrete(r.disc) == 0:
                yield st2, acc, c2
            else:
                yield from rec(st2, c2, acc + [r.alts["Some"][0]])
    yield from rec(st, it, [])


def m_lazy_consume(ex, st, callee, args, dest_ty):
    """count / last / nth / fold / for_each / find / find_map / position / sum / min / max / all / any over any modelled iterator"""
    m = re.search(r" as Iterator>::(\w+)(::<(.*)>)?$", callee)
    kind = m.group(1)
    it, ref = _iter_arg(ex, st, args[0])
    if kind in ("all", "any"):
        yield from m_iter_all_any(ex, st, " as Iterator>::%s::<F>" % kind, args, dest_ty)
        return
    if kind in ("count", "last", "sum", "min", "max"):
        for st2, items, fin in _drain(ex, st, it):
            _put_back(ex, st2, ref, fin)
            if kind == "count":
                yield st2, mk_int(len(items), "usize")
            elif kind == "last":
                yield st2, (some(items[-1]) if items else none())
            else:
                vals = [_value_of(ex, st2, x) for x in items]
                if not all(isinstance(v, Sc) for v in vals):
                    raise MirUnsupported("%s over non-integer items" % kind)
                ty = vals[0].ty if vals else (m.group(3) or "i64")
                if kind == "sum":
                    e = z3.IntVal(0)
                    for v in vals:
                        e = e + v.e
                    yield st2, Sc(z3.simplify(e), ty)
                else:
                    if not vals:
                        yield st2, none()
                        continue
                    e = vals[0].e
                    for v in vals[1:]:   # max returns the last of equal maxima, min the first: irrelevant for integers
                        e = z3.If(v.e >= e, v.e, e) if kind == "max" else z3.If(v.e < e, v.e, e)
                    yield st2, some(Sc(z3.simplify(e), ty))
        return
    if kind == "nth":
        n = ex.concrete(args[1].e)
        if n is None:
            raise MirUnsupported("nth of a symbolic index")

        def rec(st, cur, k):
            for st2, c2, r in iter_next(ex, st, cur):
                if ex.concrete(r.disc) == 0 or k == 0:
                    _put_back(ex, st2, ref, c2)
                    yield st2, r
                else:
                    yield from rec(st2, c2, k - 1)
        yield from rec(st, it, n)
        return
    if kind in ("fold", "for_each"):
        f = args[2] if kind == "fold" else args[1]

        def rec(st, cur, acc):
            for st2, c2, r in iter_next(ex, st, cur):
                if ex.concrete(r.disc) == 0:
                    _put_back(ex, st2, ref, c2)
                    yield st2, (acc if kind == "fold" else UNIT)
                    continue
                argv = [acc, r.alts["Some"][0]] if kind == "fold" else [r.alts["Some"][0]]
                for o in _call_closure(ex, st2, f, argv):
                    if o.kind != "return":
                        yield o
                        continue
                    yield from rec(o.st, c2, o.value if kind == "fold" else None)
        yield from rec(st, it, args[1] if kind == "fold" else None)
        return
    if kind in ("find", "find_map", "position"):
        f = args[1]

        def rec(st, cur, k):
            for st2, c2, r in iter_next(ex, st, cur):
                if ex.concrete(r.disc) == 0:
                    _put_back(ex, st2, ref, c2)
                    yield st2, none()
                    continue
                x = r.alts["Some"][0]
                arg = Ref(ex.new_cell(st2, x, "find")) if kind == "find" else x
                for o in _call_closure(ex, st2, f, [arg]):
                    if o.kind != "return":
                        yield o
                        continue
                    v = o.value
                    hit = v.e if kind != "find_map" else v.disc == 1
                    for st3 in ex.branch(o.st, hit):
                        _put_back(ex, st3, ref, c2)
                        yield st3, (some(x) if kind == "find" else some(mk_int(k, "usize")) if kind == "position" else v)
                    for st3 in ex.branch(o.st, z3.Not(hit)):
                        yield from rec(st3, c2, k + 1)
        yield from rec(st, it, 0)
        return
    raise MirUnsupported("iterator consumer " + callee)


def m_lazy_collect(ex, st, callee, args, dest_ty):
    """collect into Vec<T>, Result<Vec<T>, E> / Option<Vec<T>> (stops at the first Err / None, as std does), BTreeMap<K, V>"""
    target = re.search(r"::collect::<(.*)>$", callee).group(1) if "::collect::<" in callee else re.search(r"^<(.*) as FromIterator", callee).group(1)
    it, ref = _iter_arg(ex, st, args[0])
    if not isinstance(it, (Opaque, Adt)) or isinstance(it, (VecV,)):
        it = _sub_iter(ex, st, args[0])
    wrap = re.match(r"^(Result|Option|std::result::Result|std::option::Option)<(Vec<.*>)(, .*)?>$", target)
    if wrap:
        res = wrap.group(1).endswith("Result")
        good, gi = ("Ok", 0) if res else ("Some", 1)

        def rec(st, cur, acc):
            for st2, c2, r in iter_next(ex, st, cur):
                if ex.concrete(r.disc) == 0:
                    v = VecV(z3.IntVal(len(acc)), tuple(acc), "collected")
                    yield st2, (En("Result", z3.IntVal(0), {"Ok": (v,)}) if res else some(v))
                    continue
                x = r.alts["Some"][0]
                if good in x.alts:
                    for st3 in ex.branch(st2, x.disc == gi):
                        yield from rec(st3, c2, acc + [x.alts[good][0]])
                for st3 in ex.branch(st2, x.disc != gi):
                    yield st3, (En("Result", z3.IntVal(1), {"Err": x.alts["Err"]}) if res else none())
        yield from rec(st, it, [])
        return
    if re.match(r"^(std::vec::)?Vec<", target):
        for st2, items, fin in _drain(ex, st, it):
            yield st2, VecV(z3.IntVal(len(items)), tuple(items), "collected")
        return
    if re.match(r"^(std::collections::)?BTreeMap<", target):
        for st2, items, fin in _drain(ex, st, it):
            cell = ex.new_cell(st2, MapV(z3.IntVal(0), (), "kv"), "collected")

            def ins(st, k):
                if k == len(items):
                    yield st, ex.read(st, cell, ())
                    return
                key, val = items[k].fields
                for st3, _ in m_btree_insert(ex, st, "BTreeMap::insert", [Ref(cell), key, val], None):
                    yield from ins(st3, k + 1)
            yield from ins(st2, 0)
        return
    raise MirUnsupported("collect into " + target)


def m_vec_extend(ex, st, callee, args, dest_ty):
    r = args[0]
    base = r
    while isinstance(ex.read(st, base.cell, base.projs), Ref):
        base = ex.read(st, base.cell, base.projs)
    src = args[1]
    it = src if isinstance(src, Opaque) else _sub_iter(ex, st, src)
    for st2, items, fin in _drain(ex, st, it):
        v = ex.read(st2, base.cell, base.projs)
        n = ex.concrete(v.len)
        if n is None:
            raise MirUnsupported("extend of a vector of symbolic length")
        ex.write(st2, base.cell, base.projs, VecV(z3.IntVal(n + len(items)), tuple(v.items[:n]) + tuple(_value_of(ex, st2, x) if "Cloned" in callee or "Copied" in callee else x for x in items), v.elem_ty))
        yield st2, UNIT


VALUE_MODELS += [
    (R(r"^<" + ITER_T + r" as Iterator>::(filter|map|filter_map|map_while|take_while|skip_while|inspect|flat_map|chain|take|skip|cloned|copied|flatten|rev|enumerate|zip|by_ref|fuse)(::<.*>)?$"), m_lazy_adapt),
    (R(r"^<" + ITER_T + r" as IntoIterator>::into_iter$"), m_into_iter_id),
    (R(r"^<" + ITER_T + r" as DoubleEndedIterator>::rev$"), m_lazy_adapt),
    (R(r"^((std|core)::iter::)?once::<.*>$"), m_iter_once),
    (R(r"^<" + ITER_T + r" as Iterator>::next$"), m_lazy_next),
    (R(r"^<" + ITER_T + r" as Iterator>::(count|last|nth|fold|for_each|find|find_map|position|sum|min|max|all|any)(::<.*>)?$"), m_lazy_consume),
    (R(r"^<" + ITER_T + r" as Iterator>::collect::<.*>$"), m_lazy_collect),
    (R(r"^<Vec<.*> as Extend<.*>>::extend::<.*>$"), m_vec_extend),
]
