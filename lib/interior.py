"""Interior-mutable state inside prepared evaluators (OnceLock / OnceCell / Mutex / RwLock / RefCell / Cell / atomics).

A compiled evaluator is built once and then evaluated many times, from many threads. State kept inside it survives from one evaluation
to the next, so one evaluation is an INDUCTIVE STEP from an arbitrary history: whatever such a cell can hold after earlier evaluations
(with other inputs) is what a read may deliver. The models below implement exactly that: a read of interior state forks into "not
yet initialised" (where the API has that notion) and "holds an arbitrary value of its type, left there by an earlier evaluation";
the event is logged, so obligations can also state that evaluation touches no such state at all."""
import re

import z3

from mir.parser import MirUnsupported
from mir.sym import Adt, En, Opaque, Outcome, Ref, Sc, StrV, VecV, UNIT, mk_bool, none, some
from mir.models import call_fn_value, deref, R

INTERIOR_TY = re.compile(r"^(?:std::sync::|std::cell::|core::cell::|std::sync::atomic::|once_cell::\w+::)?(OnceLock|OnceCell|Lazy|Mutex|RwLock|RefCell|Cell|Atomic\w+)\b")


def struct_field_types(src, name):
    """field name -> type text of `struct <name> { .. }` in a Rust source text"""
    m = re.search(r"struct\s+%s\s*(?:<[^>{]*>)?\s*\{(.*?)\n\}" % re.escape(name), src, re.S)
    if not m:
        return {}
    body = re.sub(r"//[^\n]*", "", m.group(1))
    out = {}
    depth, cur = 0, ""
    for ch in body:
        if ch in "<([":
            depth += 1
        elif ch in ">)]":
            depth -= 1
        if ch == "," and depth == 0:
            if ":" in cur:
                k, t = cur.split(":", 1)
                out[k.replace("pub", "").strip().split()[-1]] = " ".join(t.split())
            cur = ""
        else:
            cur += ch
    if ":" in cur:
        k, t = cur.split(":", 1)
        out[k.replace("pub", "").strip().split()[-1]] = " ".join(t.split())
    return out


def is_interior(ty):
    return bool(ty) and bool(INTERIOR_TY.match(ty.strip()))


def _split_top(s):
    out, depth, cur = [], 0, ""
    for ch in s:
        if ch in "<([":
            depth += 1
        elif ch in ">)]":
            depth -= 1
        if ch == "," and depth == 0:
            out.append(cur.strip())
            cur = ""
        else:
            cur += ch
    if cur.strip():
        out.append(cur.strip())
    return out


def havoc_of_type(ex, st, ty, U, hint="stale"):
    """an arbitrary value of a (simple) type: what interior state may hold after earlier evaluations"""
    ty = ty.strip()
    ty = re.sub(r"^(dmntk_feel::values::|dmntk_feel::|std::vec::|std::option::|std::string::)", "", ty)
    if ty.startswith("(") and ty.endswith(")"):
        return Adt("tuple", None, [havoc_of_type(ex, st, t, U, hint) for t in _split_top(ty[1:-1])])
    m = re.match(r"^Vec<(.*)>$", ty)
    if m:
        n = ex.fresh_int(st, "usize", hint + "_len", constrain=False)
        ex.assume(st, z3.And(n.e >= 0, n.e <= 1))
        return VecV(n.e, [havoc_of_type(ex, st, m.group(1), U, hint)], "T")
    m = re.match(r"^Option<(.*)>$", ty)
    if m:
        b = z3.Bool(ex.fresh_name(hint + "_some"))
        return En("Option", z3.If(b, z3.IntVal(1), z3.IntVal(0)), {"None": (), "Some": (havoc_of_type(ex, st, m.group(1), U, hint),)})
    if ty == "Value":
        return En("Value", z3.IntVal(U.idx("Number")), {"Number": (Opaque("FeelNumber", z3.Int(ex.fresh_name(hint + "_number"))),)})
    if ty == "bool":
        return mk_bool(z3.Bool(ex.fresh_name(hint + "_flag")))
    if ty in ("u8", "u16", "u32", "u64", "usize", "i8", "i16", "i32", "i64", "isize"):
        return ex.fresh_int(st, ty, hint)
    if ty in ("String", "Name"):
        return StrV(None, id=z3.Int(ex.fresh_name(hint + "_text"))) if ty == "String" else Opaque("Name", z3.Int(ex.fresh_name(hint + "_name")))
    raise MirUnsupported("arbitrary value of type %s" % ty)


def interior_models(U):
    def inner_type(callee):
        m = re.search(r"(?:OnceLock|OnceCell|Mutex|RwLock|RefCell|Cell)::<(.*)>::\w+(?:::<.*>)?$", callee)
        if not m:
            raise MirUnsupported("interior state of unknown type in " + callee)
        t = m.group(1)
        # strip a trailing generic argument list of the method (`get_or_init::<{closure}>`) that the greedy match may have swallowed
        depth = 0
        for k, ch in enumerate(t):
            if ch in "<([":
                depth += 1
            elif ch in ">)]":
                depth -= 1
                if depth < 0:
                    return t[:k]
        return t

    def m_new(ex, st, callee, args, dest_ty):
        yield st, Opaque("InteriorState", "fresh")

    def m_get_or_init(ex, st, callee, args, dest_ty):
        ty = inner_type(callee)
        # (a) an earlier evaluation has filled the cell: its content is whatever that evaluation computed
        for st2 in ex.branch(st, z3.Bool(ex.fresh_name("state_left_by_an_earlier_evaluation"))):
            v = havoc_of_type(ex, st2, ty, U)
            st2.log.append(("stale_state", callee.split("::<", 1)[0], ty))
            yield st2, Ref(ex.new_cell(st2, v, "stale"))
        # (b) first use: the initialiser runs
        st.log.append(("state_write", callee.split("::<", 1)[0], ty))
        for o in call_fn_value(ex, st, args[1], []):
            if o.kind != "return":
                yield o
            else:
                yield o.st, Ref(ex.new_cell(o.st, o.value, "init"))

    def m_get(ex, st, callee, args, dest_ty):
        ty = inner_type(callee)
        b = z3.Bool(ex.fresh_name("state_left_by_an_earlier_evaluation"))
        for st2 in ex.branch(st, z3.Not(b)):
            yield st2, none()
        for st2 in ex.branch(st, b):
            v = havoc_of_type(ex, st2, ty, U)
            st2.log.append(("stale_state", callee.split("::<", 1)[0], ty))
            yield st2, some(Ref(ex.new_cell(st2, v, "stale")))

    def m_set(ex, st, callee, args, dest_ty):
        st.log.append(("state_write", callee.split("::<", 1)[0], inner_type(callee)))
        yield st, En("Result", z3.IntVal(0), {"Ok": (UNIT,), "Err": (args[1],)})

    def m_lock(ex, st, callee, args, dest_ty):
        ty = inner_type(callee)
        v = havoc_of_type(ex, st, ty, U)
        st.log.append(("stale_state", callee.split("::<", 1)[0], ty))
        g = Ref(ex.new_cell(st, v, "guarded"))
        if re.search(r"(Mutex|RwLock)::<", callee):
            yield st, En("Result", z3.IntVal(0), {"Ok": (g,)})
        else:
            yield st, g
    return [
        (R(r"^(std::sync::|std::cell::)?(OnceLock|OnceCell)::<.*>::new$"), m_new),
        (R(r"^(std::sync::|std::cell::)?(OnceLock|OnceCell)::<.*>::get_or_init::<.*>$"), m_get_or_init),
        (R(r"^(std::sync::|std::cell::)?(OnceLock|OnceCell)::<.*>::get$"), m_get),
        (R(r"^(std::sync::|std::cell::)?(OnceLock|OnceCell)::<.*>::set$"), m_set),
        (R(r"^(std::sync::)?(Mutex|RwLock)::<.*>::(lock|read|write)$|^(std::cell::)?RefCell::<.*>::(borrow|borrow_mut)$"), m_lock),
    ]
