"""Obligation driver for engine M (MIR -> SMT): runs the symbolic executor over one function,
asks z3 for a violation of the post-condition on every feasible path, replays counterexamples
natively, applies known-finding predicates as blocking constraints (DESIGN §1.3, §2)."""
import os
import time

import z3

from vcommon import *  # noqa
from mir.parser import parse_mir, MirUnsupported
from mir.sym import Exec, State, Outcome
from mir import models as M


class MirCrate:
    """MIR of one crate of the mirror, regenerated from the working tree on every run."""

    def __init__(self, mirror, crate_dir, overflow_checks=True, enum_crates=("common", "feel-number", "feel", "feel-parser", "model")):
        cds = (crate_dir,) if isinstance(crate_dir, str) else tuple(crate_dir)
        self.enums = collect_enums(mirror, tuple(dict.fromkeys(cds + tuple(enum_crates))))
        self.mirror = mirror
        self.crate_dir = crate_dir
        self.overflow_checks = overflow_checks
        t = time.time()
        self.crate_dirs = [crate_dir] if isinstance(crate_dir, str) else list(crate_dir)
        self.crate_dir = self.crate_dirs[0]
        self.bodies = {}
        self.text = ""
        for cd in self.crate_dirs:
            txt = mir_dump(mirror, cd, overflow_checks)
            self.text += txt
            for name, b in parse_mir(txt).items():
                b.crate = cd
                if name in self.bodies:
                    self.bodies[cd + "::" + name] = b
                else:
                    self.bodies[name] = b
        self.seconds = time.time() - t
        log("MIR of %s (overflow-checks=%s): %d bodies, %d lines, %.1fs" % (",".join(self.crate_dirs), overflow_checks, len(self.bodies),
                                                                           self.text.count("\n"), self.seconds))

    def exec(self, enums=None, models=None, unwind=8, timeout_ms=30000):
        en = dict(self.enums)
        en.update(enums or {})
        ex = Exec(self.bodies, enums=en, models=(models or []) + M.BASE_MODELS, unwind=unwind, timeout_ms=timeout_ms,
                  crate_src=self.mirror.src)
        ex.overflow_checks = self.overflow_checks
        return ex

    def fn_record(self, ex):
        out = []
        for n in sorted(ex.inlined):
            b = self.bodies.get(n)
            if b is not None:
                out.append(dict(fn=n, crate=getattr(b, "crate", self.crate_dir), mir_sha=text_hash(b.text), overflow_checks=self.overflow_checks))
        return out


def collect_enums(mirror, crate_dirs):
    """enum name -> {variant: discriminant} from the sources of the given crates of the mirror (first crate wins on a clash)"""
    import glob
    import rsenum
    out = {}
    for c in crate_dirs:
        for f in sorted(glob.glob(os.path.join(mirror.src, c, "src", "**", "*.rs"), recursive=True)):
            if "/tests/" in f or f.endswith("/tests.rs"):
                continue
            try:
                with open(f) as fh:
                    for name, d in rsenum.enums_of(fh.read()).items():
                        out.setdefault(name, d)
            except Exception:
                pass
    return out


def model_value(model, e):
    if not isinstance(e, z3.ExprRef):
        return e if isinstance(e, (int, bool, str, type(None))) else repr(e)
    v = model.eval(e, model_completion=True)
    if z3.is_int_value(v):
        return v.as_long()
    if z3.is_true(v):
        return True
    if z3.is_false(v):
        return False
    if z3.is_string_value(v):
        return v.as_string()
    return str(v)


def preferred_model(ex, pref, viol, fallback, limit=400, budget_s=120):
    """a model of the violation that also satisfies a preference (one constraint, or an iterable of candidate constraints tried in
    order: the first satisfiable one wins); the violation itself has already been decided `sat` - this only picks the witness"""
    cands = [pref] if isinstance(pref, z3.ExprRef) else pref
    t0 = time.time()
    for i, c in enumerate(cands):
        if i >= limit or time.time() - t0 > budget_s:
            break
        q = c if viol is None else z3.And(viol, c)
        if ex.check_once(q, 10000) == z3.sat:
            return ex.solver.model()
    return fallback


def decide(check, crate, oid, setup, post, replay=None, rb=None, unwind=8, enums=None, models=None, allow_panic=None,
           max_cex=1, timeout_ms=30000, min_paths=1, note=None, known_predicates=None, budget_s=600, describe=None, merge=None, prefer=None, need_reach=None, unwound_is_violation=False, max_per_label=1000):
    """One obligation.

    setup(ex, st) -> (fname, args, inputs)         inputs: dict name -> z3 expr / python value (reported in counterexamples)
    post(ex, outcome, inputs) -> list of (label, z3 Bool that must hold on this path)   [outcome.kind == 'return']
    allow_panic(outcome) -> True if this panic outcome is acceptable (default: no panic is acceptable)
    replay(concrete_inputs, rb) -> (reproduced, text)
    known_predicates: dict finding-id -> fn(inputs) -> z3 Bool   (blocking constraints for open known findings)
    """
    full = "%s/M/%s" % (check.pid, oid)
    if getattr(check, "only", None) and not any(s in full for s in check.only):
        return None
    t0 = time.time()
    ex = crate.exec(enums=enums, models=models, unwind=unwind, timeout_ms=timeout_ms)
    # the thorough tier explores larger bounds: its per-obligation wall-clock budget is four times the quick one (a loaded machine must
    # not turn a deeper exploration into an inconclusive verdict); VERIF_BUDGET_SCALE overrides
    scale = float(os.environ.get("VERIF_BUDGET_SCALE", "4" if getattr(check, "tier", "quick") == "thorough" else "1"))
    ex.deadline = time.time() + budget_s * scale
    if merge:
        import re as _re
        ex.merge_pat = _re.compile(merge)
    st = State()
    detail = dict(paths=0, panics_paths=0, returns=0, queries=0, unwound=0)
    status = "holds"
    cex = []
    try:
        fname, args, inputs = setup(ex, st)
        known = check.known_for(oid)
        applied = []
        for k in known:
            fn = (known_predicates or {}).get(k["id"])
            if fn is None:
                raise MirUnsupported("known finding %s has no predicate function" % k["id"])
            ex.assume(st, z3.Not(fn(inputs)))
            applied.append(k["id"])
        labels_seen = set()
        reached = set()
        def cex_inputs(m):
            if describe is not None:
                return describe(m, inputs)
            return {k: model_value(m, v) for k, v in inputs.items()}

        outcomes = fname(ex, st) if callable(fname) else ex.run(fname, args, st)
        for o in outcomes:
            detail["paths"] += 1
            if o.kind == "unwound":
                detail["unwound"] += 1
                if unwound_is_violation:
                    # the caller derived the loop bound from a progress argument (every iteration consumes input): exceeding it is a
                    # candidate non-termination witness, reported only if the native replay confirms it (hangs / deviates)
                    if ex.check() == z3.sat:
                        m = ex.solver.model()
                        if prefer is not None:
                            m = preferred_model(ex, prefer(inputs), None, m)
                        cex.append(dict(label="loop bound exceeded: " + str(o.msg)[:120], inputs=cex_inputs(m)))
                        if len(cex) >= max_cex:
                            break
                        continue
                status = "inconclusive"
                detail["unwound_at"] = o.msg
                continue
            if o.kind == "panic":
                detail["panics_paths"] += 1
                if allow_panic and allow_panic(o):
                    continue
                r = ex.check()
                if r == z3.sat:
                    m = ex.solver.model()
                    if prefer is not None:  # a smaller / replayable witness of the same path, if one exists
                        m = preferred_model(ex, prefer(inputs), None, m)
                    cex.append(dict(label="panic: " + str(o.msg), inputs=cex_inputs(m)))
                elif r == z3.unknown:
                    status = "inconclusive"
                    detail["unknown"] = "panic path"
                if len(cex) >= max_cex:
                    break
                continue
            detail["returns"] += 1
            for label, prop in post(ex, o, inputs):
                if label.startswith("reach:"):  # vacuity witness: this condition must be satisfiable on some returning path
                    if label not in reached and ex.check(prop) == z3.sat:
                        reached.add(label)
                    continue
                labels_seen.add(label)
                p = z3.simplify(prop) if not isinstance(prop, bool) else z3.BoolVal(prop)
                if z3.is_true(p):
                    continue
                r = ex.check(z3.Not(p))
                if r == z3.sat:
                    m = ex.solver.model()
                    if prefer is not None:
                        m = preferred_model(ex, prefer(inputs), z3.Not(p), m)
                    if sum(1 for c_ in cex if c_["label"] == label) < max_per_label:
                        cex.append(dict(label=label, inputs=cex_inputs(m)))
                elif r == z3.unknown:
                    status = "inconclusive"
                    detail["unknown"] = label
            if len(cex) >= max_cex:
                break
        detail["labels"] = sorted(labels_seen)
        if detail["returns"] < min_paths and not cex:
            status = "inconclusive"
            detail["vacuous"] = "only %d returning paths" % detail["returns"]
        if need_reach and not cex:
            missing = [l for l in need_reach if l not in reached]
            detail["reached"] = len(reached)
            if missing:
                status = "inconclusive"
                detail["vacuous"] = "never reached: %s" % missing[:4]
    except MirUnsupported as e:
        status = "inconclusive"
        detail["unsupported"] = str(e)[:600]
    except z3.Z3Exception as e:
        status = "inconclusive"
        detail["z3_error"] = str(e)[:300]
    detail["queries"] = ex.queries
    detail["solver_seconds"] = round(ex.solver_time, 3)
    detail["models_used"] = sorted(ex.used_models)
    detail["unwind"] = unwind
    if merge:
        detail["merged_calls"] = ex.merged_calls
    if note:
        detail["note"] = note
    for f in crate.fn_record(ex):
        if f not in check.functions:
            check.functions.append(f)
    for mname in sorted(ex.used_models):
        s = "M model: " + mname
        if s not in check.stubs:
            check.stubs.append(s)
    secs = time.time() - t0
    if cex:
        confirmed = []
        for c in cex:
            if replay is None:
                c["reproduced"] = None
                continue
            try:
                # a replay that depends on WHICH post-condition failed declares `wants_label`
                okr, text = replay(c["inputs"], rb, c["label"]) if getattr(replay, "wants_label", False) else replay(c["inputs"], rb)
                check.replays += 1
            except Exception as e:  # noqa
                okr, text = False, "replay error: %r" % (e,)
            c["reproduced"], c["native"] = okr, text
            if okr:
                confirmed.append(c)
        detail["counterexamples"] = cex
        if confirmed:
            check.add(full, "violated", "M", secs, detail, queries=max(ex.queries, 1))
            for c in confirmed:
                check.violation(full, dict(obligation=oid, failed=c["label"], inputs=c["inputs"], native=c["native"]))
            return "violated"
        detail["note2"] = "solver counterexample not reproduced by the native build: encoding/model suspect -> inconclusive"
        check.add(full, "inconclusive", "M", secs, detail, queries=max(ex.queries, 1))
        return "inconclusive"
    if status == "holds" and known:
        for k in known:
            if k.get("report_in") not in (None, oid):
                continue
            if replay is not None and k.get("witness") is not None:
                okr, text = replay(k["witness"], rb)
                check.replays += 1
                if okr:
                    check.known_hit(k, "%s %s" % (k["id"], text))
        detail["known_findings_excluded"] = applied
        status = "known"
    check.add(full, status, "M", secs, detail, queries=max(ex.queries, 1), nontrivial=detail["returns"] > 0)
    return status


def reachable_bodies(crate, fname, limit=400):
    """MIR bodies reachable from `fname` through calls that resolve inside the crate dump"""
    ex = crate.exec()
    start = crate.bodies.get(fname) or ex.resolve(fname)
    seen, todo = {}, [start] if start is not None else []
    while todo and len(seen) < limit:
        b = todo.pop()
        if b.name in seen:
            continue
        seen[b.name] = b
        for bb, (stmts, term) in b.blocks.items():
            if term.kind == "call":
                try:
                    c = ex.resolve(term.d["callee"])
                except MirUnsupported:
                    c = None
                if c is not None and c.name not in seen:
                    todo.append(c)
    return seen


def reaches_text(crate, fname, needle):
    return any(needle in b.text for b in reachable_bodies(crate, fname).values())


MERGE_LISTS = ("obligations", "violations", "inconclusive", "samples", "functions", "bounds", "stubs", "assumptions", "trusted")
MERGE_NUMS = ("solver_seconds", "covers_hit", "nontrivial", "queries", "validated", "replays")


def run_parallel(check, thunks, par=12):
    """Run obligation thunks `f(check)` in forked worker processes (z3 is single-threaded; 16 cores);
    every worker records into its own Check object whose contents are merged back in submission order."""
    import pickle
    import signal
    par = int(os.environ.get("VERIF_PAR", par))
    if par <= 1 or len(thunks) <= 1:
        for f in thunks:
            f(check)
        return
    pending = list(enumerate(thunks))
    running = {}
    results = {}
    while pending or running:
        while pending and len(running) < par:
            idx, f = pending.pop(0)
            r, w = os.pipe()
            pid = os.fork()
            if pid == 0:
                os.close(r)
                code = 0
                try:
                    sub = Check(check.pid, check.tier, check.engine_note)
                    sub.only = getattr(check, "only", None)
                    try:
                        f(sub)
                    except Exception as e:  # noqa
                        import traceback
                        sub.add("%s/driver-error-%d" % (check.pid, idx), "inconclusive", "M", 0, dict(error=traceback.format_exc()[-1500:]))
                    data = {k: getattr(sub, k) for k in MERGE_LISTS + MERGE_NUMS}
                    data["known_hits"] = sub.known_hits
                    with os.fdopen(w, "wb") as fh:
                        pickle.dump(data, fh)
                except BaseException:
                    code = 3
                os._exit(code)
            os.close(w)
            running[pid] = (idx, r)
        pid, status = os.wait()
        if pid in running:
            idx, r = running.pop(pid)
            with os.fdopen(r, "rb") as fh:
                try:
                    results[idx] = pickle.load(fh)
                except Exception:
                    results[idx] = None
    for idx in sorted(results):
        d = results[idx]
        if d is None:
            check.add("%s/worker-%d" % (check.pid, idx), "inconclusive", "M", 0, dict(error="worker died (memory/time?)"))
            continue
        for k in MERGE_LISTS:
            for item in d[k]:
                if k in ("functions", "bounds", "stubs", "assumptions", "trusted") and item in getattr(check, k):
                    continue
                getattr(check, k).append(item)
        for k in MERGE_NUMS:
            setattr(check, k, getattr(check, k) + d[k])
        check.known_hits += d["known_hits"]
