"""SMT-level models of the std / third-party functions the encoded kernels call (engine M, DESIGN §2).

Every model listed here is part of the claim of a check that uses it; Exec.used_models records
which ones a run actually touched so the evidence can list them.
A model is a generator `fn(ex, st, callee, args, dest_ty)` yielding `(state, value)` pairs or Outcome objects.
"""
import re

import z3

from .parser import MirUnsupported
from .sym import (Adt, En, FnV, Opaque, Outcome, Ref, Sc, StrV, VecV, UNIT, INT_TYPES, in_range, mk_bool, mk_int, none, ok, err,
                  ordering, some, ty_range, wrap, tdiv, trem, _base_name)


def deref(ex, st, v):
    while isinstance(v, Ref):
        v = ex.read(st, v.cell, v.projs)
    return v


def R(p):
    return re.compile(p)


# ----------------------------------------------------------------------------- strings


def str_eq(a, b):
    """z3 Bool: equality of two StrV"""
    if a.const is not None and b.const is not None:
        return z3.BoolVal(a.const == b.const)
    for x, y in ((a, b), (b, a)):
        if "choice" in x.attrs and y.const is not None:
            idx, opts = x.attrs["choice"]
            if y.const in opts:
                return idx == opts.index(y.const)
            return z3.BoolVal(False)
    if "choice" in a.attrs and "choice" in b.attrs and a.attrs["choice"][1] == b.attrs["choice"][1]:
        return a.attrs["choice"][0] == b.attrs["choice"][0]
    if "id" in a.attrs and "id" in b.attrs:
        return a.attrs["id"] == b.attrs["id"]
    if "z3s" in a.attrs or "z3s" in b.attrs:
        return to_z3s(a) == to_z3s(b)
    for x, y in ((a, b), (b, a)):
        if "atoms" in x.attrs and y.const is not None:
            r = _atoms_eq_const(x.attrs["atoms"], y.const)
            if r is not None:
                return r
    raise MirUnsupported("string equality between %r and %r" % (a, b))


def _atoms_eq_const(atoms, text):
    """structured string (optional sign, literal pieces, k-digit numbers of concrete width) against a constant: segment by segment"""
    def rec(i, pos):
        if i == len(atoms):
            return z3.BoolVal(pos == len(text))
        at = atoms[i]
        if at[0] == "lit":
            if text[pos:pos + len(at[1])] != at[1]:
                return z3.BoolVal(False)
            return rec(i + 1, pos + len(at[1]))
        if at[0] == "digits" and isinstance(at[2], int):
            seg = text[pos:pos + at[2]]
            if len(seg) != at[2] or not seg.isdigit():
                return z3.BoolVal(False)
            r = rec(i + 1, pos + at[2])
            return None if r is None else z3.And(at[1] == int(seg), r)
        if at[0] == "sign":
            with_minus = rec(i + 1, pos + 1) if text[pos:pos + 1] == "-" else z3.BoolVal(False)
            without = rec(i + 1, pos)
            if with_minus is None or without is None:
                return None
            return z3.If(at[1], with_minus, without)
        return None
    return rec(0, 0)


def to_z3s(s):
    if s.const is not None:
        return z3.StringVal(s.const)
    if "z3s" in s.attrs:
        return s.attrs["z3s"]
    raise MirUnsupported("no SMT string for %r" % (s,))


def m_identity(ex, st, callee, args, dest_ty):
    yield st, deref(ex, st, args[0]) if "clone" in callee or "to_string" in callee or "to_owned" in callee else args[0]


def m_deref_identity(ex, st, callee, args, dest_ty):
    v = args[0]
    tgt = deref(ex, st, v)
    if isinstance(tgt, StrV):
        yield st, tgt
    elif isinstance(tgt, VecV) and isinstance(v, Ref):
        base = v  # keep a reference that points directly at the Vec model (iterators index into it)
        while isinstance(ex.read(st, base.cell, base.projs), Ref):
            base = ex.read(st, base.cell, base.projs)
        yield st, base
    else:
        yield st, v


def m_clone(ex, st, callee, args, dest_ty):
    yield st, deref(ex, st, args[0])


def m_partial_eq(ex, st, callee, args, dest_ty):
    a, b = deref(ex, st, args[0]), deref(ex, st, args[1])
    neg = callee.endswith("::ne")
    if isinstance(a, StrV) and isinstance(b, StrV):
        r = str_eq(a, b)
    elif isinstance(a, Sc) and isinstance(b, Sc):
        r = a.e == b.e
    elif isinstance(a, En) and isinstance(b, En) and all(len(f) == 0 for f in list(a.alts.values()) + list(b.alts.values())):
        r = a.disc == b.disc
    else:
        return NotImplemented
    r = z3.simplify(z3.Not(r) if neg else r)

    def g():
        yield st, mk_bool(r)
    return g()


def m_option_eq(ex, st, callee, args, dest_ty):
    """<Option<T> as PartialEq>::eq / ne: both None, or both Some with payloads equal by T's own eq (executed / modelled as any other call)"""
    m = re.match(r"^<(?:std::option::)?Option<(.*)> as PartialEq>::(eq|ne)$", callee, re.S)
    inner, neg = m.group(1), m.group(2) == "ne"
    a, b = deref(ex, st, args[0]), deref(ex, st, args[1])
    if not (isinstance(a, En) and isinstance(b, En)):
        return NotImplemented

    def g():
        out = lambda x: mk_bool(z3.simplify(z3.Not(x) if neg else x))
        for st2 in ex.branch(st, z3.And(a.disc == 0, b.disc == 0)):
            yield st2, out(z3.BoolVal(True))
        for st2 in ex.branch(st, a.disc != b.disc):
            yield st2, out(z3.BoolVal(False))
        if "Some" in a.alts and "Some" in b.alts:
            for st2 in ex.branch(st, z3.And(a.disc == 1, b.disc == 1)):
                x, y = a.alts["Some"][0], b.alts["Some"][0]
                rx = x if isinstance(x, Ref) else Ref(ex.new_cell(st2, x, "eq"))
                ry = y if isinstance(y, Ref) else Ref(ex.new_cell(st2, y, "eq"))
                for o in ex.call(st2, "<%s as PartialEq>::eq" % inner, [rx, ry], "bool"):
                    if o.kind != "return":
                        yield o
                    else:
                        yield o.st, out(o.value.e)
    return g()


# ----------------------------------------------------------------------------- Option / Result


def _opt_like(v, name):
    if not isinstance(v, En):
        raise MirUnsupported("%s on %r" % (name, v))
    return v


def m_is_some(ex, st, callee, args, dest_ty):
    v = _opt_like(deref(ex, st, args[0]), callee)
    yield st, mk_bool(z3.simplify(v.disc == 1))


def m_is_none(ex, st, callee, args, dest_ty):
    v = _opt_like(deref(ex, st, args[0]), callee)
    yield st, mk_bool(z3.simplify(v.disc == 0))


def m_is_ok(ex, st, callee, args, dest_ty):
    v = _opt_like(deref(ex, st, args[0]), callee)
    yield st, mk_bool(z3.simplify(v.disc == 0))


def m_is_err(ex, st, callee, args, dest_ty):
    v = _opt_like(deref(ex, st, args[0]), callee)
    yield st, mk_bool(z3.simplify(v.disc == 1))


def m_try_branch(ex, st, callee, args, dest_ty):
    v = _opt_like(deref(ex, st, args[0]), callee)
    if "Some" in v.alts or "None" in v.alts:
        alts = {}
        if "Some" in v.alts:
            alts["Continue"] = v.alts["Some"]
        if "None" in v.alts:
            alts["Break"] = (none(),)
        yield st, En("ControlFlow", z3.simplify(z3.If(v.disc == 1, z3.IntVal(0), z3.IntVal(1))), alts)
    else:
        alts = {}
        if "Ok" in v.alts:
            alts["Continue"] = v.alts["Ok"]
        if "Err" in v.alts:
            alts["Break"] = (En("Result", z3.IntVal(1), {"Err": v.alts["Err"]}),)
        yield st, En("ControlFlow", v.disc, alts)


def m_from_residual(ex, st, callee, args, dest_ty):
    v = deref(ex, st, args[0])
    if isinstance(v, En) and "Err" in v.alts:
        yield st, err(v.alts["Err"][0])
    else:
        yield st, none()


def m_opt_as_ref(ex, st, callee, args, dest_ty):
    r = args[0]
    v = deref(ex, st, r)
    alts = {"None": ()}
    if "Some" in v.alts and isinstance(r, Ref):
        base = r
        while isinstance(ex.read(st, base.cell, base.projs), Ref):
            base = ex.read(st, base.cell, base.projs)
        alts["Some"] = (Ref(base.cell, base.projs + (("downcast", "Some"), ("field", 0, None))),)
    yield st, En("Option", v.disc, alts)


def m_unwrap(ex, st, callee, args, dest_ty):
    v = _opt_like(deref(ex, st, args[0]) if isinstance(args[0], Ref) else args[0], callee)
    good, goodidx = ("Some", 1) if ("Some" in v.alts or "None" in v.alts) else ("Ok", 0)
    if "unwrap_err" in callee:
        good, goodidx = "Err", 1
    for st2 in ex.branch(st, v.disc != goodidx):
        yield Outcome("panic", st2, msg="%s on the other variant" % callee)
    if good in v.alts:
        for st2 in ex.branch(st, v.disc == goodidx):
            yield st2, v.alts[good][0]


def m_unwrap_or(ex, st, callee, args, dest_ty):
    v = _opt_like(args[0], callee)
    good, goodidx = ("Some", 1) if ("Some" in v.alts or "None" in v.alts) else ("Ok", 0)
    if good in v.alts:
        for st2 in ex.branch(st, v.disc == goodidx):
            yield st2, v.alts[good][0]
    for st2 in ex.branch(st, v.disc != goodidx):
        yield st2, args[1]


def m_bool_not(ex, st, callee, args, dest_ty):
    yield st, mk_bool(z3.simplify(z3.Not(deref(ex, st, args[0]).e)))


def m_unwrap_or_else(ex, st, callee, args, dest_ty):
    """Option::unwrap_or_else(f) / Result::unwrap_or_else(|e| ..)"""
    v = _opt_like(args[0], callee)
    good, goodidx = ("Some", 1) if ("Some" in v.alts or "None" in v.alts) else ("Ok", 0)
    if good in v.alts:
        for st2 in ex.branch(st, v.disc == goodidx):
            yield st2, v.alts[good][0]
    for st2 in ex.branch(st, v.disc != goodidx):
        argv = [] if good == "Some" else [v.alts["Err"][0]]
        for o in call_fn_value(ex, st2, args[1], argv):
            yield o if o.kind != "return" else (o.st, o.value)


def m_opt_zip(ex, st, callee, args, dest_ty):
    a, b = args
    both = z3.simplify(z3.And(a.disc == 1, b.disc == 1))
    alts = {"None": ()}
    if "Some" in a.alts and "Some" in b.alts:
        alts["Some"] = (Adt("tuple", None, (a.alts["Some"][0], b.alts["Some"][0])),)
    yield st, En("Option", z3.simplify(z3.If(both, z3.IntVal(1), z3.IntVal(0))), alts)


def m_result_ok(ex, st, callee, args, dest_ty):
    v = args[0]
    alts = {"None": ()}
    if "Ok" in v.alts:
        alts["Some"] = v.alts["Ok"]
    yield st, En("Option", z3.simplify(z3.If(v.disc == 0, z3.IntVal(1), z3.IntVal(0))), alts)


def m_ok_or(ex, st, callee, args, dest_ty):
    v = args[0]
    alts = {"Err": (args[1],)}
    if "Some" in v.alts:
        alts["Ok"] = v.alts["Some"]
    yield st, En("Result", z3.simplify(z3.If(v.disc == 1, z3.IntVal(0), z3.IntVal(1))), alts)


def m_ok_or_else(ex, st, callee, args, dest_ty):
    v, f = args
    if "Some" in v.alts:
        for st2 in ex.branch(st, v.disc == 1):
            yield st2, ok(v.alts["Some"][0])
    for st2 in ex.branch(st, v.disc != 1):
        for o in call_fn_value(ex, st2, f, []):
            if o.kind != "return":
                yield o
            else:
                yield o.st, err(o.value)


def m_map_err(ex, st, callee, args, dest_ty):
    v = args[0]
    alts = {}
    if "Ok" in v.alts:
        alts["Ok"] = v.alts["Ok"]
    alts["Err"] = (Opaque("Error", info="map_err"),)
    yield st, En("Result", v.disc, alts)


def m_opt_map(ex, st, callee, args, dest_ty):
    """Option::map / Result::map with the closure executed from its MIR body"""
    v, f = args[0], args[1]
    good, goodidx, bad = ("Some", 1, "None") if ("Some" in v.alts or "None" in v.alts) else ("Ok", 0, "Err")
    for st2 in ex.branch(st, v.disc != goodidx):
        yield st2, En(v.ty, v.disc, {bad: v.alts.get(bad, ())})
    if good in v.alts:
        for st2 in ex.branch(st, v.disc == goodidx):
            for o in call_fn_value(ex, st2, f, [v.alts[good][0]]):
                if o.kind == "return":
                    yield o.st, En(v.ty, z3.IntVal(goodidx), {good: (o.value,)})
                else:
                    yield o


def call_fn_value(ex, st, f, argv):
    """call a closure / fn item value with positional arguments"""
    if not isinstance(f, FnV):
        f = deref(ex, st, f)
    if not isinstance(f, FnV):
        raise MirUnsupported("call of non-function value %r" % (f,))
    if f.name == "@const":  # a sub-evaluator standing for an arbitrary expression: yields its designated symbolic value
        yield Outcome("return", st, value=f.captures[0])
        return
    if f.name == "@model":  # python callback (state, argv) -> generator of (state, value)
        for st2, v in f.captures[0](ex, st, argv):
            yield Outcome("return", st2, value=v)
        return
    b = ex.bodies.get(f.name) if f.name else None
    if b is None and f.name:
        b = ex.resolve(f.name)
    if b is None and f.name:
        # a tuple-variant constructor used as a function (`.map(Value::Boolean)`, `map_or_else(.., Value::Boolean)`)
        segs = [re.sub(r"<.*>$", "", x) for x in re.sub(r"^fn\(.*\) -> .* \{(.*)\}$", r"\1", f.name).split("::")]
        if len(segs) >= 2 and segs[-2] in ex.enums and segs[-1] in ex.enums[segs[-2]]:
            yield Outcome("return", st, value=En(segs[-2], z3.IntVal(ex.enums[segs[-2]][segs[-1]]), {segs[-1]: tuple(argv)}))
            return
        if len(segs) >= 1 and segs[-1] in ("Some", "Ok", "Err") and len(argv) == 1:
            yield Outcome("return", st, value={"Some": some, "Ok": ok, "Err": err}[segs[-1]](argv[0]))
            return
    if b is None:
        yield from ex.call(st, f.name or "?", argv, None)
        return
    if "{closure" in b.name:
        env = Adt("closure", f.name, f.captures)
        selfarg = env
        if b.args and b.args[0][1].lstrip().startswith("&"):
            selfarg = Ref(ex.new_cell(st, env, "env"))
        yield from ex.run_body(st, b, [selfarg] + list(argv))
    else:
        yield from ex.run_body(st, b, list(argv))


def m_map_or(ex, st, callee, args, dest_ty):
    """Option::map_or(opt, default, f) / Result::map_or"""
    v, dflt, f = args
    good, goodidx = ("Some", 1) if ("Some" in v.alts or "None" in v.alts) else ("Ok", 0)
    for st2 in ex.branch(st, v.disc != goodidx):
        yield st2, dflt
    if good in v.alts:
        for st2 in ex.branch(st, v.disc == goodidx):
            for o in call_fn_value(ex, st2, f, [v.alts[good][0]]):
                yield o


def m_int_try_from(ex, st, callee, args, dest_ty):
    m = re.match(r"^<(\w+) as TryFrom<(\w+)>>::try_from$", callee)
    T = m.group(1)
    v = args[0]
    okc = z3.simplify(in_range(v.e, T))
    yield st, En("Result", z3.If(okc, z3.IntVal(0), z3.IntVal(1)), {"Ok": (Sc(v.e, T),), "Err": (Opaque("TryFromIntError"),)})


def m_or_else(ex, st, callee, args, dest_ty):
    v, f = args
    good, goodidx = ("Some", 1) if ("Some" in v.alts or "None" in v.alts) else ("Ok", 0)
    if good in v.alts:
        for st2 in ex.branch(st, v.disc == goodidx):
            yield st2, En(v.ty, z3.IntVal(goodidx), {good: v.alts[good]})
    for st2 in ex.branch(st, v.disc != goodidx):
        yield from call_fn_value(ex, st2, f, [] if good == "Some" else [v.alts["Err"][0]])


def m_map_err(ex, st, callee, args, dest_ty):
    """Result::map_err: Ok passes through, the closure (real code) turns the error"""
    v, f = args
    if "Ok" in v.alts:
        for st2 in ex.branch(st, v.disc == 0):
            yield st2, En(v.ty, z3.IntVal(0), {"Ok": v.alts["Ok"]})
    if "Err" in v.alts:
        for st2 in ex.branch(st, v.disc != 0):
            for o in call_fn_value(ex, st2, f, [v.alts["Err"][0]]):
                if o.kind == "return":
                    yield o.st, En(v.ty, z3.IntVal(1), {"Err": (o.value,)})
                else:
                    yield o


def m_map_or_else(ex, st, callee, args, dest_ty):
    """Option::map_or_else(default_fn, f) / Result::map_or_else(default_fn(err), f)"""
    v, dflt, f = args
    good, goodidx = ("Some", 1) if ("Some" in v.alts or "None" in v.alts) else ("Ok", 0)
    for st2 in ex.branch(st, v.disc != goodidx):
        yield from call_fn_value(ex, st2, dflt, [] if good == "Some" else [v.alts["Err"][0]])
    if good in v.alts:
        for st2 in ex.branch(st, v.disc == goodidx):
            yield from call_fn_value(ex, st2, f, [v.alts[good][0]])


def m_and_then(ex, st, callee, args, dest_ty):
    v, f = args
    good, goodidx, bad = ("Some", 1, "None") if ("Some" in v.alts or "None" in v.alts) else ("Ok", 0, "Err")
    for st2 in ex.branch(st, v.disc != goodidx):
        yield st2, En(v.ty, v.disc, {bad: v.alts.get(bad, ())})
    if good in v.alts:
        for st2 in ex.branch(st, v.disc == goodidx):
            yield from call_fn_value(ex, st2, f, [v.alts[good][0]])


def m_opt_filter(ex, st, callee, args, dest_ty):
    """Option::filter(pred): Some(x) stays iff pred(&x)"""
    v, f = args
    for st2 in ex.branch(st, v.disc != 1):
        yield st2, none(v.ty)
    if "Some" in v.alts:
        for st2 in ex.branch(st, v.disc == 1):
            x = v.alts["Some"][0]
            for o in call_fn_value(ex, st2, f, [Ref(ex.new_cell(st2, x, "filter_arg"))]):
                if o.kind != "return":
                    yield o
                    continue
                for st3 in ex.branch(o.st, o.value.e):
                    yield st3, En(v.ty, z3.IntVal(1), {"Some": (x,)})
                for st3 in ex.branch(o.st, z3.Not(o.value.e)):
                    yield st3, none(v.ty)


def m_fn_call(ex, st, callee, args, dest_ty):
    """<F as Fn/FnMut/FnOnce<Args>>::call*(f, (args,))"""
    f = args[0]
    tup = args[1]
    argv = list(tup.fields) if isinstance(tup, Adt) else [tup]
    m = re.match(r"^<&?(?:mut )?\{closure@([^}]*)\} as Fn", callee)
    if m and m.group(1).strip() in ex.closure_by_span:
        # the closure type names its body; a capture-less closure is a zero-sized value that MIR never initialises
        b = ex.closure_by_span[m.group(1).strip()]
        env = None
        try:
            env = deref(ex, st, f)
        except MirUnsupported:
            pass
        caps = env.captures if isinstance(env, FnV) else ()
        yield from call_fn_value(ex, st, FnV(b.name, caps, m.group(1).strip()), argv)
        return
    yield from call_fn_value(ex, st, f, argv)


# ----------------------------------------------------------------------------- integers / floats


def _int_ty_from(callee):
    m = re.search(r"<impl (i8|i16|i32|i64|i128|isize|u8|u16|u32|u64|u128|usize)>", callee) or \
        re.search(r"<&?(i8|i16|i32|i64|i128|isize|u8|u16|u32|u64|u128|usize) as ", callee)
    return m.group(1) if m else None


def m_int_abs(ex, st, callee, args, dest_ty):
    v = deref(ex, st, args[0])
    lo, hi = ty_range(v.ty)
    if getattr(ex, "overflow_checks", True):
        for st2 in ex.branch(st, v.e == lo):
            yield Outcome("panic", st2, msg="%s: attempt to negate with overflow (abs of MIN)" % callee)
        for st2 in ex.branch(st, v.e != lo):
            yield st2, Sc(z3.simplify(z3.If(v.e < 0, -v.e, v.e)), v.ty)
    else:
        yield st, Sc(z3.simplify(wrap(z3.If(v.e < 0, -v.e, v.e), v.ty)), v.ty)


def m_int_divrem(ex, st, callee, args, dest_ty):
    a, b = deref(ex, st, args[0]), deref(ex, st, args[1])
    lo, hi = ty_range(a.ty)
    isdiv = callee.endswith("::div")
    for st2 in ex.branch(st, b.e == 0):
        yield Outcome("panic", st2, msg="%s: division by zero" % callee)
    if lo < 0:
        for st2 in ex.branch(st, z3.And(a.e == lo, b.e == -1)):
            yield Outcome("panic", st2, msg="%s: overflow" % callee)
    for st2 in ex.branch(st, z3.And(b.e != 0, z3.Not(z3.And(a.e == lo, b.e == -1)) if lo < 0 else True)):
        yield st2, Sc(z3.simplify(tdiv(a.e, b.e) if isdiv else trem(a.e, b.e)), a.ty)


def m_int_methods(ex, st, callee, args, dest_ty):
    """std integer methods met in refactorings of arithmetic code: euclidean division, wrapping / saturating / checked variants, signum, abs_diff"""
    name = callee.rsplit("::", 1)[-1]
    a = deref(ex, st, args[0])
    b = deref(ex, st, args[1]) if len(args) > 1 else None
    lo, hi = ty_range(a.ty)
    sat = lambda r: z3.If(r < lo, z3.IntVal(lo), z3.If(r > hi, z3.IntVal(hi), r))
    opt = lambda okc, r, ty=None: En("Option", z3.If(okc, z3.IntVal(1), z3.IntVal(0)), {"None": (), "Some": (Sc(z3.simplify(r), ty or a.ty),)})
    if name in ("rem_euclid", "div_euclid", "checked_rem_euclid", "checked_div_euclid", "checked_div", "checked_rem"):
        ovf = z3.And(a.e == lo, b.e == -1) if lo < 0 else z3.BoolVal(False)
        babs = z3.If(b.e < 0, -b.e, b.e)
        r = {"rem_euclid": a.e % babs, "div_euclid": a.e / b.e, "div": tdiv(a.e, b.e), "rem": trem(a.e, b.e)}[name.replace("checked_", "")]
        if name.startswith("checked_"):
            for st2 in ex.branch(st, b.e == 0):
                yield st2, none()
            for st2 in ex.branch(st, b.e != 0):
                yield st2, opt(z3.Not(ovf), r)
            return
        for st2 in ex.branch(st, b.e == 0):
            yield Outcome("panic", st2, msg="%s: division by zero" % callee)
        if lo < 0:
            for st2 in ex.branch(st, ovf):
                yield Outcome("panic", st2, msg="%s: overflow" % callee)
        for st2 in ex.branch(st, z3.And(b.e != 0, z3.Not(ovf))):
            yield st2, Sc(z3.simplify(r), a.ty)
        return
    if name in ("wrapping_add", "wrapping_sub", "wrapping_mul"):
        r = {"add": a.e + b.e, "sub": a.e - b.e, "mul": a.e * b.e}[name[9:]]
        yield st, Sc(z3.simplify(wrap(r, a.ty)), a.ty)
    elif name in ("saturating_add", "saturating_sub", "saturating_mul"):
        r = {"add": a.e + b.e, "sub": a.e - b.e, "mul": a.e * b.e}[name[11:]]
        yield st, Sc(z3.simplify(sat(r)), a.ty)
    elif name == "wrapping_neg":
        yield st, Sc(z3.simplify(wrap(-a.e, a.ty)), a.ty)
    elif name == "wrapping_abs":
        yield st, Sc(z3.simplify(wrap(z3.If(a.e < 0, -a.e, a.e), a.ty)), a.ty)
    elif name == "checked_neg":
        yield st, opt(in_range(-a.e, a.ty), -a.e)
    elif name == "checked_abs":
        yield st, opt(a.e != lo, z3.If(a.e < 0, -a.e, a.e))
    elif name == "signum":
        yield st, Sc(z3.simplify(z3.If(a.e < 0, z3.IntVal(-1), z3.If(a.e == 0, z3.IntVal(0), z3.IntVal(1)))), a.ty)
    elif name == "is_negative":
        yield st, mk_bool(z3.simplify(a.e < 0))
    elif name == "is_positive":
        yield st, mk_bool(z3.simplify(a.e > 0))
    elif name == "abs_diff":
        yield st, Sc(z3.simplify(z3.If(a.e < b.e, b.e - a.e, a.e - b.e)), "u" + a.ty[1:] if a.ty[0] == "i" else a.ty)
    else:
        raise MirUnsupported("integer method " + callee)


def m_int_default(ex, st, callee, args, dest_ty):
    yield st, mk_int(0, _int_ty_from(callee) or dest_ty)


def m_int_partial_cmp(ex, st, callee, args, dest_ty):
    a, b = deref(ex, st, args[0]), deref(ex, st, args[1])
    yield st, some(ordering(z3.If(a.e < b.e, z3.IntVal(-1), z3.If(a.e == b.e, z3.IntVal(0), z3.IntVal(1)))))


def m_int_cmp(ex, st, callee, args, dest_ty):
    a, b = deref(ex, st, args[0]), deref(ex, st, args[1])
    yield st, ordering(z3.If(a.e < b.e, z3.IntVal(-1), z3.If(a.e == b.e, z3.IntVal(0), z3.IntVal(1))))


def m_int_ordop(ex, st, callee, args, dest_ty):
    a, b = deref(ex, st, args[0]), deref(ex, st, args[1])
    op = callee.rsplit("::", 1)[1]
    r = {"lt": a.e < b.e, "le": a.e <= b.e, "gt": a.e > b.e, "ge": a.e >= b.e}[op]
    yield st, mk_bool(z3.simplify(r))


def m_f64_trunc(ex, st, callee, args, dest_ty):
    yield st, Sc(z3.fpRoundToIntegral(z3.RTZ(), args[0].e), "f64")


def m_checked_arith(ex, st, callee, args, dest_ty):
    a, b = args[0], args[1]
    op = re.search(r"checked_(add|sub|mul)", callee).group(1)
    r = {"add": a.e + b.e, "sub": a.e - b.e, "mul": a.e * b.e}[op]
    okc = z3.simplify(in_range(r, a.ty))
    yield st, En("Option", z3.If(okc, z3.IntVal(1), z3.IntVal(0)), {"None": (), "Some": (Sc(z3.simplify(r), a.ty),)})


# ----------------------------------------------------------------------------- parsing of modelled strings


def m_str_parse(ex, st, callee, args, dest_ty):
    """str::parse::<T> on a StrV that carries a `digits` model: (value n : Int, ndigits k) [optionally `neg`]"""
    s = deref(ex, st, args[0])
    T = re.search(r"parse::<(.*)>$", callee).group(1)
    if T in INT_TYPES:
        if s.const is not None:
            try:
                v = int(s.const)
                lo, hi = ty_range(T)
                if lo <= v <= hi and re.match(r"^[+-]?[0-9]+$", s.const):
                    yield st, ok(mk_int(v, T))
                    return
            except ValueError:
                pass
            yield st, err(Opaque("ParseIntError"))
            return
        if "digits" in s.attrs:
            n, k = s.attrs["digits"]
            okc = z3.simplify(in_range(n, T))
            yield st, En("Result", z3.If(okc, z3.IntVal(0), z3.IntVal(1)), {"Ok": (Sc(n, T),), "Err": (Opaque("ParseIntError"),)})
            return
        raise MirUnsupported("parse::<%s> of unmodelled string %r" % (T, s))
    if T == "f64":
        if "frac" in s.attrs:  # ".ddd": n with exactly k digits -> correctly rounded n / 10^k
            n, k, nbv = s.attrs["frac"]
            F = z3.Float64()
            if k > 15:
                raise MirUnsupported("a %d-digit fraction is not exactly representable" % k)
            # n < 10^15 < 2^53 and 10^k are exactly representable, so the correctly rounded quotient of the two
            # doubles is the correctly rounded value of the decimal text (what a correct str::parse::<f64> returns)
            if nbv is None:  # bit-vector twin of the Int digit value, only needed on this floating-point path
                nbv = z3.BitVec(ex.fresh_name("fracbv"), 64)
                ex.assume(st, z3.And(z3.ULT(nbv, z3.BitVecVal(10 ** k, 64)), z3.BV2Int(nbv, False) == n))
            num = z3.fpUnsignedToFP(z3.RNE(), nbv, F)
            den = z3.FPVal(float(10 ** k), F)
            yield st, ok(Sc(z3.fpDiv(z3.RNE(), num, den), "f64"))
            return
        raise MirUnsupported("parse::<f64> of unmodelled string %r" % (s,))
    raise MirUnsupported("parse::<%s>" % T)


def m_str_len(ex, st, callee, args, dest_ty):
    s = deref(ex, st, args[0])
    if s.const is not None:
        yield st, mk_int(len(s.const.encode("utf-8")), "usize")
    elif "digits" in s.attrs:
        yield st, mk_int(s.attrs["digits"][1], "usize")
    elif "frac" in s.attrs:
        yield st, mk_int(s.attrs["frac"][1] + 1, "usize")
    elif "z3s" in s.attrs:
        yield st, Sc(z3.Length(s.attrs["z3s"]), "usize")
    else:
        raise MirUnsupported("len of %r" % (s,))


def m_str_index_range(ex, st, callee, args, dest_ty):
    """<str as Index<RangeFrom/RangeTo/Range<usize>>>::index on digit-string models (ASCII, so bytes = chars)"""
    s = deref(ex, st, args[0])
    r = args[1]
    kind = re.search(r"Index<(?:std::ops::)?(RangeFrom|RangeTo|Range)<usize>>", callee).group(1)
    lo = ex.concrete(r.fields[0].e) if kind in ("RangeFrom", "Range") else 0
    hi = ex.concrete(r.fields[-1].e) if kind in ("RangeTo", "Range") else None
    if lo is None or (kind != "RangeFrom" and hi is None):
        raise MirUnsupported("string slicing with symbolic bounds")
    if s.const is not None:
        b = s.const.encode("utf-8")
        h = len(b) if hi is None else hi
        if lo > h or h > len(b):
            yield Outcome("panic", st, msg="str slice index out of range")
            return
        yield st, StrV(b[lo:h].decode("utf-8"))
        return
    if "frac" in s.attrs:
        n, k, _bv = s.attrs["frac"]
        if lo == 0:
            raise MirUnsupported("slice of a fraction that keeps the dot")
        cur = (n, k)
        lo -= 1
        if hi is not None:
            hi -= 1
    elif "digits" in s.attrs:
        cur = s.attrs["digits"]
    else:
        raise MirUnsupported("slice of %r" % (s,))
    n, k = cur
    h = k if hi is None else hi
    if lo > h or h > k:
        yield Outcome("panic", st, msg="str slice index out of range (byte index %s of a %d-digit string)" % (h, k))
        return
    # digits lo..h of a k-digit string with value n
    v = (n / (10 ** (k - h))) % (10 ** (h - lo)) if (k - h) or lo else n
    yield st, StrV(None, digits=(z3.simplify(v), h - lo))


def m_int_pow(ex, st, callee, args, dest_ty):
    b, e = args[0], args[1]
    ce = ex.concrete(e.e)
    if ce is None:
        raise MirUnsupported("pow with a symbolic exponent")
    r = z3.simplify(b.e ** ce) if ce > 0 else z3.IntVal(1)
    cb = ex.concrete(b.e)
    if cb is not None:
        r = z3.IntVal(cb ** ce)
    okc = z3.simplify(in_range(r, b.ty))
    if getattr(ex, "overflow_checks", True):
        for st2 in ex.branch(st, z3.Not(okc)):
            yield Outcome("panic", st2, msg="%s: attempt to multiply with overflow" % callee)
        for st2 in ex.branch(st, okc):
            yield st2, Sc(r, b.ty)
    else:
        yield st, Sc(z3.simplify(wrap(r, b.ty)), b.ty)


# ----------------------------------------------------------------------------- regex captures (shape supplied by the check)


def m_lazy_deref(ex, st, callee, args, dest_ty):
    m = re.match(r"^<(?:[a-z_]+::)*([A-Z][A-Z0-9_]+) as Deref>::deref$", callee)
    if not m:
        return NotImplemented

    def g():
        yield st, Ref(("static", m.group(1)))
    return g()


def m_regex_captures(ex, st, callee, args, dest_ty):
    rx = args[0]
    name = rx.cell[1] if isinstance(rx, Ref) and rx.cell[0] == "static" else None
    fn = getattr(ex, "capture_model", None)
    if fn is None:
        raise MirUnsupported("Regex::captures without a capture model")
    yield from fn(ex, st, name, deref(ex, st, args[1]))


def m_captures_name(ex, st, callee, args, dest_ty):
    caps = deref(ex, st, args[0])
    nm = deref(ex, st, args[1]).const
    g = caps.info.get(nm, None)
    if g is None:
        yield st, none()
    elif isinstance(g, tuple):  # (present: z3 Bool, StrV)
        yield st, En("Option", z3.If(g[0], z3.IntVal(1), z3.IntVal(0)), {"None": (), "Some": (Opaque("Match", info=g[1]),)})
    else:
        yield st, some(Opaque("Match", info=g))


def m_match_as_str(ex, st, callee, args, dest_ty):
    yield st, deref(ex, st, args[0]).info


# ----------------------------------------------------------------------------- formatting


def parse_bytes_literal(t):
    """text between b"..." as printed by rustc -> bytes"""
    out = bytearray()
    i = 0
    while i < len(t):
        c = t[i]
        if c == "\\":
            n = t[i + 1]
            if n == "x":
                out.append(int(t[i + 2:i + 4], 16))
                i += 4
                continue
            out.append({"n": 10, "t": 9, "r": 13, "0": 0, "\\": 92, '"': 34, "'": 39}[n])
            i += 2
            continue
        out += c.encode("utf-8")
        i += 1
    return bytes(out)


def decode_fmt_template(bs):
    """core::fmt::rt template (rustc nightly 2026): list of ('lit', str) | ('arg', dict(flags, width, precision, index))"""
    out = []
    i = 0
    nextarg = 0
    while i < len(bs):
        b = bs[i]
        i += 1
        if b == 0:
            break
        if b < 0x80:
            out.append(("lit", bs[i:i + b].decode("utf-8")))
            i += b
        elif b == 0x80:
            n = int.from_bytes(bs[i:i + 2], "little")
            i += 2
            out.append(("lit", bs[i:i + n].decode("utf-8")))
            i += n
        elif b >= 0xC0:
            spec = dict(flags=None, width=None, precision=None, index=None)
            if b & 1:
                spec["flags"] = int.from_bytes(bs[i:i + 4], "little")
                i += 4
            if b & 2:
                spec["width"] = int.from_bytes(bs[i:i + 2], "little")
                i += 2
            if b & 4:
                spec["precision"] = int.from_bytes(bs[i:i + 2], "little")
                i += 2
            if b & 8:
                spec["index"] = int.from_bytes(bs[i:i + 2], "little")
                i += 2
            if b & 0x30:
                raise MirUnsupported("format placeholder byte %#x" % b)
            if spec["index"] is None:
                spec["index"] = nextarg
            nextarg = spec["index"] + 1
            fl = spec["flags"] or 0
            spec["plus"] = bool(fl & (1 << 21))
            spec["zero"] = bool(fl & (1 << 24))
            spec["fill"] = chr(fl & 0x1FFFFF) if spec["flags"] is not None else " "
            spec["other"] = fl & ((1 << 22) | (1 << 23) | (1 << 25) | (1 << 26))
            out.append(("arg", spec))
        else:
            raise MirUnsupported("format template byte %#x" % b)
    return out


def m_fmt_argument(ex, st, callee, args, dest_ty):
    kind = re.search(r"new_(display|debug|lower_hex|upper_hex)", callee).group(1)
    yield st, Opaque("FmtArg", info=(kind, deref(ex, st, args[0])))


def m_fmt_arguments_new(ex, st, callee, args, dest_ty):
    tpl = deref(ex, st, args[0])
    arr = deref(ex, st, args[1])
    pieces = decode_fmt_template(parse_bytes_literal(tpl.info))
    argv = list(arr.fields) if isinstance(arr, Adt) else []
    out = []
    for k, p in pieces:
        if k == "lit":
            out.append(("lit", p))
        else:
            a = argv[p["index"]]
            out.append(("arg", a.info[0], a.info[1], p))
    yield st, Opaque("Arguments", info=tuple(out))


def m_fmt_from_str(ex, st, callee, args, dest_ty):
    yield st, Opaque("Arguments", info=(("lit", deref(ex, st, args[0]).const),))


def expand_pieces(ex, st, pieces):
    """flatten Display arguments of crate types by running their own fmt body; generator of (st, flat pieces)"""
    def rec(st, todo, acc):
        if not todo:
            yield st, tuple(acc)
            return
        p = todo[0]
        if p[0] == "arg" and isinstance(p[2], (Adt, En)) and p[1] == "display":
            v = p[2]
            b = None
            for cand in ex.by_last.get("fmt", []):
                ih = ex.impl_header(cand)
                if ih and ih[0] == _base_name(v.ty or "") and ih[1] == "Display":
                    b = cand
            if b is None:
                raise MirUnsupported("no Display impl body for %r" % (v,))
            fcell = ex.new_cell(st, Opaque("Formatter", info=()), "fmt")
            vcell = ex.new_cell(st, v, "fmtarg")
            for o in ex.run_body(st, b, [Ref(vcell), Ref(fcell)]):
                if o.kind != "return":
                    yield o
                    continue
                inner = o.st.cells[fcell].info
                yield from rec(o.st, todo[1:], acc + list(inner))
        else:
            yield from rec(st, todo[1:], acc + [p])
    yield from rec(st, list(pieces), [])


def m_write_fmt(ex, st, callee, args, dest_ty):
    f = args[0]
    a = deref(ex, st, args[1])
    for item in expand_pieces(ex, st, a.info):
        if isinstance(item, Outcome):
            yield item
            continue
        st2, flat = item
        cur = deref(ex, st2, f)
        ex.write(st2, f.cell, f.projs, Opaque("Formatter", info=tuple(cur.info) + tuple(flat)))
        yield st2, ok(UNIT)


def m_write_str(ex, st, callee, args, dest_ty):
    f = args[0]
    cur = deref(ex, st, f)
    s = deref(ex, st, args[1])
    ex.write(st, f.cell, f.projs, Opaque("Formatter", info=tuple(cur.info) + ((("lit", s.const),) if s.const is not None else (("arg", "display", s, {}),))))
    yield st, ok(UNIT)


def m_fmt_format(ex, st, callee, args, dest_ty):
    a = deref(ex, st, args[0])
    for item in expand_pieces(ex, st, a.info):
        if isinstance(item, Outcome):
            yield item
            continue
        st2, flat = item
        if all(p[0] == "lit" for p in flat):
            yield st2, StrV("".join(p[1] for p in flat))
        else:
            yield st2, StrV(None, pieces=flat)


def m_to_string_display(ex, st, callee, args, dest_ty):
    """<T as ToString>::to_string for crate types with a Display impl"""
    v = deref(ex, st, args[0])
    if isinstance(v, StrV):
        yield st, v
        return
    for item in expand_pieces(ex, st, (("arg", "display", v, {}),)):
        if isinstance(item, Outcome):
            yield item
            continue
        st2, flat = item
        yield st2, StrV(None, pieces=flat)


def m_try_into(ex, st, callee, args, dest_ty):
    """blanket impls: <A as TryInto<B>>::try_into = <B as TryFrom<A>>::try_from ; <A as Into<B>>::into = <B as From<A>>::from"""
    m = re.match(r"^<(.*) as (Try)?Into<(.*)>>::(try_)?into$", callee, re.S)
    a, b = m.group(1), m.group(3)
    tgt = "<%s as %sFrom<%s>>::%sfrom" % (b, "Try" if m.group(2) else "", a, "try_" if m.group(2) else "")
    if ex.resolve(tgt) is None and not any(p.search(tgt) for p, f in ex.models if f is not m_try_into):
        return NotImplemented
    return ex.call(st, tgt, args, dest_ty)


# ----------------------------------------------------------------------------- Vec / ranges


def _vec_at(ex, st, r):
    v = deref(ex, st, r)
    if not isinstance(v, VecV):
        raise MirUnsupported("Vec operation on %r" % (v,))
    return v


def m_vec_new(ex, st, callee, args, dest_ty):
    yield st, VecV(z3.IntVal(0), ())


def m_vec_len(ex, st, callee, args, dest_ty):
    yield st, Sc(_vec_at(ex, st, args[0]).len, "usize")


def m_vec_is_empty(ex, st, callee, args, dest_ty):
    yield st, mk_bool(z3.simplify(_vec_at(ex, st, args[0]).len == 0))


def _base_ref(ex, st, r):
    """follow a chain of references (&mut &mut Vec, RefMut, ..) to the reference that points at the container itself"""
    base = r
    while isinstance(base, Ref) and isinstance(ex.read(st, base.cell, base.projs), Ref):
        base = ex.read(st, base.cell, base.projs)
    return base


def m_vec_push(ex, st, callee, args, dest_ty):
    r = _base_ref(ex, st, args[0])
    v = _vec_at(ex, st, r)
    for st2, n in ex.enum_values(st, v.len, limit=len(v.items) + 2):
        v2 = _vec_at(ex, st2, r)
        ex.write(st2, r.cell, r.projs, VecV(z3.IntVal(n + 1), tuple(v2.items[:n]) + (args[1],), v2.elem_ty))
        yield st2, UNIT


def m_vec_append(ex, st, callee, args, dest_ty):
    """Vec::append(&mut self, &mut other): moves all items of `other` to the end of `self`, leaving `other` empty"""
    r, o = _base_ref(ex, st, args[0]), _base_ref(ex, st, args[1])
    v, w = _vec_at(ex, st, r), _vec_at(ex, st, o)
    for st1, n in ex.enum_values(st, v.len, limit=len(v.items) + 2):
        for st2, m in ex.enum_values(st1, w.len, limit=len(w.items) + 2):
            v2, w2 = _vec_at(ex, st2, r), _vec_at(ex, st2, o)
            ex.write(st2, r.cell, r.projs, VecV(z3.IntVal(n + m), tuple(v2.items[:n]) + tuple(w2.items[:m]), v2.elem_ty))
            ex.write(st2, o.cell, o.projs, VecV(z3.IntVal(0), (), w2.elem_ty))
            yield st2, UNIT


def m_vec_insert(ex, st, callee, args, dest_ty):
    r = _base_ref(ex, st, args[0])
    v = _vec_at(ex, st, r)
    for st1, n in ex.enum_values(st, v.len, limit=len(v.items) + 2):
        for st2 in ex.branch(st1, args[1].e > n):
            yield Outcome("panic", st2, msg="insertion index (is %s) should be <= len (is %d)" % (args[1].e, n))
        for st2 in ex.branch(st1, args[1].e <= n):
            for st3, k in ex.enum_values(st2, args[1].e, limit=n + 2):
                v2 = _vec_at(ex, st3, r)
                items = tuple(v2.items[:k]) + (args[2],) + tuple(v2.items[k:n])
                ex.write(st3, r.cell, r.projs, VecV(z3.IntVal(n + 1), items, v2.elem_ty))
                yield st3, UNIT


def m_vec_pop(ex, st, callee, args, dest_ty):
    r = _base_ref(ex, st, args[0])
    v = _vec_at(ex, st, r)
    for st2, n in ex.enum_values(st, v.len, limit=len(v.items) + 2):
        v2 = _vec_at(ex, st2, r)
        if n == 0:
            yield st2, none()
        else:
            ex.write(st2, r.cell, r.projs, VecV(z3.IntVal(n - 1), tuple(v2.items[:n - 1]), v2.elem_ty))
            yield st2, some(v2.items[n - 1])


def m_vec_index(ex, st, callee, args, dest_ty):
    r = _base_ref(ex, st, args[0])
    v = _vec_at(ex, st, r)
    i = args[1]
    for st2 in ex.branch(st, i.e >= v.len):
        yield Outcome("panic", st2, msg="index out of bounds: the len is %s but the index is %s" % (v.len, i.e))
    for st2 in ex.branch(st, i.e < v.len):
        for st3, k in ex.enum_values(st2, i.e, limit=len(v.items) + 2):
            if k >= len(v.items):
                raise MirUnsupported("Vec model shorter than a feasible index")
            if isinstance(r, Ref):
                yield st3, Ref(r.cell, r.projs + (("index", k),))
            else:
                yield st3, v.items[k]


def m_range_into_iter(ex, st, callee, args, dest_ty):
    yield st, args[0]


def m_range_next(ex, st, callee, args, dest_ty):
    r = args[0]
    rng = deref(ex, st, r)
    lo, hi = rng.fields[0], rng.fields[1]
    for st2 in ex.branch(st, lo.e < hi.e):
        ex.write(st2, r.cell, r.projs, Adt(rng.kind, rng.ty, (Sc(z3.simplify(lo.e + 1), lo.ty), hi)))
        yield st2, some(lo)
    for st2 in ex.branch(st, lo.e >= hi.e):
        yield st2, none()


def m_range_incl_new(ex, st, callee, args, dest_ty):
    yield st, Adt("struct", "RangeInclusive", (args[0], args[1]))


def m_range_contains(ex, st, callee, args, dest_ty):
    rng = deref(ex, st, args[0])
    x = deref(ex, st, args[1])
    lo, hi = rng.fields[0], rng.fields[1]
    incl = "RangeInclusive" in callee
    yield st, mk_bool(z3.simplify(z3.And(x.e >= lo.e, x.e <= hi.e if incl else x.e < hi.e)))


def m_box_new_uninit(ex, st, callee, args, dest_ty):
    """Box::<[T; N]>::new_uninit(): the `vec![..]` lowering writes the array through MaybeUninit.value(.1) / ManuallyDrop(.0) / MaybeDangling(.0)"""
    inner = Adt("struct", "MaybeUninit", (UNIT, Adt("struct", "ManuallyDrop", (Adt("struct", "MaybeDangling", (Opaque("uninit"),)),))))
    yield st, Ref(ex.new_cell(st, inner, "box"))


def m_box_into_vec(ex, st, callee, args, dest_ty):
    b = args[0]
    v = ex.read(st, b.cell, b.projs)
    arr = v.fields[1].fields[0].fields[0]
    if not (isinstance(arr, Adt) and arr.kind == "array"):
        raise MirUnsupported("vec![..] array was not initialised: %r" % (arr,))
    yield st, VecV(z3.IntVal(len(arr.fields)), arr.fields, "T")


def m_box_new(ex, st, callee, args, dest_ty):
    yield st, Ref(ex.new_cell(st, args[0], "box"))


def m_ref_forward(ex, st, callee, args, dest_ty):
    """std's forwarding impls `impl Trait for &T`: <&A as Trait<&B>>::m(a, b) = <A as Trait<B>>::m(*a, *b)"""
    m = re.match(r"^<&(.+) as ([A-Za-z]+)(<&(.*)>)?>::(\w+)$", callee, re.S)
    if not m:
        return NotImplemented
    tgt = "<%s as %s%s>::%s" % (m.group(1), m.group(2), "<%s>" % m.group(4) if m.group(4) else "", m.group(5))
    argv = [ex.read(st, a.cell, a.projs) if isinstance(a, Ref) and isinstance(ex.read(st, a.cell, a.projs), Ref) else a for a in args]
    return ex.call(st, tgt, argv, dest_ty)


def m_format_stub(ex, st, callee, args, dest_ty):
    """diagnostic text (null(...) traces, error messages) is no part of any property: empty string"""
    yield st, StrV("")


def m_tuple_cmp(ex, st, callee, args, dest_ty):
    """<(A, B, ..) as Ord>::cmp / PartialOrd::partial_cmp on tuples of integers: lexicographic"""
    a, b = deref(ex, st, args[0]), deref(ex, st, args[1])
    r = z3.IntVal(0)
    for x, y in reversed(list(zip(a.fields, b.fields))):
        if not (isinstance(x, Sc) and isinstance(y, Sc)):
            raise MirUnsupported("tuple comparison over %r" % (x,))
        r = z3.If(x.e < y.e, z3.IntVal(-1), z3.If(x.e > y.e, z3.IntVal(1), r))
    o = ordering(z3.simplify(r))
    yield st, (some(o) if callee.endswith("partial_cmp") else o)


def m_ne_via_eq(ex, st, callee, args, dest_ty):
    """provided method PartialEq::ne = !eq for crate types with an eq body"""
    tgt = callee[:-4] + "::eq"
    if ex.resolve(tgt) is None:
        return NotImplemented

    def g():
        for o in ex.call(st, tgt, args, dest_ty):
            if o.kind != "return":
                yield o
            else:
                yield o.st, mk_bool(z3.simplify(z3.Not(o.value.e)))
    return g()


def m_box_eq(ex, st, callee, args, dest_ty):
    m = re.match(r"^<Box<(.*)> as PartialEq>::(eq|ne)$", callee)
    a, b = args
    ia = ex.read(st, a.cell, a.projs) if isinstance(a, Ref) else a
    ib = ex.read(st, b.cell, b.projs) if isinstance(b, Ref) else b
    return ex.call(st, "<%s as PartialEq>::%s" % (m.group(1), m.group(2)), [ia, ib], dest_ty)


def m_vec_eq(ex, st, callee, args, dest_ty):
    m = re.match(r"^<Vec<(.*)> as PartialEq>::eq$", callee)
    a, b = deref(ex, st, args[0]), deref(ex, st, args[1])
    na, nb = ex.concrete(a.len), ex.concrete(b.len)
    if na is None or nb is None:
        raise MirUnsupported("equality of vectors of symbolic length")
    if na != nb:
        yield st, mk_bool(False)
        return
    body = ex.resolve("<%s as PartialEq>::eq" % m.group(1))
    conj = []
    for x, y in zip(a.items[:na], b.items[:nb]):
        o = ex._merged_call(st, body, [Ref(ex.new_cell(st, x, "eq")), Ref(ex.new_cell(st, y, "eq"))]) if body is not None else None
        if o is None:
            raise MirUnsupported("element equality could not be summarised")
        conj.append(o.value.e)
    yield st, mk_bool(z3.simplify(z3.And(conj)) if conj else True)


def m_opaque_error(ex, st, callee, args, dest_ty):
    yield st, Opaque("Error", info=callee)


def m_unit(ex, st, callee, args, dest_ty):
    yield st, UNIT


BASE_MODELS = [
    (R(r"^<[A-Za-z_:]*[A-Z][A-Z0-9_]+ as Deref>::deref$"), m_lazy_deref),
    (R(r"^<((std::string::)?String|Vec<.*>|&.*) as Deref(Mut)?>::deref(_mut)?$"), m_deref_identity),
    (R(r"^(std::string::)?String::as_str$|^<String as AsRef<str>>::as_ref$|^String::as_mut_str$|^<str as AsRef<str>>::as_ref$"), m_deref_identity),
    (R(r"^Vec::<.*>::as_(mut_)?slice$|^<Vec<.*> as AsRef<\[.*\]>>::as_ref$|^<Vec<.*> as Borrow<\[.*\]>>::borrow$"), m_deref_identity),
    (R(r" as Clone>::clone$| as ToOwned>::to_owned$"), m_clone),
    (R(r"^<str as ToString>::to_string$|^<String as ToString>::to_string$|^<str as ToOwned>::to_owned$|^<String as From<&str>>::from$|^must_use::<.*>$|^<&str as Into<String>>::into$|^<&str as ToString>::to_string$"), m_clone),
    (R(r" as PartialEq(<.*>)?>::(eq|ne)$"), m_partial_eq),
    (R(r"^<(std::option::)?Option<.*> as PartialEq>::(eq|ne)$"), m_option_eq),
    (R(r"^<&.+ as (PartialEq|PartialOrd|Ord)(<&.*>)?>::\w+$"), m_ref_forward),
    (R(r"^<[A-Z]\w* as PartialEq>::ne$"), m_ne_via_eq),
    (R(r"^<Box<.*> as PartialEq>::(eq|ne)$"), m_box_eq),
    (R(r"^<Vec<.*> as PartialEq>::eq$"), m_vec_eq),
    (R(r"^Option::<.*>::as_ref$"), m_opt_as_ref),
    (R(r"^Option::<.*>::is_some$"), m_is_some),
    (R(r"^Option::<.*>::is_none$"), m_is_none),
    (R(r"^Result::<.*>::is_ok$"), m_is_ok),
    (R(r"^Result::<.*>::is_err$"), m_is_err),
    (R(r" as Try>::branch$"), m_try_branch),
    (R(r" as FromResidual<.*>>::from_residual$"), m_from_residual),
    (R(r"^(Option|Result)::<.*>::(unwrap|expect|unwrap_err)$"), m_unwrap),
    (R(r"^<&?bool as (std::ops::)?Not>::not$"), m_bool_not),
    (R(r"^(Option|Result)::<.*>::unwrap_or$"), m_unwrap_or),
    (R(r"^(Option|Result)::<.*>::unwrap_or_else::<.*>$"), m_unwrap_or_else),
    (R(r"^Option::<.*>::zip::<.*>$"), m_opt_zip),
    (R(r"^Result::<.*>::ok$"), m_result_ok),
    (R(r"^Option::<.*>::ok_or::<.*>$"), m_ok_or),
    (R(r"^Option::<.*>::ok_or_else::<.*>$"), m_ok_or_else),
    (R(r"^(Option|Result)::<.*>::map::<.*>$"), m_opt_map),
    (R(r"^(Option|Result)::<.*>::map_or::<.*>$"), m_map_or),
    (R(r"^Result::<.*>::map_err::<.*>$"), m_map_err),
    (R(r"^(Option|Result)::<.*>::map_or_else::<.*>$"), m_map_or_else),
    (R(r"^(Option|Result)::<.*>::or_else::<.*>$"), m_or_else),
    (R(r"^(Option|Result)::<.*>::and_then::<.*>$"), m_and_then),
    (R(r"^Option::<.*>::filter::<.*>$"), m_opt_filter),
    (R(r"^<Box<.*> as Drop>::drop$"), lambda ex, st, c, a, d: iter([(st, UNIT)])),
    (R(r"^char::methods::<impl char>::is_ascii$"), lambda ex, st, c, a, d: iter([(st, mk_bool(z3.simplify(deref(ex, st, a[0]).e < 128)))])),
    (R(r"^char::methods::<impl char>::is_control$"), lambda ex, st, c, a, d: iter([(st, mk_bool(z3.simplify(
        z3.Or(a[0].e < 32, z3.And(a[0].e >= 127, a[0].e <= 159)))))])),
    (R(r"^char::methods::<impl char>::is_ascii_(digit|control)$"), lambda ex, st, c, a, d: iter([(st, mk_bool(z3.simplify(
        (lambda x: z3.And(x >= 48, x <= 57) if c.endswith("digit") else z3.Or(x < 32, x == 127))(deref(ex, st, a[0]).e))))])),
    (R(r"^<(i|u)(\d+|size) as Ord>::(min|max)$|^(std|core)::cmp::(min|max)::<(i|u)(\d+|size)>$"), lambda ex, st, c, a, d: iter([(st, Sc(z3.simplify(
        z3.If(a[0].e <= a[1].e, a[0].e, a[1].e) if "min" in c.rsplit("::", 1)[-1] or "::min::" in c else z3.If(a[0].e >= a[1].e, a[0].e, a[1].e)), a[0].ty))])),
    (R(r"^<(i|u)(\d+|size) as TryFrom<(i|u)(\d+|size)>>::try_from$"), m_int_try_from),
    (R(r" as Fn(Mut|Once)?<.*>>::call(_mut|_once)?$"), m_fn_call),
    (R(r"^core::num::<impl i\d+>::abs$|^core::num::<impl isize>::abs$"), m_int_abs),
    (R(r"^core::num::<impl i(\d+|size)>::unsigned_abs$"), lambda ex, st, c, a, d: iter([(st, Sc(z3.simplify(z3.If(a[0].e < 0, -a[0].e, a[0].e)), "u" + a[0].ty[1:]))])),
    (R(r"^core::num::<impl i(\d+|size)>::saturating_abs$"), lambda ex, st, c, a, d: iter([(st, Sc(z3.simplify(
        z3.If(a[0].e >= 0, a[0].e, z3.If(a[0].e == ty_range(a[0].ty)[0], z3.IntVal(ty_range(a[0].ty)[1]), -a[0].e))), a[0].ty))])),
    (R(r"^<&?(i|u)(\d+|size) as (Div|Rem)(<.*>)?>::(div|rem)$"), m_int_divrem),
    (R(r"^<(i|u)(\d+|size) as Default>::default$"), m_int_default),
    (R(r"^<(std::option::)?Option<.*> as Default>::default$"), lambda ex, st, c, a, d: iter([(st, none())])),
    (R(r"^<bool as Default>::default$"), lambda ex, st, c, a, d: iter([(st, mk_bool(False))])),
    (R(r"^<(std::string::)?String as Default>::default$"), lambda ex, st, c, a, d: iter([(st, StrV(""))])),
    (R(r"^<(i|u)(\d+|size) as PartialOrd>::partial_cmp$"), m_int_partial_cmp),
    (R(r"^<(i|u)(\d+|size) as Ord>::cmp$"), m_int_cmp),
    (R(r"^<\(.*\) as (Ord>::cmp|PartialOrd>::partial_cmp)$"), m_tuple_cmp),
    (R(r"^<(i|u)(\d+|size) as PartialOrd>::(lt|le|gt|ge)$"), m_int_ordop),
    (R(r"^core::num::<impl (i|u)(\d+|size)>::checked_(add|sub|mul)$"), m_checked_arith),
    (R(r"^core::num::<impl (i|u)(\d+|size)>::(rem_euclid|div_euclid|checked_rem_euclid|checked_div_euclid|checked_div|checked_rem|wrapping_add|wrapping_sub|wrapping_mul|"
       r"saturating_add|saturating_sub|saturating_mul|wrapping_neg|wrapping_abs|checked_neg|checked_abs|signum|is_negative|is_positive|abs_diff)$"), m_int_methods),
    (R(r"^std::f64::<impl f64>::trunc$"), m_f64_trunc),
    (R(r"^core::str::<impl str>::parse::<.*>$"), m_str_parse),
    (R(r"^core::str::<impl str>::len$|^String::len$"), m_str_len),
    (R(r"^<str as Index<(std::ops::)?Range(From|To)?<usize>>>::index$"), m_str_index_range),
    (R(r"^core::num::<impl (i|u)(\d+|size)>::pow$"), m_int_pow),
    (R(r"^regex::Regex::captures$"), m_regex_captures),
    (R(r"^regex::Captures::<'_>::name$"), m_captures_name),
    (R(r"^regex::Match::<'_>::as_str$"), m_match_as_str),
    (R(r"^core::fmt::rt::Argument::<'_>::new_(display|debug|lower_hex|upper_hex)::<.*>$"), m_fmt_argument),
    (R(r"^Arguments::<'_>::new::<\d+, \d+>$"), m_fmt_arguments_new),
    (R(r"^Arguments::<'_>::from_str$"), m_fmt_from_str),
    (R(r"^Formatter::<'_>::write_fmt$"), m_write_fmt),
    (R(r"^Formatter::<'_>::write_str$"), m_write_str),
    (R(r"^std::fmt::format$|^format$|^alloc::fmt::format$"), m_fmt_format),
    (R(r"^Arguments::<'_>::from_str_nonconst$"), m_fmt_from_str),
    (R(r" as ToString>::to_string$"), m_to_string_display),
    (R(r"^Vec::<.*>::new$|^Vec::<.*>::with_capacity$|^<Vec<.*> as Default>::default$"), m_vec_new),
    (R(r"^Vec::<.*>::len$|^core::slice::<impl \[.*\]>::len$"), m_vec_len),
    (R(r"^Vec::<.*>::is_empty$|^core::slice::<impl \[.*\]>::is_empty$"), m_vec_is_empty),
    (R(r"^Vec::<.*>::push$"), m_vec_push),
    (R(r"^Vec::<.*>::append$"), m_vec_append),
    (R(r"^Vec::<.*>::insert$"), m_vec_insert),
    (R(r"^Vec::<.*>::pop$"), m_vec_pop),
    (R(r"^<Vec<.*> as Index<usize>>::index$|^<\[.*\] as Index<usize>>::index$"), m_vec_index),
    (R(r"^<std::ops::Range<.*> as IntoIterator>::into_iter$"), m_range_into_iter),
    (R(r"^<std::ops::Range<.*> as Iterator>::next$"), m_range_next),
    (R(r"^std::ops::RangeInclusive::<.*>::new$"), m_range_incl_new),
    (R(r"^std::ops::Range(Inclusive)?::<.*>::contains::<.*>$"), m_range_contains),
    (R(r"^Box::<.*>::new$"), m_box_new),
    (R(r"^Box::<\[.*\]>::new_uninit$"), m_box_new_uninit),
    (R(r"^std::boxed::box_assume_init_into_vec_unsafe::<.*>$"), m_box_into_vec),
    (R(r"^<.* as (Try)?Into<.*>>::(try_)?into$"), m_try_into),
    (R(r"^DmntkError::new$| as Into<DmntkError>>::into$| as From<.*Error>>::from$"), m_opaque_error),
]
