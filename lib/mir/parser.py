"""Parser for rustc's `-Zunpretty=mir` text (nightly 2026-08) — engine M, DESIGN §2.

Only the constructs that occur in the encoded kernels are understood; anything else raises
MirUnsupported when it is *executed* (parsing keeps unknown statements as raw text), so an
unknown construct can never silently turn into a wrong verdict.
"""
import re


class MirUnsupported(Exception):
    pass


# ----------------------------------------------------------------------------- helpers


def split_top(s, sep=","):
    """Split on `sep` at bracket depth 0 (brackets: () [] {} <>), respecting string/char literals."""
    out, depth, cur, i, n = [], 0, [], 0, len(s)
    while i < n:
        c = s[i]
        if c == '"':
            j = i + 1
            while j < n and s[j] != '"':
                j += 2 if s[j] == "\\" else 1
            cur.append(s[i:j + 1])
            i = j + 1
            continue
        if c == "'" and i + 2 < n and (s[i + 2] == "'" or (s[i + 1] == "\\" and "'" in s[i + 2:i + 12])):
            j = s.index("'", i + 2) if s[i + 1] == "\\" else i + 2
            cur.append(s[i:j + 1])
            i = j + 1
            continue
        if c in "([{":
            depth += 1
        elif c in ")]}":
            depth -= 1
        elif c == "<":
            # generic bracket unless it is a comparison (never in MIR operands) or `<-`
            depth += 1
        elif c == ">":
            if i > 0 and s[i - 1] in "-=":
                pass  # `->` / `=>`
            else:
                depth -= 1
        if c == sep and depth == 0:
            out.append("".join(cur).strip())
            cur = []
        else:
            cur.append(c)
        i += 1
    t = "".join(cur).strip()
    if t:
        out.append(t)
    return out


def match_close(s, i):
    """index of the bracket closing the one opened at s[i] (round/square/curly)."""
    op = s[i]
    cl = {"(": ")", "[": "]", "{": "}"}[op]
    depth, n = 0, len(s)
    j = i
    while j < n:
        c = s[j]
        if c == '"':
            j += 1
            while j < n and s[j] != '"':
                j += 2 if s[j] == "\\" else 1
        elif c == op:
            depth += 1
        elif c == cl:
            depth -= 1
            if depth == 0:
                return j
        j += 1
    raise ValueError("unbalanced: " + s)


# ----------------------------------------------------------------------------- places / operands


class Place:
    __slots__ = ("local", "projs")

    def __init__(self, local, projs=()):
        self.local = local
        self.projs = tuple(projs)

    def __repr__(self):
        return "Place(_%d%s)" % (self.local, "".join(" " + repr(p) for p in self.projs))


def parse_place(s):
    """`_1`, `(*_1)`, `(_1.0: T)`, `((_10 as Some).0: u8)`, `(*_1)[_2]`, `_1[0 of 3]`, `(*_2)[1..]`"""
    s = s.strip()
    p, rest = _place(s)
    if rest.strip():
        raise MirUnsupported("place tail %r in %r" % (rest, s))
    return p


def _place(s):
    s = s.lstrip()
    if s.startswith("("):
        j = match_close(s, 0)
        inner = s[1:j]
        rest = s[j + 1:]
        if inner.startswith("*"):
            base, r2 = _place(inner[1:])
            if r2.strip():
                raise MirUnsupported("deref tail " + s)
            p = Place(base.local, base.projs + (("deref",),))
        else:
            m = re.match(r"^(.*) as (variant#\d+|[A-Za-z_][A-Za-z0-9_]*)$", inner)
            if m and _looks_place(m.group(1)):
                base, r2 = _place(m.group(1))
                if r2.strip():
                    raise MirUnsupported("downcast tail " + s)
                p = Place(base.local, base.projs + (("downcast", m.group(2)),))
            else:
                # field: `<place>.<n>: <type>`
                base, r2 = _place(inner)
                m2 = re.match(r"^\.(\d+): (.*)$", r2, re.S)
                if not m2:
                    raise MirUnsupported("field projection " + s)
                p = Place(base.local, base.projs + (("field", int(m2.group(1)), m2.group(2).strip()),))
    else:
        m = re.match(r"^_(\d+)", s)
        if not m:
            raise MirUnsupported("place " + s)
        p = Place(int(m.group(1)))
        rest = s[m.end():]
    # index projections
    while rest.startswith("["):
        j = match_close(rest, 0)
        idx = rest[1:j]
        rest = rest[j + 1:]
        m = re.match(r"^_(\d+)$", idx)
        if m:
            p = Place(p.local, p.projs + (("index", int(m.group(1))),))
            continue
        m = re.match(r"^(-?)(\d+) of (\d+)$", idx)
        if m:
            p = Place(p.local, p.projs + (("constindex", int(m.group(2)), bool(m.group(1)), int(m.group(3))),))
            continue
        m = re.match(r"^(\d+):(-?)(\d*)$|^(\d+)\.\.(-?)(\d*)$", idx)
        if m:
            g = [x for x in m.groups() if x is not None]
            p = Place(p.local, p.projs + (("subslice", int(g[0]), g[1] == "-", int(g[2]) if g[2] else 0),))
            continue
        raise MirUnsupported("index projection [%s]" % idx)
    return p, rest


def _looks_place(s):
    s = s.strip()
    return s.startswith("_") or s.startswith("(")


class Operand:
    __slots__ = ("kind", "place", "const")

    def __init__(self, kind, place=None, const=None):
        self.kind, self.place, self.const = kind, place, const

    def __repr__(self):
        return "%s %r" % (self.kind, self.place if self.place is not None else self.const)


def parse_operand(s):
    s = s.strip()
    if s.startswith("no_retag "):
        s = s[9:].strip()
    if s.startswith("copy "):
        return Operand("copy", parse_place(s[5:]))
    if s.startswith("move "):
        return Operand("move", parse_place(s[5:]))
    if s.startswith("const "):
        return Operand("const", const=s[6:].strip())
    return Operand("raw", const=s)


BINOPS = {"Add", "Sub", "Mul", "Div", "Rem", "BitAnd", "BitOr", "BitXor", "Shl", "Shr", "Eq", "Ne", "Lt", "Le", "Gt", "Ge",
          "AddWithOverflow", "SubWithOverflow", "MulWithOverflow", "AddUnchecked", "SubUnchecked", "MulUnchecked",
          "ShlUnchecked", "ShrUnchecked", "Offset", "Cmp"}
UNOPS = {"Not", "Neg", "PtrMetadata"}


class Rvalue:
    __slots__ = ("kind", "a", "b", "c", "raw")

    def __init__(self, kind, a=None, b=None, c=None, raw=None):
        self.kind, self.a, self.b, self.c, self.raw = kind, a, b, c, raw

    def __repr__(self):
        return "Rv(%s %r %r %r)" % (self.kind, self.a, self.b, self.c)


def parse_rvalue(s):
    s = s.strip()
    raw = s
    if s.startswith("no_retag "):
        s = s[9:].strip()
    if s.startswith(("copy ", "move ", "const ")):
        m = re.match(r"^(.*) as (.*) \(([A-Za-z]+(\(.*\))?)\)$", s, re.S)
        if m and s.startswith(("copy ", "move ", "const ")) and _balanced(m.group(1)):
            return Rvalue("cast", parse_operand(m.group(1)), m.group(2).strip(), m.group(3), raw=raw)
        return Rvalue("use", parse_operand(s), raw=raw)
    if s.startswith("&raw "):
        m = re.match(r"^&raw (const|mut) (.*)$", s)
        return Rvalue("ref", parse_place(m.group(2)), "raw", raw=raw)
    if s.startswith("&"):
        t = s[1:].lstrip()
        for pre in ("mut ", "fake shallow ", "fake ", "two_phase_mut ", "uniq "):
            if t.startswith(pre):
                t = t[len(pre):]
        if _looks_place(t):
            return Rvalue("ref", parse_place(t), raw=raw)
    m = re.match(r"^([A-Za-z]+)\((.*)\)$", s, re.S)
    if m and m.group(1) in BINOPS:
        a, b = split_top(m.group(2))
        return Rvalue("binop", m.group(1), parse_operand(a), parse_operand(b), raw=raw)
    if m and m.group(1) in UNOPS:
        return Rvalue("unop", m.group(1), parse_operand(m.group(2)), raw=raw)
    if m and m.group(1) == "discriminant":
        return Rvalue("discriminant", parse_place(m.group(2)), raw=raw)
    if m and m.group(1) == "Len":
        return Rvalue("len", parse_place(m.group(2)), raw=raw)
    if m and m.group(1) == "CopyForDeref":
        return Rvalue("use", Operand("copy", parse_place(m.group(2))), raw=raw)
    if m and m.group(1) in ("ShallowInitBox",):
        raise MirUnsupported("rvalue " + s)
    # aggregates -----------------------------------------------------------------
    if s.startswith("("):  # tuple
        j = match_close(s, 0)
        if j == len(s) - 1:
            inner = s[1:j].strip()
            items = split_top(inner) if inner else []
            return Rvalue("aggregate", "tuple", None, [parse_operand(x) for x in items], raw=raw)
    if s.startswith("["):  # array or repeat
        j = match_close(s, 0)
        if j == len(s) - 1:
            inner = s[1:j].strip()
            parts = split_top(inner, ";")
            if len(parts) == 2:
                return Rvalue("repeat", parse_operand(parts[0]), parts[1].strip(), raw=raw)
            items = split_top(inner) if inner else []
            return Rvalue("aggregate", "array", None, [parse_operand(x) for x in items], raw=raw)
    m = re.match(r"^\{(closure|coroutine)@([^}]*)\}(.*)$", s, re.S)
    if m:
        return Rvalue("closure", m.group(2).strip(), m.group(3).strip(), raw=raw)
    # struct/enum:  Path(args) | Path { f: v, .. } | Path
    if s.endswith(")"):
        i = _find_top_open(s, "(")
        if i is not None:
            path = s[:i].strip()
            inner = s[i + 1:-1].strip()
            items = split_top(inner) if inner else []
            return Rvalue("aggregate", "adt", path, [parse_operand(x) for x in items], raw=raw)
    if s.endswith("}"):
        i = _find_top_open(s, "{")
        if i is not None:
            path = s[:i].strip()
            inner = s[i + 1:-1].strip()
            fields = []
            for it in split_top(inner):
                k, v = it.split(":", 1)
                fields.append((k.strip(), parse_operand(v)))
            return Rvalue("aggregate", "adt_named", path, fields, raw=raw)
    if re.match(r"^[A-Za-z_<][^ ]*(::[^ ]+)*$", s) or re.match(r"^[A-Za-z_<].*$", s):
        return Rvalue("aggregate", "adt", s, [], raw=raw)
    raise MirUnsupported("rvalue " + s)


def mask_strings(s):
    """same-length copy with the contents of string literals replaced by 'x'"""
    return re.sub(r'"(\\.|[^"\\])*"', lambda m: '"' + "x" * (len(m.group(0)) - 2) + '"', s)


def _balanced(s):
    s = mask_strings(s)
    d = 0
    for c in s:
        if c in "([{":
            d += 1
        elif c in ")]}":
            d -= 1
            if d < 0:
                return False
    return d == 0


def _find_top_open(s, ch):
    """index of the last top-level opening `ch` whose closing bracket is the final character."""
    s = mask_strings(s)
    depth = 0
    for i in range(len(s) - 1, -1, -1):
        c = s[i]
        if c in ")]}":
            depth += 1
        elif c in "([{":
            depth -= 1
            if depth == 0:
                return i if c == ch else None
    return None


# ----------------------------------------------------------------------------- bodies


class Stmt:
    __slots__ = ("kind", "place", "rv", "raw")

    def __init__(self, kind, place=None, rv=None, raw=None):
        self.kind, self.place, self.rv, self.raw = kind, place, rv, raw


class Term:
    __slots__ = ("kind", "d", "raw")

    def __init__(self, kind, raw=None, **d):
        self.kind, self.d, self.raw = kind, d, raw


class Body:
    def __init__(self, name, kind):
        self.name = name
        self.kind = kind  # fn | const | static | promoted
        self.args = []  # (local, type)
        self.ret = None
        self.locals = {}  # idx -> type string
        self.debug = {}  # name -> place text
        self.blocks = {}  # 'bb0' -> (stmts, term)
        self.cleanup = set()
        self.text = ""
        self.impl_at = None  # (file, line) for `<impl at file:l:c: l:c>`
        self.ambiguous = False

    def __repr__(self):
        return "Body(%s)" % self.name


HEADER_RE = re.compile(r"^(fn|const|static(?: mut)?) (.*) \{\s*$")


def parse_mir(text):
    """-> dict name -> Body (function names exactly as printed in the definition header)."""
    bodies = {}
    # the char literal of the quotation mark would open a string for the bracket / string aware splitters below
    text = text.replace("const '\"'", "const '\\x22'")
    lines = text.split("\n")
    i, n = 0, len(lines)
    while i < n:
        ln = lines[i]
        if ln and not ln.startswith((" ", "}", "//")) and ln.endswith("{") and HEADER_RE.match(ln):
            j = i + 1
            while j < n and lines[j] != "}":
                j += 1
            b = _parse_body(lines[i:j + 1])
            if b is not None:
                if b.name in bodies:
                    # the printer drops module paths of free functions: two modules of one crate can define the same name
                    first = bodies[b.name]
                    first.ambiguous = True
                    b.ambiguous = True
                    k = 2
                    while "%s{dup#%d}" % (b.name, k) in bodies:
                        k += 1
                    bodies["%s{dup#%d}" % (b.name, k)] = b
                else:
                    bodies[b.name] = b
            i = j + 1
        else:
            m1 = re.match(r"^(?:const|static(?: mut)?) (.*?): ([^=]*) = const (.*);$", ln) if ln.startswith(("const ", "static ")) else None
            if m1:
                b = Body(m1.group(1).strip(), "const")
                b.ret = m1.group(2).strip()
                b.text = ln
                b.blocks["bb0"] = ([Stmt("assign", place=Place(0), rv=Rvalue("use", Operand("const", const=m1.group(3).strip()), raw=ln), raw=ln)],
                                   Term("return", ln))
                bodies[b.name] = b
            i += 1
    return bodies


def _parse_body(lines):
    hdr = lines[0]
    m = HEADER_RE.match(hdr)
    kind, sig = m.group(1), m.group(2)
    b = None
    if kind == "fn":
        i = _sig_args_open(sig)
        name = sig[:i].strip()
        j = match_close(sig, i)
        args = sig[i + 1:j]
        ret = sig[j + 1:].strip()
        ret = ret[2:].strip() if ret.startswith("->") else "()"
        b = Body(name, "fn")
        b.ret = ret
        for a in split_top(args):
            am = re.match(r"^_(\d+): (.*)$", a, re.S)
            if am:
                b.args.append((int(am.group(1)), am.group(2).strip()))
    else:
        if not sig.endswith(" ="):
            return None
        depth, cut = 0, None
        for ci, ch in enumerate(sig):
            if ch == "<":
                depth += 1
            elif ch == ">" and sig[ci - 1] != "-":
                depth -= 1
            elif depth == 0 and sig[ci:ci + 2] == ": ":
                cut = ci
                break
        if cut is None:
            return None
        nm = sig[:cut].strip()
        b = Body(nm, "promoted" if "promoted[" in nm else kind.split()[0])
        b.ret = sig[cut + 2:-2].strip()
    b.text = "\n".join(lines)
    ims = re.findall(r"<impl at ([^:>]+):(\d+):(\d+): \d+:\d+>", b.name)
    if ims:
        im = ims[-1]
        b.impl_at = (im[0], int(im[1]), int(im[2]))
    cur = None
    stmts = []
    k = 1
    while k < len(lines):
        ln = lines[k].strip()
        k += 1
        if not ln or ln.startswith("//"):
            continue
        if cur is None:
            lm = re.match(r"^let (mut )?_(\d+): (.*);$", ln)
            if lm:
                b.locals[int(lm.group(2))] = lm.group(3).strip()
                continue
            dm = re.match(r"^debug (.*) => (.*);$", ln)
            if dm:
                b.debug.setdefault(dm.group(1), dm.group(2))
                continue
            bm = re.match(r"^(bb\d+)( \(cleanup\))?: \{$", ln)
            if bm:
                cur = bm.group(1)
                if bm.group(2):
                    b.cleanup.add(cur)
                stmts = []
                continue
            continue  # scope lines, closing braces
        # inside a block: statements may span lines only for long ones — join until ';' at depth 0
        if ln == "}":
            # block without terminator (should not happen)
            b.blocks[cur] = (stmts, Term("missing"))
            cur = None
            continue
        full = ln
        while not _stmt_complete(full) and k < len(lines):
            full += " " + lines[k].strip()
            k += 1
        full = full.rstrip(";").strip() if full.endswith(";") else full
        try:
            item = _parse_stmt_or_term(full)
        except (MirUnsupported, ValueError, AssertionError, AttributeError) as e:
            item = Stmt("unsupported", raw=full + "   // " + repr(e))
            if _looks_term(full):
                item = Term("unsupported", full + "   // " + repr(e))
        if isinstance(item, Term):
            b.blocks[cur] = (stmts, item)
            cur = None
        else:
            stmts.append(item)
    for a, t in b.args:
        b.locals[a] = t
    return b


def _stmt_complete(s):
    return s.endswith(";") and _balanced(_strip_strings(s))


def _strip_strings(s):
    s = re.sub(r"'(\\.|[^'\\])'", "' '", s)      # char literals first: '"' must not open a string
    return re.sub(r'"(\\.|[^"\\])*"', '""', s)


def _sig_args_open(sig):
    """position of the '(' that opens the argument list: the last top-level '(' before ' -> ' or the end."""
    depth = 0
    angle = 0
    cand = None
    i = 0
    n = len(sig)
    while i < n:
        c = sig[i]
        if c == "<":
            angle += 1
        elif c == ">" and (i == 0 or sig[i - 1] != "-"):
            angle -= 1
        elif c == "(" and angle == 0 and depth == 0:
            cand = i
            i = match_close(sig, i)
            # the argument list is the first top-level paren group that starts with `_N:` or is empty
            inner = sig[cand + 1:i].strip()
            if inner == "" or re.match(r"^_\d+:", inner):
                return cand
        i += 1
    return cand


def _looks_term(s):
    return s.startswith(TERM_START) or _find_top_arrow(s) is not None


TERM_START = ("goto ->", "switchInt(", "return", "unreachable", "resume", "drop(", "assert(", "falseEdge", "falseUnwind",
              "abort", "terminate", "tailcall", "yield", "coroutine_drop", "inlineasm")


def _parse_targets(s):
    """`[return: bb1, unwind continue]` | `unwind continue` | `[0: bb5, otherwise: bb3]` -> dict"""
    s = s.strip()
    d = {}
    if s.startswith("["):
        s = s[1:-1]
    for it in split_top(s):
        it = it.strip()
        if ":" in it and not it.startswith("unwind"):
            k, v = it.split(":", 1)
            d[k.strip()] = v.strip()
        elif it.startswith("unwind"):
            v = it[6:].strip()
            d["unwind"] = v[1:].strip() if v.startswith(":") else v
        elif re.match(r"^bb\d+$", it):
            d["return"] = it
    return d


def _parse_stmt_or_term(s):
    raw = s
    if s.startswith("goto ->"):
        return Term("goto", raw, target=s[7:].strip())
    if s.startswith("switchInt("):
        j = match_close(s, 9)
        op = parse_operand(s[10:j])
        tg = s[j + 1:].strip()
        assert tg.startswith("->")
        targets = []
        otherwise = None
        for it in split_top(tg[2:].strip()[1:-1]):
            k, v = it.split(":")
            if k.strip() == "otherwise":
                otherwise = v.strip()
            else:
                targets.append((k.strip(), v.strip()))
        return Term("switch", raw, op=op, targets=targets, otherwise=otherwise)
    if s == "return":
        return Term("return", raw)
    if s == "unreachable":
        return Term("unreachable", raw)
    if s.startswith("resume") or s.startswith("terminate") or s.startswith("abort"):
        return Term("resume", raw)
    if s.startswith("drop("):
        j = match_close(s, 4)
        tg = _parse_targets(s[j + 1:].strip()[2:])
        return Term("drop", raw, place=s[5:j], target=tg.get("return"))
    if s.startswith("assert("):
        j = match_close(s, 6)
        inner = split_top(s[7:j])
        cond = inner[0].strip()
        expected = True
        if cond.startswith("!"):
            expected = False
            cond = cond[1:]
        tg = _parse_targets(s[j + 1:].strip()[2:])
        return Term("assert", raw, cond=parse_operand(cond), expected=expected, msg=inner[1] if len(inner) > 1 else "",
                    target=tg.get("success"))
    if s.startswith(("falseEdge", "falseUnwind")):
        m = re.search(r"\[real: (bb\d+)", s)
        return Term("goto", raw, target=m.group(1))
    # assignment or call: find top-level ' = '
    eq = _find_assign(s)
    if eq is None:
        # statements without assignment
        for pre in ("StorageLive", "StorageDead", "nop", "FakeRead", "PlaceMention", "AscribeUserType", "Retag", "Coverage",
                    "ConstEvalCounter", "BackwardIncompatibleDropHint"):
            if s.startswith(pre):
                return Stmt("nop", raw=raw)
        if s.startswith("Deinit("):
            return Stmt("nop", raw=raw)
        # call without destination never printed; diverging call:  `_x = f(..) -> unwind continue` has '='
        return Stmt("unsupported", raw=raw)
    lhs, rhs = s[:eq].strip(), s[eq + 3:].strip()
    if lhs.startswith("discriminant("):
        return Stmt("setdiscr", place=parse_place(lhs[13:-1]), rv=rhs, raw=raw)
    # call?  `<callee>(args) -> [return: bbN, unwind ...]` or `-> unwind continue`
    arrow = _find_top_arrow(rhs)
    if arrow is not None:
        callpart = rhs[:arrow].strip()
        tg = _parse_targets(rhs[arrow + 2:].strip())
        i = _find_top_open(callpart, "(")
        if i is None:
            return Stmt("unsupported", raw=raw)
        callee = callpart[:i].strip()
        inner = callpart[i + 1:-1].strip()
        args = [parse_operand(x) for x in split_top(inner)] if inner else []
        return Term("call", raw, dest=parse_place(lhs), callee=callee, args=args, target=tg.get("return"),
                    unwind=tg.get("unwind"))
    try:
        return Stmt("assign", place=parse_place(lhs), rv=parse_rvalue(rhs), raw=raw)
    except MirUnsupported as e:
        return Stmt("unsupported", raw=raw + "   // " + str(e))


def _find_assign(s):
    depth = 0
    i = 0
    n = len(s)
    while i < n - 2:
        c = s[i]
        if c == '"':
            i += 1
            while i < n and s[i] != '"':
                i += 2 if s[i] == "\\" else 1
        elif c in "([{":
            depth += 1
        elif c in ")]}":
            depth -= 1
        elif depth == 0 and s[i:i + 3] == " = ":
            return i
        i += 1
    return None


def _find_top_arrow(s):
    """position of a top-level ` -> ` that is followed by a target list (call terminator)."""
    depth = 0
    i = 0
    n = len(s)
    last = None
    while i < n - 1:
        c = s[i]
        if c == '"':
            i += 1
            while i < n and s[i] != '"':
                i += 2 if s[i] == "\\" else 1
        elif c in "([{":
            depth += 1
        elif c in ")]}":
            depth -= 1
        elif depth == 0 and s[i:i + 2] == "->":
            rest = s[i + 2:].strip()
            if rest.startswith("[") or rest.startswith("unwind") or re.match(r"^bb\d+$", rest):
                last = i
        i += 1
    return last
